// Harness for C09: drives ociauth.Scope through its exported API only.
//
// A case is a pair of scope expressions (how two Scope values are built from NewScope,
// ParseScope, UnlimitedScope, Union, Canonical) plus a probe list and a stop index; the
// observation is every exported function on a, b and a.Union(b): IsUnlimited, IsEmpty, Len
// (panic recovered), Iter (full and with a consumer that declines), String,
// Canonical().String(), Holds over the probes, the print/parse round trips, and
// Contains/Equal both ways.
//
// Iterator values are used the way a caller may use a plain function: besides a fresh
// s.Iter() per walk, ONE iterator value taken at the start of the observation is walked
// again and again according to a schedule (full walks, walks cut short, walks started from
// inside the consumer of another walk of the same value or of a new one), part of it before
// and part of it after the other methods were called on the scope.
//
// Scope values are used the way a caller may use a value: every Scope the case produces is
// kept in a pool (a, b, a.Union(b) are numbers 0, 1, 2); further operations (ops) take their
// operands from the pool - the very Go values, with whatever backing arrays they share - and
// add their results to it; pool values are observed AGAIN in between and all of them at the
// end, and compared (Equal, Contains) with an independent copy taken when they were produced.
// The slice handed to NewScope is overwritten as soon as NewScope has returned.
package main

import (
	"encoding/hex"
	"encoding/json"
	"fmt"
	"math/big"
	"math/rand"
	"os"
	"strings"
	"unicode/utf8"

	"cuelabs.dev/go/oci/ociregistry/ociauth"
	"verif/harness/hx"
)

// ---------- byte strings that survive JSON ----------

type bstr string

func plain(s string) bool {
	if !utf8.ValidString(s) {
		return false
	}
	for _, r := range s {
		if r < 0x20 || r == 0x7f || r == utf8.RuneError {
			return false
		}
	}
	return true
}

func (b bstr) MarshalJSON() ([]byte, error) {
	if plain(string(b)) {
		return json.Marshal(string(b))
	}
	return json.Marshal(map[string]string{"hex": hex.EncodeToString([]byte(b))})
}

func (b *bstr) UnmarshalJSON(data []byte) error {
	var s string
	if json.Unmarshal(data, &s) == nil {
		*b = bstr(s)
		return nil
	}
	var m map[string]string
	if err := json.Unmarshal(data, &m); err != nil {
		return err
	}
	raw, err := hex.DecodeString(m["hex"])
	if err != nil {
		return err
	}
	*b = bstr(raw)
	return nil
}

type triple struct {
	T bstr `json:"t"`
	R bstr `json:"r"`
	A bstr `json:"a"`
}

func (t triple) rs() ociauth.ResourceScope {
	return ociauth.ResourceScope{ResourceType: string(t.T), Resource: string(t.R), Action: string(t.A)}
}

func fromRS(r ociauth.ResourceScope) triple {
	return triple{bstr(r.ResourceType), bstr(r.Resource), bstr(r.Action)}
}

// expr: how a Scope is built.
type expr struct {
	K    string   `json:"k"` // new | parse | unl | union | canon
	L    []triple `json:"l,omitempty"`
	Text bstr     `json:"text,omitempty"`
	X    *expr    `json:"x,omitempty"`
	Y    *expr    `json:"y,omitempty"`
}

func eNew(l []triple) *expr   { return &expr{K: "new", L: append([]triple{}, l...)} }
func eParse(s string) *expr   { return &expr{K: "parse", Text: bstr(s)} }
func eUnl() *expr             { return &expr{K: "unl"} }
func eUnion(a, b *expr) *expr { return &expr{K: "union", X: a, Y: b} }
func eCanon(a *expr) *expr    { return &expr{K: "canon", X: a} }

func (e *expr) eval() ociauth.Scope {
	switch e.K {
	case "new":
		return newScope(e.L)
	case "parse":
		return ociauth.ParseScope(string(e.Text))
	case "unl":
		return ociauth.UnlimitedScope()
	case "union":
		return e.X.eval().Union(e.Y.eval())
	case "canon":
		return e.X.eval().Canonical()
	}
	panic("bad expr kind " + e.K)
}

// newScope calls NewScope on a slice of its own (NewScope sorts its argument in place) and,
// the slice being the caller's, overwrites every element of it once NewScope has returned:
// the Scope must not depend on it any longer.
func newScope(l []triple) ociauth.Scope {
	rss := make([]ociauth.ResourceScope, len(l), len(l)+len(l)/2)
	for i, t := range l {
		rss[i] = t.rs()
	}
	s := ociauth.NewScope(rss...)
	for i := range rss {
		rss[i] = ociauth.ResourceScope{ResourceType: "repository", Resource: "overwritten-by-caller", Action: "push"}
	}
	return s
}

func (e *expr) kind() string {
	switch e.K {
	case "union":
		return "union(" + e.X.kind() + "," + e.Y.kind() + ")"
	case "canon":
		return "canon(" + e.X.kind() + ")"
	}
	return e.K
}

func (e *expr) depth() int {
	switch e.K {
	case "union":
		return 1 + max(e.X.depth(), e.Y.depth())
	case "canon":
		return 1 + e.X.depth()
	}
	return 0
}

// ---------- Coq printers ----------

// dictionary of frequent words, defined once in the preamble of every shard; long strings
// are emitted as a concatenation of dictionary words and separators (lossless), because
// elaborating string literals is what costs time in Coq.
var (
	dict     = map[string]string{}
	dictDefs strings.Builder
)

func lit(s string) string {
	if s == "" {
		return "[]"
	}
	for i := 0; i < len(s); i++ {
		if s[i] < 0x20 || s[i] > 0x7e || s[i] == '"' {
			return hx.B(s)
		}
	}
	return `(s "` + s + `")`
}

func intern(words ...string) {
	for _, w := range words {
		if w == "" {
			continue
		}
		if _, ok := dict[w]; ok {
			continue
		}
		name := fmt.Sprintf("w_%d", len(dict))
		dict[w] = name
		fmt.Fprintf(&dictDefs, "Definition %s : bytes := %s.\n", name, lit(w))
	}
}

// termTable: within one case, every triple, every list of triples and every long byte
// string is written once, bound with let, and referred to by name wherever it occurs again
// (a, b and the union hold the same elements, later observations repeat earlier ones ...).
// Sharing is by equality of the printed term: lossless, nothing is judged here. Reading the
// case files is what costs time in Coq, not evaluating them.
type termTable struct {
	names map[string]string
	defs  strings.Builder
	n     int
}

var cx *termTable // the case being printed

func bind(prefix, term string) string {
	if cx == nil {
		return term
	}
	if n, ok := cx.names[term]; ok {
		return n
	}
	name := fmt.Sprintf("%s%d", prefix, cx.n)
	cx.n++
	cx.names[term] = name
	cx.defs.WriteString("let " + name + " := " + term + " in ")
	return name
}

func cb(s string) string {
	if s == "" {
		return "[]"
	}
	if n, ok := dict[s]; ok {
		return n
	}
	if len(s) <= 3 {
		return lit(s)
	}
	return bind("b", cbLong(s))
}

// a long text is a concatenation of its space separated fields, each of them written once
// per case (the String of a, of the union and of every later observation repeat them)
func cbLong(s string) string {
	if cx != nil && strings.Count(s, " ") > 0 && strings.Count(s, " ") < len(s)/4 {
		var toks []string
		for i, f := range strings.Split(s, " ") {
			if i > 0 {
				toks = append(toks, dict[" "])
			}
			if f == "" {
				continue
			}
			if n, ok := dict[f]; ok {
				toks = append(toks, n)
			} else if len(f) <= 3 {
				toks = append(toks, lit(f))
			} else {
				toks = append(toks, bind("b", cbField(f)))
			}
		}
		return "(j " + hx.List(toks) + ")"
	}
	return cbField(s)
}

func cbField(s string) string {
	if len(s) <= 8 || !strings.ContainsAny(s, " :,") {
		return lit(s)
	}
	var toks []string
	start := 0
	flush := func(end int) {
		if end > start {
			w := s[start:end]
			if n, ok := dict[w]; ok {
				toks = append(toks, n)
			} else {
				toks = append(toks, lit(w))
			}
		}
	}
	for i := 0; i < len(s); i++ {
		switch s[i] {
		case ' ', ':', ',':
			flush(i)
			toks = append(toks, dict[s[i:i+1]])
			start = i + 1
		}
	}
	flush(len(s))
	return "(j " + hx.List(toks) + ")"
}

func cTriple(t triple) string {
	return bind("t", "(RS "+cb(string(t.T))+" "+cb(string(t.R))+" "+cb(string(t.A))+")")
}

func cTriples(l []triple) string {
	if len(l) == 0 {
		return "[]"
	}
	items := make([]string, len(l))
	for i, t := range l {
		items[i] = cTriple(t)
	}
	if len(l) == 1 {
		return hx.List(items)
	}
	return bind("l", hx.List(items))
}

func (e *expr) coq() string {
	switch e.K {
	case "new":
		return "(ENew " + cTriples(e.L) + ")"
	case "parse":
		return "(EParse " + cb(string(e.Text)) + ")"
	case "unl":
		return "EUnlimited"
	case "union":
		return "(EUnion " + e.X.coq() + " " + e.Y.coq() + ")"
	case "canon":
		return "(ECanonical " + e.X.coq() + ")"
	}
	panic("bad expr")
}

// ---------- observation ----------

// wspec is one walk of the schedule. Lim < 0: the consumer never declines; otherwise it
// declines its (Lim+1)-th item. Fresh: a new s.Iter() instead of the iterator value kept
// since the start of the observation. Nest: while handling item number NestAt the consumer
// walks (Same: the function value it is being called from, else a new s.Iter()) with limit
// NestLim (< 0: to the end).
type wspec struct {
	Fresh   bool `json:"fresh,omitempty"`
	Lim     int  `json:"lim"`
	Nest    bool `json:"nest,omitempty"`
	NestAt  int  `json:"nest_at,omitempty"`
	Same    bool `json:"nest_same,omitempty"`
	NestLim int  `json:"nest_lim,omitempty"`
}

func cLim(n int) string {
	if n < 0 {
		return "None"
	}
	return fmt.Sprintf("(Some %d%%nat)", n)
}

func (w wspec) coq() string {
	nest := "None"
	if w.Nest {
		nest = fmt.Sprintf("(Some (%d%%nat, %s, %s))", w.NestAt, hx.Bool(w.Same), cLim(w.NestLim))
	}
	return fmt.Sprintf("(Build_wspec %s %s %s)", hx.Bool(w.Fresh), cLim(w.Lim), nest)
}

// the fixed schedules of the enumerated inputs are defined once per shard
const namedScheds = 8

func schedDefs() string {
	var sb strings.Builder
	for k := 0; k < namedScheds; k++ {
		fmt.Fprintf(&sb, "Definition DS%d : list wspec := %s.\n", k, cSchedLit(defaultSched(k)))
	}
	return sb.String()
}

func cSched(l []wspec) string {
	for k := 0; k < namedScheds; k++ {
		d := defaultSched(k)
		same := len(d) == len(l)
		for i := 0; same && i < len(d); i++ {
			same = d[i] == l[i]
		}
		if same {
			return fmt.Sprintf("DS%d", k)
		}
	}
	return cSchedLit(l)
}

func cSchedLit(l []wspec) string {
	items := make([]string, len(l))
	for i, w := range l {
		items[i] = w.coq()
	}
	return hx.List(items)
}

// wobs: what one walk handed to its consumer and to the nested consumer.
type wobs struct {
	Out []triple `json:"out"`
	In  []triple `json:"in,omitempty"`
}

// the Coq term states a walk relative to the first full walk: length of the longest common
// prefix + whatever follows it (lossless; Coq puts it together again and does the judging)
func cWalkPart(ref, got []triple) string {
	n := 0
	for n < len(ref) && n < len(got) && ref[n] == got[n] {
		n++
	}
	return fmt.Sprintf("%d%%nat %s", n, cTriples(got[n:]))
}

func cWalks(ref []triple, ws []wobs) string {
	items := make([]string, len(ws))
	for i, w := range ws {
		items[i] = "(Build_wobs " + cWalkPart(ref, w.Out) + " " + cWalkPart(ref, w.In) + ")"
	}
	return hx.List(items)
}

type iterFn = func(func(ociauth.ResourceScope) bool)

// collector that declines its (lim+1)-th item (never, when lim < 0)
func collect(dst *[]triple, lim int, each func(idx int)) func(ociauth.ResourceScope) bool {
	return func(r ociauth.ResourceScope) bool {
		idx := len(*dst)
		*dst = append(*dst, fromRS(r))
		if each != nil {
			each(idx)
		}
		return lim < 0 || idx < lim
	}
}

func runWalk(s ociauth.Scope, shared iterFn, w wspec) wobs {
	var o wobs
	it := shared
	if w.Fresh {
		it = s.Iter()
	}
	var each func(int)
	if w.Nest {
		each = func(idx int) {
			if idx != w.NestAt {
				return
			}
			inner := it
			if !w.Same {
				inner = s.Iter()
			}
			inner(collect(&o.In, w.NestLim, nil))
		}
	}
	it(collect(&o.Out, w.Lim, each))
	return o
}

type sobs struct {
	Unl    bool     `json:"unlimited"`
	Empty  bool     `json:"empty"`
	Len    *int     `json:"len"` // nil = panicked
	Iter   []triple `json:"iter"`
	Stop   []triple `json:"iter_stop"`
	Str    bstr     `json:"string"`
	CStr   bstr     `json:"canonical_string"`
	Holds  string   `json:"holds_mask"`
	RT     bool     `json:"reparse_equal"`
	CRT    bool     `json:"canonical_reparse_equal"`
	CEq    bool     `json:"canonical_equal"`
	Walks  []wobs   `json:"walks"`
	Panics []string `json:"panics,omitempty"`
}

func observe(s ociauth.Scope, probes []triple, stop int, sched []wspec) sobs {
	var o sobs
	guard := func(name string, f func()) {
		if p, v := hx.Recover(f); p {
			o.Panics = append(o.Panics, name+": "+v)
		}
	}
	// the one iterator value every non-fresh walk of the schedule calls
	var shared iterFn
	guard("Iter()", func() { shared = s.Iter() })
	o.Walks = make([]wobs, len(sched))
	walks := func(from, to int) {
		for i := from; i < to; i++ {
			i := i
			guard(fmt.Sprintf("walk %d", i), func() { o.Walks[i] = runWalk(s, shared, sched[i]) })
		}
	}
	half := (len(sched) + 1) / 2
	guard("IsUnlimited", func() { o.Unl = s.IsUnlimited() })
	guard("IsEmpty", func() { o.Empty = s.IsEmpty() })
	if p, _ := hx.Recover(func() { n := s.Len(); o.Len = &n }); p {
		o.Len = nil
	}
	guard("Iter", func() {
		s.Iter()(func(r ociauth.ResourceScope) bool { o.Iter = append(o.Iter, fromRS(r)); return true })
	})
	guard("IterStop", func() {
		s.Iter()(func(r ociauth.ResourceScope) bool {
			idx := len(o.Stop)
			o.Stop = append(o.Stop, fromRS(r))
			return idx < stop
		})
	})
	walks(0, half)
	guard("String", func() { o.Str = bstr(s.String()) })
	guard("Canonical.String", func() { o.CStr = bstr(s.Canonical().String()) })
	mask := new(big.Int)
	guard("Holds", func() {
		for i, p := range probes {
			if s.Holds(p.rs()) {
				mask.SetBit(mask, i, 1)
			}
		}
	})
	o.Holds = mask.String()
	guard("reparse", func() { o.RT = ociauth.ParseScope(s.String()).Equal(s) })
	guard("creparse", func() { o.CRT = ociauth.ParseScope(s.Canonical().String()).Equal(s) })
	guard("cequal", func() { o.CEq = s.Canonical().Equal(s) && s.Equal(s.Canonical()) })
	walks(half, len(sched))
	return o
}

func (o sobs) coq() string {
	l := "None"
	if o.Len != nil {
		l = fmt.Sprintf("(Some %d%%N)", *o.Len)
	}
	return fmt.Sprintf("(Build_sobs %s %s %s %s %s %s %s %s%%N %s %s %s %s)",
		hx.Bool(o.Unl), hx.Bool(o.Empty), l, cTriples(o.Iter), cTriples(o.Stop),
		cb(string(o.Str)), cb(string(o.CStr)), o.Holds, hx.Bool(o.RT), hx.Bool(o.CRT), hx.Bool(o.CEq),
		cWalks(o.Iter, o.Walks))
}

// pop: one further operation on the pool of Scope values of a case (0 = a, 1 = b,
// 2 = a.Union(b), 3.. = results of the ops before this one). The result joins the pool.
// Look: pool values observed again right after this op (besides all of them at the end).
type pop struct {
	K    string   `json:"k"` // new | parse | unl | union | canon
	L    []triple `json:"l,omitempty"`
	Text bstr     `json:"text,omitempty"`
	I    int      `json:"i,omitempty"` // receiver
	J    int      `json:"j,omitempty"` // argument
	Look []int    `json:"look,omitempty"`
}

func (o pop) coq() string {
	switch o.K {
	case "new":
		return "(PNew " + cTriples(o.L) + ")"
	case "parse":
		return "(PParse " + cb(string(o.Text)) + ")"
	case "unl":
		return "PUnl"
	case "union":
		return fmt.Sprintf("(PUnion %d%%nat %d%%nat)", o.I, o.J)
	case "canon":
		return fmt.Sprintf("(PCanon %d%%nat)", o.I)
	}
	panic("bad op kind " + o.K)
}

func cOps(l []pop) string {
	items := make([]string, len(l))
	for i, o := range l {
		items[i] = o.coq()
	}
	return hx.List(items)
}

type input struct {
	A       *expr    `json:"a"`
	B       *expr    `json:"b"`
	Probes  []triple `json:"probes"` // in addition to the 80-triple universe
	Stop    int      `json:"stop"`
	Sched   []wspec  `json:"sched"`             // absent (corpus files written before it existed): defaultSched(Stop)
	Ops     []pop    `json:"ops,omitempty"`     // further operations on the pool; none: nothing is observed again
	PProbes []triple `json:"pprobes,omitempty"` // Holds probes of the later observations
}

// robs: pool value Idx observed again. After: the number of ops that had run by then.
// Snap: still Equal to / Contains / contained in the copy made when it was produced.
// ChangedSince (for the reader of a replay file only, not part of the Coq case): what is
// not as it was when the value was produced.
type robs struct {
	Idx          int      `json:"pool_index"`
	After        int      `json:"after_ops"`
	Obs          sobs     `json:"obs"`
	Snap         bool     `json:"equals_copy_made_when_produced"`
	ChangedSince []string `json:"changed_since_produced,omitempty"`
}

func (r robs) coq() string {
	return fmt.Sprintf("(Build_robs %d%%nat %s %s)", r.Idx, r.Obs.coq(), hx.Bool(r.Snap))
}

// birth: what a pool value looked like when it was produced
type birth struct {
	Unl  bool     `json:"unlimited"`
	Iter []triple `json:"iter"`
	Str  bstr     `json:"string"`
	copy ociauth.Scope
}

type observed struct {
	A, B, U        sobs
	AB, BA, Eq, Qe bool
	UA             bool
	Born           []birth  `json:",omitempty"` // pool values 3.. when produced
	Again          []robs   `json:",omitempty"`
	Panics         []string `json:",omitempty"`
}

func bornAs(o sobs) birth {
	b := birth{Unl: o.Unl, Iter: o.Iter, Str: o.Str}
	b.makeCopy()
	return b
}

// born records what a value just produced looks like and makes the independent copy
func born(v ociauth.Scope) birth {
	var b birth
	b.Unl = v.IsUnlimited()
	v.Iter()(func(r ociauth.ResourceScope) bool { b.Iter = append(b.Iter, fromRS(r)); return true })
	b.Str = bstr(v.String())
	b.makeCopy()
	return b
}

func (b *birth) makeCopy() {
	if b.Unl {
		b.copy = ociauth.UnlimitedScope()
		return
	}
	b.copy = newScope(b.Iter)
}

func (b birth) diff(o sobs) []string {
	var d []string
	if b.Unl != o.Unl {
		d = append(d, "IsUnlimited")
	}
	same := len(b.Iter) == len(o.Iter)
	for i := 0; same && i < len(b.Iter); i++ {
		same = b.Iter[i] == o.Iter[i]
	}
	if !same {
		d = append(d, "Iter")
	}
	if b.Str != o.Str {
		d = append(d, "String")
	}
	return d
}

func cmpTriple(x, y triple) int {
	if c := strings.Compare(string(x.T), string(y.T)); c != 0 {
		return c
	}
	if c := strings.Compare(string(x.R), string(y.R)); c != 0 {
		return c
	}
	return strings.Compare(string(x.A), string(y.A))
}

func isCatalog(t triple) bool { return t == tr("registry", "catalog", "*") }
func isKnownRepo(t triple) bool {
	return t.T == "repository" && t.R != "" && (t.A == "pull" || t.A == "push")
}

// number of entries of the compact representation (distinct named repositories + catalog)
func repoCount(l []triple) int {
	seen := map[bstr]bool{}
	for _, t := range l {
		if isCatalog(t) {
			seen[""] = true
		} else if isKnownRepo(t) {
			seen[t.R] = true
		}
	}
	return len(seen)
}

// ---------- walk schedules ----------

// the schedule of the enumerated inputs: the kept iterator value is cut short, walked to the
// end with a walk of itself nested inside, a new iterator is cut short, and after everything
// else the kept one is walked to the end once more
func defaultSched(stop int) []wspec {
	return []wspec{
		{Lim: stop},
		{Lim: -1, Nest: true, NestAt: stop, Same: true, NestLim: -1},
		{Fresh: true, Lim: stop + 1, Nest: true, NestAt: 0, Same: false, NestLim: stop},
		{Lim: -1},
	}
}

// a random schedule of 2..5 walks. It starts with a walk of the kept iterator value and ends
// with a walk of it to the end, so that what an earlier walk (complete, cut short, nested)
// leaves behind in the iterator value or in the scope shows in a later one.
func genSched(rnd *rand.Rand) []wspec {
	lim := func() int {
		switch rnd.Intn(5) {
		case 0, 1:
			return -1
		case 2:
			return rnd.Intn(3)
		}
		return rnd.Intn(13)
	}
	one := func() wspec {
		w := wspec{Fresh: rnd.Intn(4) == 0, Lim: lim()}
		if rnd.Intn(3) == 0 {
			w.Nest, w.Same, w.NestLim = true, rnd.Intn(3) != 0, lim()
			if w.Lim > 0 && rnd.Intn(4) != 0 {
				w.NestAt = rnd.Intn(w.Lim + 1)
			} else {
				w.NestAt = rnd.Intn(6)
			}
		}
		return w
	}
	first := one()
	first.Fresh = false
	sched := []wspec{first}
	for k := rnd.Intn(4); k > 0; k-- {
		sched = append(sched, one())
	}
	last := one()
	last.Fresh, last.Lim = false, -1
	return append(sched, last)
}

// ---------- universes ----------

var (
	uTypes = []string{"repository", "registry", "other", ""}
	uRes   = []string{"", "a", "b", "catalog"}
	uActs  = []string{"pull", "push", "*", "delete", ""}
	u80    []triple
)

func tr(t, r, a string) triple { return triple{bstr(t), bstr(r), bstr(a)} }

var k8 = []triple{
	tr("repository", "a", "pull"), tr("repository", "a", "push"), tr("repository", "b", "pull"),
	tr("registry", "catalog", "*"), tr("repository", "", "pull"), tr("repository", "a", "delete"),
	tr("other", "a", "pull"), tr("registry", "catalog", "pull"),
}

var k16 = append(append([]triple{}, k8...),
	tr("repository", "b", "push"), tr("repository", "", "push"), tr("repository", "catalog", "*"),
	tr("registry", "a", "*"), tr("", "", ""), tr("other", "", ""), tr("repository", "a", ""),
	tr("registry", "", "*"))

func init() {
	for _, t := range uTypes {
		for _, r := range uRes {
			for _, a := range uActs {
				u80 = append(u80, tr(t, r, a))
			}
		}
	}
}

func subsets(u []triple, k int) [][]triple {
	var out [][]triple
	var rec func(start int, cur []triple)
	rec = func(start int, cur []triple) {
		if len(cur) == k {
			out = append(out, append([]triple{}, cur...))
			return
		}
		for i := start; i < len(u); i++ {
			rec(i+1, append(cur, u[i]))
		}
	}
	rec(0, nil)
	return out
}

func upTo(u []triple, k int) [][]triple {
	var out [][]triple
	for i := 0; i <= k; i++ {
		out = append(out, subsets(u, i)...)
	}
	return out
}

// shuffled copy, sometimes with a duplicated element
func messy(rnd *rand.Rand, l []triple) []triple {
	c := append([]triple{}, l...)
	if len(c) > 0 && rnd.Intn(3) == 0 {
		c = append(c, c[rnd.Intn(len(c))])
	}
	rnd.Shuffle(len(c), func(i, j int) { c[i], c[j] = c[j], c[i] })
	return c
}

// ---------- scope strings ----------

// render a list of triples as a scope string the way a client would write it, with noise
func renderText(rnd *rand.Rand, l []triple, noise bool) string {
	var fields []string
	i := 0
	for i < len(l) {
		t := l[i]
		j := i + 1
		acts := []string{string(t.A)}
		// group following triples with the same type and resource (any type, not only repository)
		for j < len(l) && l[j].T == t.T && l[j].R == t.R && rnd.Intn(4) != 0 {
			acts = append(acts, string(l[j].A))
			j++
		}
		if t.R == "" && t.A == "" && len(acts) == 1 && rnd.Intn(2) == 0 {
			fields = append(fields, string(t.T))
		} else {
			fields = append(fields, string(t.T)+":"+string(t.R)+":"+strings.Join(acts, ","))
		}
		i = j
	}
	if !noise {
		return strings.Join(fields, " ")
	}
	seps := []string{" ", " ", " ", "  ", "\t", "\n", " \r\n", " ", " ", "　", "\u0085", "\v\f"}
	var sb strings.Builder
	if rnd.Intn(4) == 0 {
		sb.WriteString(seps[rnd.Intn(len(seps))])
	}
	for k, f := range fields {
		if k > 0 {
			sb.WriteString(seps[rnd.Intn(len(seps))])
		}
		sb.WriteString(f)
	}
	if rnd.Intn(4) == 0 {
		sb.WriteString(seps[rnd.Intn(len(seps))])
	}
	return sb.String()
}

var oddFields = []string{
	"a:b", "a:b:c:d", "::", "a::", ":a:", "::a", ":", "repository:a:pull,", "repository:a:,pull", "repository:a:pull,,push",
	"repository::pull", "repository::pull,push", "registry:catalog:*", "registry:catalog:*,pull", "registry:catalog:pull,*",
	"repository:a:push,pull", "repository:a:pull,pull", "repository:a:unknown", "repository", "registry", "pull", "*",
	"repository:a:*", "repository:a:PULL", "Repository:a:pull", "repository:a/b:pull", "repository:a:pull:push",
	"\xc2", "\xe2\x80", "a\xffb:c:d", "\xe2\x80\x8b", "x y", "repository:é:pull", "repository:a:pu ll",
	"repository:a:delete,pull", "repository:a:zzz,pull,push", ",", "a,b", "a,b:c:d", "a:b,c:d",
}

// ---------- random triples ----------

var (
	rTypes = []string{"repository", "repository", "repository", "repository", "registry", "registry", "other", "", "x", "repositor", "repositoryz", "Repository"}
	rRes   = []string{"", "a", "b", "catalog", "foo/bar", "foo", "foo/baz", "a/b/c", "z", "catalo", "catalogs", "A"}
	rActs  = []string{"pull", "pull", "push", "push", "*", "delete", "", "pul", "pulll", "unknown", "Push"}
	dirty  = []string{"a b", "a:b", "a,b", " ", ":", ",", "\xff", "\xc2\xa0", "\x00", "a\tb", "é", "\xe2\x80\x83x", "\"q\""}
)

func randTriple(rnd *rand.Rand, clean bool) triple {
	pick := func(l []string) string {
		if !clean && rnd.Intn(12) == 0 {
			return dirty[rnd.Intn(len(dirty))]
		}
		return l[rnd.Intn(len(l))]
	}
	switch rnd.Intn(10) {
	case 0:
		return tr("registry", "catalog", "*")
	case 1:
		return u80[rnd.Intn(len(u80))]
	}
	t := tr(pick(rTypes), pick(rRes), pick(rActs))
	if clean {
		if t.T == "" {
			t.T = "other"
		}
		if t.R == "" {
			t.R = "a"
		}
		if t.A == "" {
			t.A = "pull"
		}
	}
	return t
}

func randList(rnd *rand.Rand, n int, clean bool) []triple {
	l := make([]triple, 0, n)
	for i := 0; i < n; i++ {
		if len(l) > 0 && rnd.Intn(3) == 0 {
			// same repository, another action: exercises the bitmask
			p := l[rnd.Intn(len(l))]
			l = append(l, tr(string(p.T), string(p.R), rActs[rnd.Intn(4)]))
			continue
		}
		l = append(l, randTriple(rnd, clean))
	}
	return l
}

// a partner related to l
func related(rnd *rand.Rand, l []triple) ([]triple, string) {
	switch rnd.Intn(7) {
	case 0: // subset
		var s []triple
		for _, t := range l {
			if rnd.Intn(2) == 0 {
				s = append(s, t)
			}
		}
		return messy(rnd, s), "subset"
	case 1: // superset
		return messy(rnd, append(append([]triple{}, l...), randList(rnd, 1+rnd.Intn(3), false)...)), "superset"
	case 2: // same set, permuted, duplicates
		return messy(rnd, l), "same"
	case 3: // overlap
		var s []triple
		for _, t := range l {
			if rnd.Intn(2) == 0 {
				s = append(s, t)
			}
		}
		return messy(rnd, append(s, randList(rnd, 1+rnd.Intn(3), false)...)), "overlap"
	case 4: // near miss: one element altered in one field
		s := append([]triple{}, l...)
		if len(s) > 0 {
			i := rnd.Intn(len(s))
			switch rnd.Intn(3) {
			case 0:
				s[i].A = bstr(rActs[rnd.Intn(len(rActs))])
			case 1:
				s[i].R = bstr(rRes[rnd.Intn(len(rRes))])
			default:
				s[i].T = bstr(rTypes[rnd.Intn(len(rTypes))])
			}
		}
		return messy(rnd, s), "nearmiss"
	case 5:
		return nil, "empty"
	}
	return randList(rnd, rnd.Intn(6), false), "independent"
}

// ---------- further operations on the pool ----------

// names that sort after / before every resource name in l (byte order, as strings.Compare)
func nameAfter(l []triple, k int) string {
	m := ""
	for _, t := range l {
		if string(t.R) > m {
			m = string(t.R)
		}
	}
	return m + fmt.Sprintf("~%d", k)
}

func nameBefore(l []triple, k int) string {
	m := ""
	for _, t := range l {
		if t.R != "" && (m == "" || string(t.R) < m) {
			m = string(t.R)
		}
	}
	if m == "" || m[0] <= '!' {
		return fmt.Sprintf("!%d", k)
	}
	// a proper prefix sorts first; when there is none, a name starting with a smaller byte
	if len(m) > 1 && k == 0 {
		return m[:len(m)-1]
	}
	return fmt.Sprintf("%c%d", m[0]-1, k)
}

func knownActs(rnd *rand.Rand, repo string) []triple {
	switch rnd.Intn(3) {
	case 0:
		return []triple{tr("repository", repo, "pull")}
	case 1:
		return []triple{tr("repository", repo, "push")}
	}
	return []triple{tr("repository", repo, "pull"), tr("repository", repo, "push")}
}

// a fresh operand chosen with an eye on what the pool value with elements l holds
func operandFor(rnd *rand.Rand, l []triple) ([]triple, string) {
	return operandOfKind(rnd, l, rnd.Intn(operandKinds))
}

const operandKinds = 14

func operandOfKind(rnd *rand.Rand, l []triple, pick int) ([]triple, string) {
	var out []triple
	// two operands made for the same value get different names more often than not
	salt := 10 * rnd.Intn(4)
	nameAfter := func(l []triple, k int) string { return nameAfter(l, k+salt) }
	nameBefore := func(l []triple, k int) string {
		if k == 0 && salt < 20 {
			return nameBefore(l, 0)
		}
		return nameBefore(l, k+salt)
	}
	// a resource type that sorts after / before every type in l
	typeAfter := func(k int) string {
		m := "other"
		for _, t := range l {
			if string(t.T) > m {
				m = string(t.T)
			}
		}
		return fmt.Sprintf("%s~%d", m, k+salt)
	}
	typeBefore := func(k int) string { return fmt.Sprintf("!%d", k+salt) }
	othersAfter := func() {
		for k := 1 + rnd.Intn(3); k > 0; k-- {
			out = append(out, tr(typeAfter(k), rRes[rnd.Intn(len(rRes))], rActs[rnd.Intn(len(rActs))]))
		}
	}
	othersBefore := func() {
		for k := 1 + rnd.Intn(3); k > 0; k-- {
			out = append(out, tr(typeBefore(k), rRes[rnd.Intn(len(rRes))], rActs[rnd.Intn(len(rActs))]))
		}
	}
	switch pick {
	case 0, 1, 2: // named repositories that all sort after the ones of l (2: and other scopes after its other scopes)
		for k := 1 + rnd.Intn(3); k > 0; k-- {
			out = append(out, knownActs(rnd, nameAfter(l, k))...)
		}
		if pick == 2 || rnd.Intn(3) == 0 {
			othersAfter()
		}
		return out, "after"
	case 3, 4: // ... all before
		for k := rnd.Intn(3); k >= 0; k-- {
			out = append(out, knownActs(rnd, nameBefore(l, k))...)
		}
		if pick == 4 {
			if rnd.Intn(2) == 0 {
				out = append(out, tr("registry", "catalog", "*"))
			} else {
				othersBefore()
			}
		}
		return out, "before"
	case 5: // other scopes only, all after those of l
		othersAfter()
		return out, "others-after"
	case 12: // ... all before
		othersBefore()
		return out, "others-before"
	case 13: // ... on both sides and in between
		othersAfter()
		othersBefore()
		out = append(out, tr("other", nameAfter(l, 0), ""), tr("repository", "", "pull"))
		return messy(rnd, out), "others-around"
	case 6: // the other action of repositories l has, and one new one
		for _, t := range l {
			if isKnownRepo(t) && rnd.Intn(2) == 0 {
				// pull / push, or an action without a compact form (before, between, after them)
				out = append(out, tr("repository", string(t.R), rActs[rnd.Intn(len(rActs))]))
			}
		}
		out = append(out, knownActs(rnd, nameAfter(l, 9))...)
		return out, "actions"
	case 7: // part of l: the union adds nothing
		for _, t := range l {
			if rnd.Intn(2) == 0 {
				out = append(out, t)
			}
		}
		return messy(rnd, out), "subset"
	case 8: // part of l and something after it
		for _, t := range l {
			if rnd.Intn(3) == 0 {
				out = append(out, t)
			}
		}
		out = append(out, knownActs(rnd, nameAfter(l, 1))...)
		return messy(rnd, out), "overlap-after"
	case 9: // in between
		if len(l) > 0 {
			t := l[rnd.Intn(len(l))]
			out = append(out, knownActs(rnd, string(t.R)+"-")...)
		}
		out = append(out, randTriple(rnd, false))
		return out, "between"
	case 10:
		return []triple{tr("registry", "catalog", "*")}, "catalog"
	}
	return randList(rnd, 1+rnd.Intn(4), false), "independent"
}

// genOps: n further operations on a pool whose first three values hold (about) the elements
// elems[0..2]. Biased towards what makes shared backing arrays matter: the same receiver (or
// the same argument) used in several unions, operands that sort entirely after / before the
// other side, unions on the result of an earlier union, unions that add nothing (the result
// IS the receiver) followed by a union on that result.
func genOps(rnd *rand.Rand, elems [][]triple, n int) []pop {
	var ops []pop
	pool := append([][]triple{}, elems...)
	push := func(o pop, l []triple) int {
		ops = append(ops, o)
		pool = append(pool, l)
		return len(pool) - 1
	}
	fresh := func(l []triple) int {
		if rnd.Intn(2) == 0 {
			text := renderText(rnd, l, rnd.Intn(4) == 0)
			return push(pop{K: "parse", Text: bstr(text)}, eParse(text).triples())
		}
		return push(pop{K: "new", L: append([]triple{}, l...)}, l)
	}
	union := func(i, j int) int {
		return push(pop{K: "union", I: i, J: j}, append(append([]triple{}, pool[i]...), pool[j]...))
	}
	anyIdx := func() int {
		switch rnd.Intn(4) {
		case 0:
			return 0
		case 1:
			return 2
		}
		return rnd.Intn(len(pool))
	}
	last := -1 // the pool value the last union had as receiver (or as argument, when swapped)
	swapped := false
	kind := rnd.Intn(operandKinds) // how the last fresh operand related to it
	if n >= 4 && rnd.Intn(3) != 0 {
		// the plainest way two results can come to share an array: one value is the receiver (or
		// the argument) of two unions in a row whose other operand lies entirely on one side of it
		sides := []int{0, 1, 2, 2, 2, 3, 4, 4, 5, 12}
		kind = sides[rnd.Intn(len(sides))]
		last, swapped = anyIdx(), rnd.Intn(3) == 0
		if rnd.Intn(3) == 0 {
			last = 0
		}
		for k := 0; k < 2; k++ {
			l, _ := operandOfKind(rnd, pool[last], kind)
			f := fresh(l)
			if swapped {
				union(f, last)
			} else {
				union(last, f)
			}
		}
	}
	for len(ops) < n {
		switch k := rnd.Intn(20); {
		case k < 11: // pool value with a fresh operand made for it; mostly the same pool value as last time
			i := last
			if i < 0 || rnd.Intn(3) == 0 {
				i = anyIdx()
				swapped = rnd.Intn(3) == 0
			}
			if rnd.Intn(2) == 0 {
				kind = rnd.Intn(operandKinds)
			}
			l, _ := operandOfKind(rnd, pool[i], kind)
			f := fresh(l)
			if swapped {
				union(f, i) // the pool value is the argument
			} else {
				union(i, f)
			}
			last = i
		case k < 14: // two values of the pool
			i, j := anyIdx(), anyIdx()
			union(i, j)
			last = i
			swapped = false
		case k < 16: // on the result of the last operation
			j := anyIdx()
			union(len(pool)-1, j)
			last = len(pool) - 2
			swapped = false
		case k < 18:
			i := anyIdx()
			push(pop{K: "canon", I: i}, pool[i])
		case k < 19:
			i := anyIdx()
			fresh(pool[i]) // same set, new value
		default:
			push(pop{K: "unl"}, nil)
		}
	}
	// now and then look at a value again in the middle, not only at the end
	for n := range ops {
		if rnd.Intn(6) == 0 {
			ops[n].Look = []int{rnd.Intn(3 + n + 1)}
		}
	}
	return ops
}

// what the further observations probe Holds with: every element anywhere in the pool first
func poolProbes(rnd *rand.Rand, in input, max int) []triple {
	all := append(in.A.triples(), in.B.triples()...)
	for _, o := range in.Ops {
		switch o.K {
		case "new":
			all = append(all, o.L...)
		case "parse":
			all = append(all, eParse(string(o.Text)).triples()...)
		}
	}
	seen := map[triple]bool{}
	for _, t := range all {
		seen[t] = true
	}
	// every element that occurs anywhere in the case, and a dozen near misses
	return nearMisses(rnd, all, min(max, len(seen)+12))
}

// withOps adds n further operations and the probes for them to a generated input
func withOps(rnd *rand.Rand, in input, n int) input {
	ta, tb := in.A.triples(), in.B.triples()
	in.Ops = genOps(rnd, [][]triple{ta, tb, append(append([]triple{}, ta...), tb...)}, n)
	in.PProbes = poolProbes(rnd, in, 40)
	return in
}

// a scope with n named repositories (so that the slices NewScope grows by append end up
// with every ratio of length to capacity), m other scopes, sometimes the catalog scope
func roomyList(rnd *rand.Rand, n, m int) []triple {
	var l []triple
	names := []string{"foo", "foo/bar", "team/alpha", "b", "team/beta", "lib/x", "a", "team/gamma", "foo/baz", "m", "q/r", "k"}
	rnd.Shuffle(len(names), func(i, j int) { names[i], names[j] = names[j], names[i] })
	for i := 0; i < n; i++ {
		l = append(l, knownActs(rnd, names[i%len(names)]+strings.Repeat("x", i/len(names)))...)
	}
	for i := 0; i < m; i++ {
		switch rnd.Intn(3) {
		case 0:
			// mostly a repository the scope also holds pull / push on
			l = append(l, tr("repository", names[rnd.Intn(max(1, min(n, len(names))))], []string{"delete", "*", "", "pulll", "pum", "pushh"}[rnd.Intn(6)]))
		case 1:
			l = append(l, tr("other", names[rnd.Intn(len(names))], rActs[rnd.Intn(len(rActs))]))
		default:
			l = append(l, randTriple(rnd, true))
		}
	}
	if rnd.Intn(5) == 0 {
		l = append(l, tr("registry", "catalog", "*"))
	}
	return messy(rnd, l)
}

func nearMisses(rnd *rand.Rand, l []triple, max int) []triple {
	var out []triple
	seen := map[triple]bool{}
	add := func(t triple) {
		if !seen[t] && len(out) < max {
			seen[t] = true
			out = append(out, t)
		}
	}
	for _, t := range l {
		add(t)
	}
	for _, t := range l {
		add(tr(string(t.T), string(t.R), "pull"))
		add(tr(string(t.T), string(t.R), "push"))
		add(tr("repository", string(t.R), string(t.A)))
		add(tr(string(t.T), "", string(t.A)))
		add(tr(string(t.T), string(t.R), ""))
		add(tr("registry", string(t.R), string(t.A)))
	}
	return out
}

func (e *expr) triples() []triple {
	switch e.K {
	case "new":
		return e.L
	case "parse":
		var out []triple
		ociauth.ParseScope(string(e.Text)).Iter()(func(r ociauth.ResourceScope) bool { out = append(out, fromRS(r)); return true })
		return out
	case "union":
		return append(append([]triple{}, e.X.triples()...), e.Y.triples()...)
	case "canon":
		return e.X.triples()
	}
	return nil
}

// ---------- main ----------

func main() {
	cfg := hx.ParseFlags()
	out := hx.NewOut(cfg, "Obs.C09")
	out.ShardMax = 250
	intern(" ", ":", ",", "unknown", "registry:catalog:*")
	intern(uTypes...)
	intern(uRes...)
	intern(uActs...)
	intern(rTypes...)
	intern(rRes...)
	intern(rActs...)
	out.Preamble = dictDefs.String() + "Definition U80 : list rscope := " + cTriples(u80) + ".\n" + schedDefs()
	rnd := cfg.Rand()
	out.ShardMax = 160

	add := func(in input, origin string) {
		if in.Sched == nil {
			in.Sched = defaultSched(in.Stop)
		}
		probes := append(append([]triple{}, u80...), in.Probes...)
		var ob observed
		var a, b, u ociauth.Scope
		guard := func(name string, f func()) {
			if p, v := hx.Recover(f); p {
				ob.Panics = append(ob.Panics, name+": "+v)
			}
		}
		guard("build a", func() { a = in.A.eval() })
		guard("build b", func() { b = in.B.eval() })
		guard("union", func() { u = a.Union(b) })
		ob.A = observe(a, probes, in.Stop, in.Sched)
		ob.B = observe(b, probes, in.Stop, in.Sched)
		ob.U = observe(u, probes, in.Stop, in.Sched)
		guard("Contains", func() { ob.AB = a.Contains(b); ob.BA = b.Contains(a) })
		guard("Equal", func() { ob.Eq = a.Equal(b); ob.Qe = b.Equal(a) })
		guard("Union.Equal", func() { ob.UA = u.Equal(a) })
		ob.Panics = append(append(append(ob.Panics, ob.A.Panics...), ob.B.Panics...), ob.U.Panics...)
		// ---- the pool: go on working with the very same values, then look at all of them again
		pool := []ociauth.Scope{a, b, u}
		births := []birth{bornAs(ob.A), bornAs(ob.B), bornAs(ob.U)}
		look := func(idx, after int) {
			if idx < 0 || idx >= len(pool) {
				panic(fmt.Sprintf("op looks at pool value %d of %d", idx, len(pool)))
			}
			r := robs{Idx: idx, After: after}
			r.Obs = observe(pool[idx], in.PProbes, in.Stop, []wspec{})
			guard(fmt.Sprintf("pool %d vs copy", idx), func() {
				c := births[idx].copy
				r.Snap = pool[idx].Equal(c) && c.Equal(pool[idx]) && pool[idx].Contains(c) && c.Contains(pool[idx])
			})
			r.ChangedSince = births[idx].diff(r.Obs)
			ob.Panics = append(ob.Panics, r.Obs.Panics...)
			ob.Again = append(ob.Again, r)
		}
		for n, op := range in.Ops {
			var v ociauth.Scope
			at := func(i int) ociauth.Scope {
				if i < 0 || i >= len(pool) {
					panic(fmt.Sprintf("op %d uses pool value %d of %d", n, i, len(pool)))
				}
				return pool[i]
			}
			switch op.K { // operands that do not exist are a bug of the generator, not of the library
			case "union":
				at(op.I)
				at(op.J)
			case "canon":
				at(op.I)
			}
			guard(fmt.Sprintf("op %d %s", n, op.K), func() {
				switch op.K {
				case "new":
					v = newScope(op.L)
				case "parse":
					v = ociauth.ParseScope(string(op.Text))
				case "unl":
					v = ociauth.UnlimitedScope()
				case "union":
					v = pool[op.I].Union(pool[op.J])
				case "canon":
					v = pool[op.I].Canonical()
				default:
					panic("bad op kind " + op.K)
				}
			})
			pool = append(pool, v)
			var bo birth
			guard(fmt.Sprintf("op %d result", n), func() { bo = born(v) })
			births = append(births, bo)
			ob.Born = append(ob.Born, bo)
			for _, idx := range op.Look {
				look(idx, n+1)
			}
		}
		if len(in.Ops) > 0 {
			for idx := range pool {
				look(idx, len(in.Ops))
			}
		}
		cx = &termTable{names: map[string]string{}}
		defer func() { cx = nil }()
		pr := "U80"
		if len(in.Probes) > 0 {
			pr = "(U80 ++ " + cTriples(in.Probes) + ")"
		}
		again := make([]string, len(ob.Again))
		for i, r := range ob.Again {
			again[i] = r.coq()
		}
		coq := fmt.Sprintf("Build_case %s %s %s %d%%nat %s %s %s %s %s %s %s %s %s %s %s %s %s",
			in.A.coq(), in.B.coq(), pr, in.Stop, cSched(in.Sched), ob.A.coq(), ob.B.coq(), ob.U.coq(),
			hx.Bool(ob.AB), hx.Bool(ob.BA), hx.Bool(ob.Eq), hx.Bool(ob.Qe), hx.Bool(ob.UA), hx.Bool(len(ob.Panics) > 0),
			cOps(in.Ops), cTriples(in.PProbes), hx.List(again))
		class := origin + "/" + in.A.K + "," + in.B.K
		if !out.Add(hx.Case{Coq: "(" + cx.defs.String() + coq + ")", Desc: map[string]any{"input": in, "observed": ob, "origin": origin},
			Tags: map[string]any{"class": class, "origin": origin}}) {
			return
		}
		out.Count("origin:" + origin)
		out.Count("kinds:" + in.A.kind() + "|" + in.B.kind())
		out.Count(fmt.Sprintf("size_a:%02d", len(ob.A.Iter)))
		out.Count(fmt.Sprintf("size_b:%02d", len(ob.B.Iter)))
		feat := func(name string, ok bool) {
			if ok {
				out.Count("feature:" + name)
			}
		}
		has := func(o sobs, f func(triple) bool) bool {
			for _, t := range o.Iter {
				if f(t) {
					return true
				}
			}
			return false
		}
		isCat := func(t triple) bool { return t == tr("registry", "catalog", "*") }
		isRepoKnown := func(t triple) bool { return t.T == "repository" && t.R != "" && (t.A == "pull" || t.A == "push") }
		isOther := func(t triple) bool { return !isCat(t) && !isRepoKnown(t) }
		feat("a_has_catalog", has(ob.A, isCat))
		feat("a_has_empty_repository_name", has(ob.A, func(t triple) bool { return t.T == "repository" && t.R == "" }))
		feat("a_mixes_known_and_other", has(ob.A, isOther) && (has(ob.A, isCat) || has(ob.A, isRepoKnown)))
		feat("a_contains_b", ob.AB)
		feat("b_contains_a", ob.BA)
		feat("equal", ob.Eq)
		feat("union_adds_nothing", ob.UA)
		feat("union_adds_nothing_text_kept", ob.UA && in.A.K == "parse" && ob.U.Str == in.A.Text)
		feat("union_grows", !ob.UA)
		feat("unlimited_involved", ob.A.Unl || ob.B.Unl)
		feat("a_roundtrip_fails(unclean)", !ob.A.CRT && !ob.A.Unl)
		feat("a_roundtrip_ok", ob.A.CRT)
		feat("len_panics", ob.A.Len == nil || ob.B.Len == nil)
		feat("stop_cut_short", len(ob.A.Stop) < len(ob.A.Iter))
		out.Count(fmt.Sprintf("walks:%d", len(in.Sched)))
		// what the schedule does to the kept iterator value of a, b or the union before its last walk
		for _, o := range []sobs{ob.A, ob.B, ob.U} {
			mixed := has(o, isOther) && (has(o, isCat) || has(o, isRepoKnown))
			var full, cut, nestSame, nestNew, fresh bool
			for i, w := range in.Sched {
				if i == len(in.Sched)-1 {
					break
				}
				got := o.Walks[i]
				fresh = fresh || w.Fresh
				if !w.Fresh && len(got.Out) == len(o.Iter) && len(o.Iter) > 0 {
					full = true
				}
				if !w.Fresh && len(got.Out) < len(o.Iter) {
					cut = true
				}
				if w.Nest && len(got.In) > 0 {
					nestSame = nestSame || w.Same
					nestNew = nestNew || !w.Same
				}
			}
			feat("walk_again_after_full_walk", full)
			feat("walk_again_after_full_walk(known_and_other_mixed)", full && mixed)
			feat("walk_again_after_cut_short", cut)
			feat("walk_again_after_cut_short(known_and_other_mixed)", cut && mixed)
			feat("walk_nested_in_same_iterator", nestSame)
			feat("walk_nested_new_iterator", nestNew)
			feat("walk_fresh_between", fresh)
		}
		feat("panic", len(ob.Panics) > 0)
		// the pool: which situations the further operations put the values in
		out.Count(fmt.Sprintf("ops:%d", len(in.Ops)))
		if len(in.Ops) > 0 {
			recv, arg := map[int]int{}, map[int]int{}
			var onResult, noop bool
			for n, op := range in.Ops {
				out.Count("op:" + op.K)
				if op.K != "union" {
					continue
				}
				recv[op.I]++
				arg[op.J]++
				derived := func(i int) bool {
					return i == 2 || i > 2 && (in.Ops[i-3].K == "union" || in.Ops[i-3].K == "canon")
				}
				onResult = onResult || derived(op.I) || derived(op.J)
				bi, bj, br := births[op.I], births[op.J], births[3+n]
				noop = noop || (!bi.Unl && len(br.Iter) == len(bi.Iter))
				if bi.Unl || bj.Unl || len(bj.Iter) == 0 || len(bi.Iter) == 0 {
					continue
				}
				switch {
				case cmpTriple(bi.Iter[len(bi.Iter)-1], bj.Iter[0]) < 0:
					out.Count("feature:op_union_argument_all_after_receiver")
				case cmpTriple(bj.Iter[len(bj.Iter)-1], bi.Iter[0]) < 0:
					out.Count("feature:op_union_argument_all_before_receiver")
				}
			}
			many := func(m map[int]int) bool {
				for _, n := range m {
					if n > 1 {
						return true
					}
				}
				return false
			}
			feat("pool_receiver_used_again", many(recv) || recv[0] > 0)
			feat("pool_argument_used_again", many(arg) || arg[1] > 0)
			feat("pool_union_on_earlier_result", onResult)
			feat("pool_union_adds_nothing", noop)
			out.Count(fmt.Sprintf("receiver_repositories:%02d", repoCount(births[0].Iter)))
		}
	}

	type corpusFile struct {
		Input input `json:"input"`
	}
	if cfg.Replay != "" {
		b, err := os.ReadFile(cfg.Replay)
		if err != nil {
			panic(err)
		}
		var r corpusFile
		if err := json.Unmarshal(b, &r); err != nil {
			panic(err)
		}
		add(r.Input, "replay")
		if err := out.Flush(); err != nil {
			panic(err)
		}
		return
	}
	for _, raw := range hx.LoadCorpus(cfg.Corpus) {
		var r corpusFile
		if json.Unmarshal(raw, &r) == nil && r.Input.A != nil && r.Input.B != nil {
			add(r.Input, "corpus")
		}
	}

	thorough := cfg.Thorough()

	// 1. every single triple of the 80-universe (and the empty list), against a rotating partner
	add(input{A: eNew(nil), B: eNew(nil), Stop: 0}, "u80-1")
	for i, t := range u80 {
		add(input{A: eNew([]triple{t}), B: eNew([]triple{k16[i%len(k16)]}), Stop: i % 2}, "u80-1")
		add(input{A: eParse(renderText(rnd, []triple{t}, false)), B: eNew([]triple{t}), Stop: 0}, "u80-1-parse")
	}
	// 2. every 2- and 3-subset of the 16 core triples (thorough: every 2-subset of the 80-universe too)
	small := upTo(k16, 2)
	for _, k := range []int{2, 3} {
		for _, sub := range subsets(k16, k) {
			add(input{A: eNew(messy(rnd, sub)), B: eNew(small[rnd.Intn(len(small))]), Stop: rnd.Intn(4)}, fmt.Sprintf("k16-%d", k))
		}
	}
	if thorough {
		for _, sub := range subsets(u80, 2) {
			add(input{A: eNew(messy(rnd, sub)), B: eNew(small[rnd.Intn(len(small))]), Stop: rnd.Intn(3)}, "u80-2")
		}
		for _, sub := range subsets(k16, 4) {
			add(input{A: eNew(messy(rnd, sub)), B: eNew(small[rnd.Intn(len(small))]), Stop: rnd.Intn(5)}, "k16-4")
		}
	}
	// 3. all ordered pairs of subsets of size <= 2 of the 8 core triples (thorough: size <= 3 of 8, size <= 2 of 16)
	pairsOver := func(sets [][]triple, origin string) {
		for _, x := range sets {
			for _, y := range sets {
				add(input{A: eNew(x), B: eNew(y), Stop: 1}, origin)
			}
		}
	}
	pairsOver(upTo(k8, 2), "k8-pairs")
	if thorough {
		pairsOver(upTo(k8, 3), "k8-pairs3")
		pairsOver(upTo(k16, 2), "k16-pairs")
	}
	// 4. random larger lists over a wider universe, with a related partner
	nRandom, nParse, nExpr := 500, 600, 300
	if thorough {
		nRandom, nParse, nExpr = 12000, 12000, 6000
	}
	for i := 0; i < nRandom; i++ {
		clean := rnd.Intn(3) == 0
		l := randList(rnd, rnd.Intn(13), clean)
		m, rel := related(rnd, l)
		in := input{A: eNew(l), B: eNew(m), Stop: rnd.Intn(6)}
		if rnd.Intn(12) == 0 {
			in.B = eUnl()
			rel = "unlimited"
		}
		if rnd.Intn(2) == 0 {
			in.A, in.B = in.B, in.A
		}
		in.Probes = nearMisses(rnd, append(append([]triple{}, l...), m...), 40)
		in.Sched = genSched(rnd)
		if i%4 == 0 {
			in = withOps(rnd, in, 2+rnd.Intn(3))
		}
		add(in, "random-"+rel)
	}
	// 5. scope strings: duplicates, permutations, grouping, odd white space, malformed fields
	for i := 0; i < nParse; i++ {
		clean := rnd.Intn(2) == 0
		l := randList(rnd, rnd.Intn(8), clean)
		text := renderText(rnd, messy(rnd, l), rnd.Intn(2) == 0)
		origin := "parse"
		if rnd.Intn(3) == 0 {
			// malformed stream: splice odd fields in
			fs := strings.Fields(text)
			for k := rnd.Intn(3) + 1; k > 0; k-- {
				fs = append(fs, oddFields[rnd.Intn(len(oddFields))])
			}
			rnd.Shuffle(len(fs), func(i, j int) { fs[i], fs[j] = fs[j], fs[i] })
			text = strings.Join(fs, " ")
			origin = "parse-odd"
		}
		var b *expr
		switch rnd.Intn(5) {
		case 0:
			b = eNew(messy(rnd, l))
		case 1:
			b = eParse(renderText(rnd, messy(rnd, l), true)) // same set, other text
		case 2:
			m, _ := related(rnd, l)
			b = eParse(renderText(rnd, m, false))
		case 3:
			m, _ := related(rnd, l)
			b = eNew(m)
		default:
			b = eCanon(eParse(text))
		}
		in := input{A: eParse(text), B: b, Stop: rnd.Intn(5)}
		in.Probes = nearMisses(rnd, append(in.A.triples(), in.B.triples()...), 40)
		in.Sched = genSched(rnd)
		if i%4 == 0 {
			in = withOps(rnd, in, 2+rnd.Intn(3))
		}
		add(in, origin)
	}
	for _, f := range oddFields {
		add(input{A: eParse(f), B: eParse(f + " " + f), Stop: 0, Probes: nearMisses(rnd, eParse(f).triples(), 20)}, "parse-odd")
	}
	// 6. nested expressions: unions of unions, canonical forms, unlimited in the middle
	var genExpr func(d int) *expr
	genExpr = func(d int) *expr {
		if d == 0 || rnd.Intn(3) == 0 {
			switch rnd.Intn(8) {
			case 0:
				return eUnl()
			case 1, 2, 3:
				return eParse(renderText(rnd, randList(rnd, rnd.Intn(4), rnd.Intn(2) == 0), rnd.Intn(3) == 0))
			}
			if rnd.Intn(2) == 0 {
				return eNew(messy(rnd, small[rnd.Intn(len(small))]))
			}
			return eNew(randList(rnd, rnd.Intn(4), false))
		}
		if rnd.Intn(4) == 0 {
			return eCanon(genExpr(d - 1))
		}
		x := genExpr(d - 1)
		if rnd.Intn(3) == 0 {
			// union with something it already contains: must come back unchanged
			ts := x.triples()
			var s []triple
			for _, t := range ts {
				if rnd.Intn(2) == 0 {
					s = append(s, t)
				}
			}
			return eUnion(x, eNew(s))
		}
		return eUnion(x, genExpr(d-1))
	}
	for i := 0; i < nExpr; i++ {
		a, b := genExpr(1+rnd.Intn(3)), genExpr(rnd.Intn(3))
		in := input{A: a, B: b, Stop: rnd.Intn(4)}
		in.Probes = nearMisses(rnd, append(a.triples(), b.triples()...), 30)
		in.Sched = genSched(rnd)
		if i%4 == 0 {
			in = withOps(rnd, in, 2+rnd.Intn(3))
		}
		add(in, "expr")
	}
	// 7. values that go on being used: receivers with 0..12 named repositories and 0..8 other
	// scopes (every ratio of length to capacity of the slices inside), built by NewScope or
	// ParseScope, a partner made for them (mostly sorting entirely after / before them), and
	// 4..6 further operations on the pool of values
	nPool := 300
	if thorough {
		nPool = 5000
	}
	for i := 0; i < nPool; i++ {
		var l []triple
		switch i % 4 {
		case 0:
			l = roomyList(rnd, rnd.Intn(13), 0) // named repositories only
		case 1:
			l = roomyList(rnd, rnd.Intn(5), 1+rnd.Intn(8)) // mostly other scopes
		default:
			l = roomyList(rnd, rnd.Intn(13), rnd.Intn(9))
		}
		m, rel := operandFor(rnd, l)
		mk := func(l []triple) *expr {
			if rnd.Intn(2) == 0 {
				return eParse(renderText(rnd, l, rnd.Intn(4) == 0))
			}
			return eNew(l)
		}
		in := input{A: mk(l), B: mk(m), Stop: rnd.Intn(5)}
		if rnd.Intn(8) == 0 {
			in.A, in.B = in.B, in.A
		}
		in.Probes = nearMisses(rnd, append(in.A.triples(), in.B.triples()...), 16)
		in.Sched = genSched(rnd)
		add(withOps(rnd, in, 4+rnd.Intn(3)), "pool-"+rel)
	}

	if err := out.Flush(); err != nil {
		panic(err)
	}
}
