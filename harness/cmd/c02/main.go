// Harness for C02: random and enumerated operation histories against *ocimem.Registry.
package main

import (
	"encoding/json"
	"fmt"
	"math/rand"
	"os"
	"regexp"
	"sort"
	"strings"

	"cuelabs.dev/go/oci/ociregistry/ocimem"
	"verif/harness/hx"
	"verif/harness/memsim"
)

type history struct {
	Immutable bool        `json:"immutable"`
	Ops       []memsim.Op `json:"ops"`
}

func runHistory(out *hx.Out, h history, origin string) []memsim.Result {
	reg := ocimem.NewWithConfig(&ocimem.Config{ImmutableTags: h.Immutable})
	ex := memsim.NewExec(reg, true)
	or := memsim.NewOracles()
	written := map[int][]byte{}
	var results []memsim.Result
	var opsCoq, resCoq []string
	interesting := false
	sawChange := false
	for _, o := range h.Ops {
		or.Observe(o)
		if o.Kind == "WCommit" {
			or.Content(written[o.W])
		}
		r := ex.Run(o)
		if o.Kind == "WWrite" && r.Kind == "n" {
			written[o.W] = append(append([]byte{}, written[o.W]...), o.Content[:r.N]...)
		}
		if r.Kind == "read" {
			or.Content(r.Data)
		}
		results = append(results, r)
		opsCoq = append(opsCoq, o.Coq())
		resCoq = append(resCoq, r.Coq())
		switch o.Kind {
		case "DeleteBlob", "DeleteManifest", "DeleteTag", "MountBlob":
			if r.Kind != "err" {
				sawChange = true
			}
		case "PushBlob", "PushManifest", "WCommit":
			if r.Kind == "err" {
				sawChange = true
			}
			if o.Kind == "PushManifest" && o.Tag != "" {
				sawChange = true
			}
		case "GetBlob", "GetManifest", "GetTag", "ResolveBlob", "ResolveManifest", "ResolveTag", "Tags", "Referrers", "Repositories", "GetBlobRange":
			if sawChange {
				interesting = true
			}
		}
		out.Count("op:" + o.Kind)
		out.Count("result:" + r.Kind)
		if r.Kind == "err" {
			out.Count("errcode:" + r.Code)
		}
	}
	// every string a validity question was asked for (Obs/C02.v answers them itself, from the
	// grammars of the specifications, and compares the harness's tables with its answers)
	cand := fmt.Sprintf("{| k_repos := %s; k_tags := %s; k_digests := %s |}",
		hx.Bs(keys(or.Repos)), hx.Bs(keys(or.Tags)), hx.Bs(keys(or.Digests)))
	for r, v := range or.Repos {
		if r != "" {
			out.Count("reponame:" + repoShape(r, v))
		}
	}
	coq := fmt.Sprintf("{| c_imm := %s; c_orc := %s; c_cand := %s; c_ops := %s; c_obs := %s |}",
		hx.Bool(h.Immutable), or.Coq(), cand, hx.List(opsCoq), hx.List(resCoq))
	type step struct {
		Op  memsim.Op     `json:"op"`
		Res memsim.Result `json:"res"`
	}
	steps := make([]step, len(h.Ops))
	for i := range h.Ops {
		steps[i] = step{h.Ops[i], results[i]}
	}
	if out.Add(hx.Case{Coq: coq, Desc: map[string]any{"input": h, "trace": steps, "origin": origin},
		Tags: map[string]any{"class": origin, "immutable": h.Immutable}}) {
		out.Count(fmt.Sprintf("len:%d", (len(h.Ops)+9)/10*10))
		if interesting {
			out.Count("interesting")
		}
		out.Count("origin:" + origin)
	}
	return results
}

func keys(m map[string]bool) []string {
	ks := make([]string, 0, len(m))
	for k := range m {
		ks = append(ks, k)
	}
	sort.Strings(ks)
	return ks
}

var sepRuns = regexp.MustCompile(`[._-]+`)

// repoShape classifies a repository name for the input distribution: which alternatives of
// the grammar a valid name uses.
func repoShape(r string, valid bool) string {
	if !valid {
		return "invalid"
	}
	var fs []string
	if strings.Contains(r, "/") {
		fs = append(fs, "path")
	}
	seen := map[string]bool{}
	for _, sep := range sepRuns.FindAllString(r, -1) {
		if len(sep) > 2 {
			sep = "---"
		}
		seen[sep] = true
	}
	for _, sep := range []string{".", "_", "__", "-", "--", "---"} {
		if seen[sep] {
			fs = append(fs, "sep"+sep)
		}
	}
	if len(r) >= 200 {
		fs = append(fs, "long")
	}
	if len(fs) == 0 {
		return "valid:plain"
	}
	return "valid:" + strings.Join(fs, ",")
}

// Names that only this harness uses (the others run histories through URLs): a repository
// name of 255 bytes using every separator, and near misses made of bytes a URL path would not
// carry unchanged.
var (
	longRepo = strings.Repeat("abcdefgh.ijklmnop_qrstuvwx__yz012345-6789abcd--efgh/", 5)[:254] + "z"
	rawBadRepos = []string{"a//b", "/a", "a/", "a b", " a", "a\n", "\na", "a:b", "a@b", "a:5000/b", "a\u00e9", "a\x00b", "a%2fb", "a+b", "a,b", "a*", "a\tb",
		"a/./b", "a/../b", "..", "a?b", "a#b", "a__b\n", "a__b/", longRepo + "_", longRepo + "/"}
	rawBadTags    = []string{"a:b", "a@b", "a/b", "t\n", "\u00e9", "a b", " ", "t\x00", "sha256:e3b0c44298fc1c149afbf4c8996fb92427ae41e4649b934ca495991b7852b855"}
	rawBadDigests = []string{"sha256:e3b0c44298fc1c149afbf4c8996fb92427ae41e4649b934ca495991b7852b855\n", " sha256:e3b0c44298fc1c149afbf4c8996fb92427ae41e4649b934ca495991b7852b855",
		"sha256:e3b0c44298fc1c149afbf4c8996fb92427ae41e4649b934ca495991b7852b85 ", "sha256::e3b0c44298fc1c149afbf4c8996fb92427ae41e4649b934ca495991b7852b855",
		"sha256+b64:47DEQpj8HBSa-_TImW-5JCeuQeRkm5NMpJWZG3hSuFU", "sha256:e3b0c44298fc1c149afbf4c8996fb92427ae41e4649b934ca495991b7852b8\u00e9"}
)

// newGen: the shared generator with this harness's extra names.
func newGen(rnd *rand.Rand, large bool) *memsim.Gen {
	g := memsim.NewGen(rnd, large)
	g.PushExtras = true
	g.Recommit = true
	g.MountDelete = true
	g.BadRepos = append(append([]string{}, g.BadRepos...), rawBadRepos...)
	g.BadTags = append(append([]string{}, g.BadTags...), rawBadTags...)
	g.BadDigests = append(append([]string{}, g.BadDigests...), rawBadDigests...)
	if rnd.Intn(12) == 0 {
		g.Repos[rnd.Intn(len(g.Repos))] = longRepo
	}
	return g
}

func init() { // the pools are what their names say (by the specification's grammar, not the library's)
	if !memsim.SpecValidRepository(longRepo) || len(longRepo) != 255 {
		panic("longRepo")
	}
	for _, r := range rawBadRepos {
		if memsim.SpecValidRepository(r) {
			panic("valid repository in rawBadRepos: " + r)
		}
	}
	for _, t := range rawBadTags {
		if memsim.SpecValidTag(t) {
			panic("valid tag in rawBadTags: " + t)
		}
	}
	for _, d := range rawBadDigests {
		if memsim.SpecValidDigest(d) {
			panic("valid digest in rawBadDigests: " + d)
		}
	}
}

func main() {
	cfg := hx.ParseFlags()
	out := hx.NewOut(cfg, "Obs.C02")
	out.ShardMax = 40
	if cfg.Replay != "" {
		b, err := os.ReadFile(cfg.Replay)
		if err != nil {
			panic(err)
		}
		var r struct {
			Input history `json:"input"`
		}
		if err := json.Unmarshal(b, &r); err != nil {
			panic(err)
		}
		runHistory(out, r.Input, "replay")
		if err := out.Flush(); err != nil {
			panic(err)
		}
		return
	}
	for _, raw := range hx.LoadCorpus(cfg.Corpus) {
		var r struct {
			Input history `json:"input"`
		}
		if json.Unmarshal(raw, &r) == nil && len(r.Input.Ops) > 0 {
			runHistory(out, r.Input, "corpus")
		}
	}
	rnd := cfg.Rand()
	n := 600
	if cfg.Thorough() {
		n = 6000
	}
	for i := 0; i < n; i++ {
		imm := rnd.Intn(2) == 0
		large := i%5 == 4
		g := newGen(rnd, large)
		// generate interleaved with execution on a scratch registry so that references are mostly valid
		reg := ocimem.NewWithConfig(&ocimem.Config{ImmutableTags: imm})
		ex := memsim.NewExec(reg, true)
		length := 5 + rnd.Intn(36)
		if large {
			length = 40 + rnd.Intn(40)
		}
		var ops []memsim.Op
		for j := 0; j < length || (g.Pending() && j < length+8); j++ {
			o := g.Next()
			r := ex.Run(o)
			g.Update(o, r, ex)
			ops = append(ops, o)
		}
		runHistory(out, history{Immutable: imm, Ops: ops}, "random")
	}
	if err := out.Flush(); err != nil {
		panic(err)
	}
}
