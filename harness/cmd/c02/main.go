// Harness for C02: random and enumerated operation histories against *ocimem.Registry.
package main

import (
	"encoding/json"
	"fmt"
	"os"

	"cuelabs.dev/go/oci/ociregistry/ocimem"
	"verif/harness/hx"
	"verif/harness/memsim"
)

type history struct {
	Immutable bool        `json:"immutable"`
	Ops       []memsim.Op `json:"ops"`
}

func runHistory(out *hx.Out, h history, origin string) []memsim.Result {
	reg := ocimem.NewWithConfig(&ocimem.Config{ImmutableTags: h.Immutable})
	ex := memsim.NewExec(reg, true)
	or := memsim.NewOracles()
	written := map[int][]byte{}
	var results []memsim.Result
	var opsCoq, resCoq []string
	interesting := false
	sawChange := false
	for _, o := range h.Ops {
		or.Observe(o)
		if o.Kind == "WCommit" {
			or.Content(written[o.W])
		}
		r := ex.Run(o)
		if o.Kind == "WWrite" && r.Kind == "n" {
			written[o.W] = append(append([]byte{}, written[o.W]...), o.Content[:r.N]...)
		}
		if r.Kind == "read" {
			or.Content(r.Data)
		}
		results = append(results, r)
		opsCoq = append(opsCoq, o.Coq())
		resCoq = append(resCoq, r.Coq())
		switch o.Kind {
		case "DeleteBlob", "DeleteManifest", "DeleteTag", "MountBlob":
			if r.Kind != "err" {
				sawChange = true
			}
		case "PushBlob", "PushManifest", "WCommit":
			if r.Kind == "err" {
				sawChange = true
			}
			if o.Kind == "PushManifest" && o.Tag != "" {
				sawChange = true
			}
		case "GetBlob", "GetManifest", "GetTag", "ResolveBlob", "ResolveManifest", "ResolveTag", "Tags", "Referrers", "Repositories", "GetBlobRange":
			if sawChange {
				interesting = true
			}
		}
		out.Count("op:" + o.Kind)
		out.Count("result:" + r.Kind)
		if r.Kind == "err" {
			out.Count("errcode:" + r.Code)
		}
	}
	coq := fmt.Sprintf("{| c_imm := %s; c_orc := %s; c_ops := %s; c_obs := %s |}",
		hx.Bool(h.Immutable), or.Coq(), hx.List(opsCoq), hx.List(resCoq))
	type step struct {
		Op  memsim.Op     `json:"op"`
		Res memsim.Result `json:"res"`
	}
	steps := make([]step, len(h.Ops))
	for i := range h.Ops {
		steps[i] = step{h.Ops[i], results[i]}
	}
	if out.Add(hx.Case{Coq: coq, Desc: map[string]any{"input": h, "trace": steps, "origin": origin},
		Tags: map[string]any{"class": origin, "immutable": h.Immutable}}) {
		out.Count(fmt.Sprintf("len:%d", (len(h.Ops)+9)/10*10))
		if interesting {
			out.Count("interesting")
		}
		out.Count("origin:" + origin)
	}
	return results
}

func main() {
	cfg := hx.ParseFlags()
	out := hx.NewOut(cfg, "Obs.C02")
	out.ShardMax = 40
	if cfg.Replay != "" {
		b, err := os.ReadFile(cfg.Replay)
		if err != nil {
			panic(err)
		}
		var r struct {
			Input history `json:"input"`
		}
		if err := json.Unmarshal(b, &r); err != nil {
			panic(err)
		}
		runHistory(out, r.Input, "replay")
		if err := out.Flush(); err != nil {
			panic(err)
		}
		return
	}
	for _, raw := range hx.LoadCorpus(cfg.Corpus) {
		var r struct {
			Input history `json:"input"`
		}
		if json.Unmarshal(raw, &r) == nil && len(r.Input.Ops) > 0 {
			runHistory(out, r.Input, "corpus")
		}
	}
	rnd := cfg.Rand()
	n := 600
	if cfg.Thorough() {
		n = 6000
	}
	for i := 0; i < n; i++ {
		imm := rnd.Intn(2) == 0
		large := i%5 == 4
		g := memsim.NewGen(rnd, large)
		// generate interleaved with execution on a scratch registry so that references are mostly valid
		reg := ocimem.NewWithConfig(&ocimem.Config{ImmutableTags: imm})
		ex := memsim.NewExec(reg, true)
		length := 5 + rnd.Intn(36)
		if large {
			length = 40 + rnd.Intn(40)
		}
		var ops []memsim.Op
		for j := 0; j < length || (g.Pending() && j < length+8); j++ {
			o := g.Next()
			r := ex.Run(o)
			g.Update(o, r, ex)
			ops = append(ops, o)
		}
		runHistory(out, history{Immutable: imm, Ops: ops}, "random")
	}
	if err := out.Flush(); err != nil {
		panic(err)
	}
}
