// Page sizes at the edges of the integer ranges.
//
// "Any client page size >= 1": a client that wants everything in one round trip says
// ListPageSize: math.MaxInt; the value travels as a decimal numeral and comes back through
// strconv.Atoi.  Arithmetic on it (n+1 "one beyond the page", 2*n, a capacity, a conversion to a
// narrower or a floating type) is wrong only out there, so the sizes next to every such edge
// are listed through: the ends of int, int32, uint32, the float64 mantissa, and powers of two.
package main

import (
	"fmt"
	"math"
	"math/rand"
	"sort"
)

var hugePages = []int{
	math.MaxInt, math.MaxInt - 1, math.MaxInt/2 + 1, math.MaxInt / 2, 1 << 62, 1<<62 - 1,
	math.MaxInt32, math.MaxInt32 + 1, math.MaxInt32 - 1, math.MaxUint32, math.MaxUint32 + 1, math.MaxUint32 - 1,
	1<<53 + 1, 1 << 53, math.MaxInt16, math.MaxInt16 + 1, math.MaxUint16, math.MaxUint16 + 1, 1 << 24, 1<<24 + 1,
}

// the edges proper (the others are listed through less often)
var hugeFirst = 12

func hugeInputs(r *rand.Rand, thorough bool) []input {
	g := &gen{r: r}
	var out []input
	hop := func(p, mx int, omit bool, inner *stackDesc) *stackDesc {
		return &stackDesc{Kind: "hop", PageSize: p, Max: mx, OmitLink: omit, Inner: inner}
	}
	level3 := func(q string, m int) level {
		lv := level{q: q}
		switch q {
		case "repos":
			lv.names = g.subset(repoPool, m)
		case "tags":
			lv.repo, lv.names = g.pick(repoPool), g.subset(tagPool, m)
		default:
			lv.repo = g.pick(repoPool)
			for i := 1; i <= m; i++ {
				lv.names = append(lv.names, fmt.Sprint(i))
			}
		}
		return lv
	}
	startsOf := func(lv level) []string {
		starts := []string{""}
		if lv.q != "refs" && len(lv.names) > 1 {
			s := append([]string{}, lv.names...)
			sort.Strings(s)
			starts = append(starts, s[g.r.Intn(len(s)-1)])
		}
		return starts
	}
	turn := 0
	// --- one hop with such a page size over ocimem and over scripted backends
	for pi, p := range hugePages {
		sizes := []int{0, 1, 2, 5}
		if pi >= hugeFirst {
			sizes = []int{0, 3}
		}
		for _, m := range sizes {
			for _, omit := range []bool{false, true} {
				for _, q := range []string{"repos", "tags", "refs"} {
					if q == "refs" && (omit || m == 1) {
						continue
					}
					turn++
					lv := level3(q, m)
					// MaxListPageSize: absent; the page size itself; the largest int; below the page size
					// (the request is refused) - also one below
					mx := []int{0, 0, p, math.MaxInt, p - 1, 0, p, 1000}[turn%8]
					var lf *stackDesc
					if turn%5 == 0 && q != "refs" {
						lf = &stackDesc{Kind: "script", Items: append([]string{}, lv.names...)}
						sort.Strings(lf.Items)
						if turn%10 == 0 {
							lf.ErrCode = "DENIED"
						}
					} else {
						lf = g.leafMem(lv)
					}
					st := hop(p, mx, omit, lf)
					for _, s := range startsOf(lv) {
						in := input{Stack: st, Query: queryDesc{Kind: q, Repo: lv.repo}, StartHex: hexOf(s), Ks: ksFor(m, 3, true)}
						out = append(out, withCancels(in, m, 2))
					}
				}
			}
		}
	}
	// --- two hops: such a page size outside, inside, on both sides
	for pi, p := range hugePages[:hugeFirst] {
		for vi, pair := range [][2]int{{p, 2}, {2, p}, {p, hugePages[(pi+1)%hugeFirst]}, {p, 0}, {0, p}} {
			q := []string{"tags", "repos"}[(pi+vi)%2]
			lv := level3(q, 2+(pi+vi)%4)
			st := hop(pair[0], 0, (pi+vi)%3 == 0, hop(pair[1], 0, (pi+vi)%2 == 0, g.leafMem(lv)))
			for _, s := range startsOf(lv) {
				out = append(out, withCancels(input{Stack: st, Query: queryDesc{Kind: q, Repo: lv.repo}, StartHex: hexOf(s), Ks: ksFor(len(lv.names), 3, true)}, len(lv.names), 2))
			}
		}
	}
	// --- under and over the in-process layers
	for pi, p := range hugePages[:hugeFirst] {
		link := []string{"link", "nolink"}[pi%2]
		h := fmt.Sprintf("hop:%d:%s", p, link)
		for vi, layers := range [][]string{{"select", h}, {h, "select"}, {"sub:a", h}, {h, "sub:a"}, {"unify", h}, {h, "unify"}, {"debug", h}, {h, "debug"}} {
			if (pi+vi)%2 == 0 {
				continue
			}
			q := []string{"repos", "tags"}[(pi+vi/2)%2]
			lv := level3(q, 2+(pi+vi)%4)
			st := g.compose(lv, layers)
			out = append(out, withCancels(input{Stack: st, Query: queryDesc{Kind: q, Repo: lv.repo}, StartHex: "", Ks: ksFor(len(lv.names), 3, true)}, len(lv.names), 2))
		}
	}
	// --- random stacks, every other hop with such a page size
	n := 40
	if thorough {
		n = 1500
	}
	for i := 0; i < n; i++ {
		q := []string{"repos", "tags", "tags", "refs"}[g.r.Intn(4)]
		lv := level3(q, g.r.Intn(7))
		st := g.stack(lv, 1+g.r.Intn(4), 1+g.r.Intn(3))
		if st.hops() == 0 {
			st = hop(1, 0, g.r.Intn(2) == 0, st)
		}
		any := false
		var walk func(s *stackDesc)
		walk = func(s *stackDesc) {
			if s == nil {
				return
			}
			if s.Kind == "hop" && (g.r.Intn(2) == 0 || !any) {
				any = true
				s.PageSize = hugePages[g.r.Intn(len(hugePages))]
				if g.r.Intn(2) == 0 {
					s.PageSize = hugePages[g.r.Intn(hugeFirst)]
				}
				switch g.r.Intn(6) {
				case 0:
					s.Max = s.PageSize
				case 1:
					s.Max = math.MaxInt
				case 2:
					s.Max = s.PageSize - 1
				default:
					s.Max = 0
				}
			}
			walk(s.Inner)
			walk(s.A)
			walk(s.B)
		}
		walk(st)
		for _, s := range g.starts(lv.names, 2) {
			if q == "refs" && s != "" {
				continue
			}
			out = append(out, withCancels(input{Stack: st, Query: queryDesc{Kind: q, Repo: lv.repo}, StartHex: hexOf(s), Ks: ksFor(len(lv.names), 3, false)}, len(lv.names), 2))
		}
	}
	return out
}
