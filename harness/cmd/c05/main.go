// Harness for C05: listings through every stack of registries.
//
// A case is one listing configuration: a stack description (ocimem contents or a scripted
// conforming backend at the leaves; ociclient->ociserver hops over httptest loopback
// servers, ocifilter.Select, ocifilter.Sub, ociunify, ocidebug as wrappers), a query
// (Repositories / Tags / Referrers), a start point, and a list of consumers "decline at the
// k-th call".  The observation is the log of yield calls (item or error code, and the
// consumer's answer), recorded by the consumer itself, so a call made after a declined item
// or after an error is in the log.
package main

import (
	"bytes"
	"context"
	"crypto/sha256"
	"encoding/hex"
	"encoding/json"
	"errors"
	"fmt"
	"math/rand"
	"net/http"
	"net/http/httptest"
	"os"
	"sort"
	"strconv"
	"strings"
	"sync"
	"sync/atomic"
	"time"

	"cuelabs.dev/go/oci/ociregistry"
	"cuelabs.dev/go/oci/ociregistry/ociclient"
	"cuelabs.dev/go/oci/ociregistry/ocidebug"
	"cuelabs.dev/go/oci/ociregistry/ocifilter"
	"cuelabs.dev/go/oci/ociregistry/ocimem"
	"cuelabs.dev/go/oci/ociregistry/ociserver"
	"cuelabs.dev/go/oci/ociregistry/ociunify"
	"verif/harness/hx"
)

// ---------------------------------------------------------------- descriptions

// famDesc names a generated family of names: Pre followed by the decimal numeral of i padded
// to Width digits, for i = Lo .. Lo+Count-1 (fmt.Sprintf("%s%0*d", Pre, Width, i); in the case
// file: fam Pre Width Lo Count, coq/Obs/C05.v).  Listings of more than ten thousand names - the
// only ones on which the server's built-in page cap and page sizes above it show - are
// described this way instead of being spelled out.
type famDesc struct {
	Pre   string `json:"pre"`
	Width int    `json:"width"`
	Lo    int    `json:"lo"`
	Count int    `json:"count"`
}

func (f *famDesc) name(i int) string { return fmt.Sprintf("%s%0*d", f.Pre, f.Width, i) }

func (f *famDesc) names() []string {
	if f == nil {
		return nil
	}
	out := make([]string, f.Count)
	for i := range out {
		out[i] = f.name(f.Lo + i)
	}
	return out
}

func (f *famDesc) coq() string {
	return fmt.Sprintf("(fam %s %d %d %d)", hx.B(f.Pre), f.Width, f.Lo, f.Count)
}

type repoDesc struct {
	Name   string   `json:"name"`
	Tags   []string `json:"tags,omitempty"`
	TagFam *famDesc `json:"tag_fam,omitempty"` // further tags
	Refs   []int    `json:"refs,omitempty"`    // ids of manifests whose subject is theSubject
	Other  []int    `json:"other,omitempty"`   // ids of manifests with another subject
}

type stackDesc struct {
	Kind     string     `json:"kind"` // mem script funcs hop select sub unify debug
	Repos    []repoDesc `json:"repos,omitempty"`
	RepoFam  *famDesc   `json:"repo_fam,omitempty"` // mem: further repositories, without tags
	Items    []string   `json:"items,omitempty"`
	ItemFam  *famDesc   `json:"item_fam,omitempty"` // script: the items (Items is empty then)
	ErrCode  string     `json:"err_code,omitempty"`
	PageSize int        `json:"page_size,omitempty"`
	Max      int        `json:"max,omitempty"`
	OmitLink bool       `json:"omit_link,omitempty"`
	Allowed  []string   `json:"allowed,omitempty"`
	Prefix   string     `json:"prefix,omitempty"`
	Inner    *stackDesc `json:"inner,omitempty"`
	A        *stackDesc `json:"a,omitempty"`
	B        *stackDesc `json:"b,omitempty"`
}

type queryDesc struct {
	Kind string `json:"kind"` // repos tags refs
	Repo string `json:"repo,omitempty"`
}

type input struct {
	Stack    *stackDesc `json:"stack"`
	Query    queryDesc  `json:"query"`
	StartHex string     `json:"start_hex"`
	Start    string     `json:"start_readable"`
	Ks       []int      `json:"ks"`
	// Cancels: further runs against a consumer that accepts everything while the context given to
	// the listing call becomes done during its j-th call: cancelled (context.WithCancel) or, with
	// Expire, past its deadline (Err() = context.DeadlineExceeded)
	Cancels []int `json:"cancels,omitempty"`
	Expire  bool  `json:"expire,omitempty"`
	// Then: the contents of the leaves are changed (hist.go) and the SAME registry value is asked
	// again, once per phase; every listing is a case of its own, judged against the contents at
	// the time of that listing
	Then []phaseDesc `json:"then,omitempty"`
}

func (s *stackDesc) shape() string {
	switch s.Kind {
	case "mem", "script", "funcs":
		if s.ErrCode != "" {
			return "script!"
		}
		return s.Kind
	case "unify":
		return "unify(" + s.A.shape() + "," + s.B.shape() + ")"
	default:
		return s.Kind + "(" + s.Inner.shape() + ")"
	}
}

func (s *stackDesc) kinds(set map[string]bool) {
	k := s.Kind
	if k == "script" && s.ErrCode != "" {
		k = "script-with-error"
	}
	if k == "hop" && s.Max > 0 {
		set["hop-with-max"] = true
	}
	if k == "hop" && s.OmitLink {
		set["hop-no-link"] = true
	}
	set[k] = true
	for _, c := range []*stackDesc{s.Inner, s.A, s.B} {
		if c != nil {
			c.kinds(set)
		}
	}
}

// volume is the number of names the leaves of the stack hold: no listing makes more calls.
func (s *stackDesc) volume() int {
	if s == nil {
		return 0
	}
	n := len(s.Items) + len(s.Repos)
	if s.RepoFam != nil {
		n += s.RepoFam.Count
	}
	if s.ItemFam != nil {
		n += s.ItemFam.Count
	}
	for _, rd := range s.Repos {
		n += len(rd.Tags) + len(rd.Refs)
		if rd.TagFam != nil {
			n += rd.TagFam.Count
		}
	}
	return n + s.Inner.volume() + s.A.volume() + s.B.volume()
}

// manyPages: from this number of page requests for one complete listing on, a case is run
// with one listing call only (listPhase)
const manyPages = 16000

// pageRequests: the largest number of requests a client of the stack makes for one complete
// listing of what lies under it
func (s *stackDesc) pageRequests() int {
	if s == nil {
		return 0
	}
	n := max(s.Inner.pageRequests(), s.A.pageRequests(), s.B.pageRequests())
	if s.Kind == "hop" {
		p := s.PageSize
		if p <= 0 {
			p = 1000
		}
		n = max(n, s.Inner.volume()/p)
	}
	return n
}

func (s *stackDesc) hops() int {
	switch s.Kind {
	case "mem", "script", "funcs":
		return 0
	case "unify":
		return max(s.A.hops(), s.B.hops())
	case "hop":
		return 1 + s.Inner.hops()
	default:
		return s.Inner.hops()
	}
}

// ---------------------------------------------------------------- manifests

const indexMediaType = "application/vnd.oci.image.index.v1+json"

var theSubject = digestOf([]byte("the subject"))
var otherSubject = digestOf([]byte("another subject"))

func digestOf(b []byte) string {
	h := sha256.Sum256(b)
	return "sha256:" + hex.EncodeToString(h[:])
}

func manifestFor(subject string, id int) []byte {
	m := map[string]any{
		"schemaVersion": 2,
		"mediaType":     indexMediaType,
		"manifests":     []any{},
		"annotations":   map[string]string{"id": fmt.Sprint(id)},
	}
	if subject != "" {
		m["subject"] = map[string]any{"mediaType": indexMediaType, "digest": subject, "size": 11}
	}
	b, err := json.Marshal(m)
	if err != nil {
		panic(err)
	}
	return b
}

// the manifests of one repository description: digest, subject
func repoManifests(rd repoDesc) (out [][2]string, contents [][]byte) {
	add := func(subject string, id int) {
		c := manifestFor(subject, id)
		out = append(out, [2]string{digestOf(c), subject})
		contents = append(contents, c)
	}
	add("", 0) // the manifest every tag points at; also makes the repository exist
	for _, id := range rd.Refs {
		add(theSubject, id)
	}
	for _, id := range rd.Other {
		add(otherSubject, id)
	}
	return
}

// ---------------------------------------------------------------- building the real stack

type built struct {
	servers []*httptest.Server
	tr      *http.Transport
	// track: the contents of the leaves are going to be changed (input.Then): every leaf is built
	// for this stack alone and remembered, in the order they are built (depth first, a before b)
	track  bool
	leaves []*leaf
}

func (b *built) close() {
	for _, s := range b.servers {
		s.Close()
	}
	b.tr.CloseIdleConnections()
}

func scripted(items []string, code string) ociregistry.Interface {
	if len(items) >= 900 && sort.StringsAreSorted(items) {
		// a long ascending script: the names after the start point are found by bisection
		// instead of by passing over the whole script (a listing paged one name at a time
		// asks for them once per name)
		return scriptedFrom(func(start string, all bool) []string {
			if all {
				return items
			}
			return items[sort.Search(len(items), func(i int) bool { return start < items[i] }):]
		}, func() []string { return items }, code)
	}
	return scriptedVar(func() []string { return items }, code)
}

// scriptedVar: the items are asked for at every listing call (they can be changed between two
// listings, hist.go)
func scriptedVar(get func() []string, code string) ociregistry.Interface {
	return scriptedFrom(func(start string, all bool) []string {
		var out []string
		for _, it := range get() {
			if all || start < it {
				out = append(out, it)
			}
		}
		return out
	}, get, code)
}

// scriptedFrom: from(start, all) = the items of the script after the start point, in the
// script's order (all: every item)
func scriptedFrom(from func(start string, all bool) []string, get func() []string, code string) ociregistry.Interface {
	var failure error
	if code != "" {
		failure = ociregistry.NewError("scripted failure", code, nil)
	}
	strs := func(start string, all bool) ociregistry.Seq[string] {
		items := from(start, all)
		return func(yield func(string, error) bool) {
			for _, it := range items {
				if !yield(it, nil) {
					return
				}
			}
			if failure != nil {
				yield("", failure)
			}
		}
	}
	return &ociregistry.Funcs{
		Repositories_: func(ctx context.Context, startAfter string) ociregistry.Seq[string] {
			return strs(startAfter, false)
		},
		Tags_: func(ctx context.Context, repo, startAfter string) ociregistry.Seq[string] {
			return strs(startAfter, false)
		},
		Referrers_: func(ctx context.Context, repo string, digest ociregistry.Digest, artifactType string) ociregistry.Seq[ociregistry.Descriptor] {
			items := get()
			return func(yield func(ociregistry.Descriptor, error) bool) {
				for _, it := range items {
					if !yield(ociregistry.Descriptor{MediaType: indexMediaType, Digest: ociregistry.Digest(it), Size: 1}, nil) {
						return
					}
				}
				if failure != nil {
					yield(ociregistry.Descriptor{}, failure)
				}
			}
		},
	}
}

func buildMem(s *stackDesc) ociregistry.Interface {
	ctx := context.Background()
	r := ocimem.New()
	for _, rd := range s.Repos {
		_, contents := repoManifests(rd)
		for i, c := range contents {
			if _, err := r.PushManifest(ctx, rd.Name, "", c, indexMediaType); err != nil {
				panic(fmt.Errorf("populate %q manifest %d: %v", rd.Name, i, err))
			}
		}
		for _, t := range append(append([]string{}, rd.Tags...), rd.TagFam.names()...) {
			if _, err := r.PushManifest(ctx, rd.Name, t, contents[0], indexMediaType); err != nil {
				panic(fmt.Errorf("populate %q tag %q: %v", rd.Name, t, err))
			}
		}
	}
	for _, name := range s.RepoFam.names() {
		_, contents := repoManifests(repoDesc{Name: name})
		if _, err := r.PushManifest(ctx, name, "", contents[0], indexMediaType); err != nil {
			panic(fmt.Errorf("populate %q: %v", name, err))
		}
	}
	return r
}

var memCache = struct {
	sync.Mutex
	m map[string]*memEntry
}{m: map[string]*memEntry{}}

type memEntry struct {
	once sync.Once
	r    ociregistry.Interface
}

func sharedMem(s *stackDesc) ociregistry.Interface {
	key, err := json.Marshal(s)
	if err != nil {
		panic(err)
	}
	memCache.Lock()
	e := memCache.m[string(key)]
	if e == nil {
		if len(memCache.m) >= 16 {
			// (a registry of twenty thousand repositories takes tens of megabytes; the ones in use
			// stay alive through their users)
			memCache.m = map[string]*memEntry{}
		}
		e = &memEntry{}
		memCache.m[string(key)] = e
	}
	memCache.Unlock()
	e.once.Do(func() { e.r = buildMem(s) })
	if e.r == nil {
		panic("the registry could not be filled")
	}
	return e.r
}

func build(s *stackDesc, b *built) ociregistry.Interface {
	switch s.Kind {
	case "mem":
		if b.track {
			r := buildMem(s)
			b.leaves = append(b.leaves, &leaf{desc: s, mem: r.(*ocimem.Registry)})
			return r
		}
		if s.volume() >= 900 {
			// filling a registry with ten thousand names is most of the cost of a long case, and
			// listings do not change it: one registry per distinct description
			return sharedMem(s)
		}
		return buildMem(s)
	case "script":
		if s.ItemFam != nil {
			return scripted(s.ItemFam.names(), s.ErrCode)
		}
		if b.track {
			l := &leaf{desc: s, items: append([]string{}, s.Items...)}
			b.leaves = append(b.leaves, l)
			return scriptedVar(func() []string { return l.items }, s.ErrCode)
		}
		return scripted(s.Items, s.ErrCode)
	case "funcs":
		if b.track {
			b.leaves = append(b.leaves, &leaf{desc: s})
		}
		return &ociregistry.Funcs{}
	case "hop":
		inner := build(s.Inner, b)
		srv := httptest.NewServer(ociserver.New(inner, &ociserver.Options{
			MaxListPageSize:             s.Max,
			OmitLinkHeaderFromResponses: s.OmitLink,
		}))
		b.servers = append(b.servers, srv)
		c, err := ociclient.New(strings.TrimPrefix(srv.URL, "http://"), &ociclient.Options{
			Insecure:     true,
			ListPageSize: s.PageSize,
			Transport:    b.tr,
		})
		if err != nil {
			panic(err)
		}
		return c
	case "select":
		inner := build(s.Inner, b)
		allowed := map[string]bool{}
		for _, a := range s.Allowed {
			allowed[a] = true
		}
		return ocifilter.Select(inner, func(name string) bool { return allowed[name] })
	case "sub":
		return ocifilter.Sub(build(s.Inner, b), s.Prefix)
	case "unify":
		return ociunify.New(build(s.A, b), build(s.B, b), nil)
	case "debug":
		return ocidebug.New(build(s.Inner, b), func(string, ...any) {})
	}
	panic("unknown stack kind " + s.Kind)
}

// ---------------------------------------------------------------- observation

type entry struct {
	Item   string `json:"item,omitempty"`
	Err    string `json:"err,omitempty"` // Coq term for the code
	Bad    string `json:"bad,omitempty"`
	Answer bool   `json:"answer"`
}

var knownCodes = map[string]bool{"BLOB_UNKNOWN": true, "BLOB_UPLOAD_INVALID": true, "BLOB_UPLOAD_UNKNOWN": true,
	"DIGEST_INVALID": true, "MANIFEST_BLOB_UNKNOWN": true, "MANIFEST_INVALID": true, "MANIFEST_UNKNOWN": true,
	"NAME_INVALID": true, "NAME_UNKNOWN": true, "SIZE_INVALID": true, "UNAUTHORIZED": true, "DENIED": true,
	"UNSUPPORTED": true, "TOOMANYREQUESTS": true, "RANGE_INVALID": true}

func codeTerm(code string) string {
	if knownCodes[code] {
		return code
	}
	return "(ECustom " + hx.B(code) + ")"
}

func errTerm(err error) string {
	var oe ociregistry.Error
	if errors.As(err, &oe) {
		return codeTerm(oe.Code())
	}
	return "ENone"
}

// No listing makes more calls than the leaves of its stack hold names (plus an error): an
// iterator that makes more than maxCalls calls (slack + that volume; set per case by runCase),
// or that neither returns nor makes a call within watchdog, is a runaway (for instance a pager that asks for the
// same page for ever).  It is recorded as a junk entry, the consumer declines from then on, and
// the case is judged like any other.
const callSlack = 120

const watchdog = 25 * time.Second

// number of iterators abandoned by the watchdog so far; after maxStuck no further case is run
// (atomic: the long cases are run by several goroutines)
var stuck atomic.Int32

const maxStuck = 3

// drain runs the iterator against the consumer that declines at its k-th call (k = 0: never).
// mk makes the listing call itself (ociunify drains its members inside that call already).
func drain[T any](mk func() ociregistry.Seq[T], k int, maxCalls int, show func(T) string, isZero func(T) bool) []entry {
	return drainAt(mk, k, maxCalls, show, isZero, nil)
}

// drainAt: like drain; during is called inside every yield call (with the number of the call)
// before the consumer answers.
func drainAt[T any](mk func() ociregistry.Seq[T], k int, maxCalls int, show func(T) string, isZero func(T) bool, during func(n int)) []entry {
	var mu sync.Mutex
	var log []entry
	abandoned := false
	done := make(chan struct{})
	go func() {
		defer close(done)
		n := 0
		panicked, pv := hx.Recover(func() {
			mk()(func(x T, err error) bool {
				mu.Lock()
				defer mu.Unlock()
				if abandoned {
					return false
				}
				n++
				if n > maxCalls {
					if n == maxCalls+1 {
						log = append(log, entry{Bad: fmt.Sprintf("runaway: more than %d calls", maxCalls)})
					}
					return false
				}
				ans := n != k
				if during != nil {
					during(n)
				}
				switch {
				case err != nil && !isZero(x):
					log = append(log, entry{Bad: "item together with an error: " + show(x), Answer: ans})
				case err != nil:
					log = append(log, entry{Err: errTerm(err), Answer: ans})
				default:
					log = append(log, entry{Item: show(x), Answer: ans})
				}
				return ans
			})
		})
		if panicked {
			mu.Lock()
			log = append(log, entry{Bad: "panic: " + pv})
			mu.Unlock()
		}
	}()
	// the watchdog measures the time without a yield call (a listing of tens of thousands of
	// pages takes longer than watchdog as a whole, and makes calls all the time)
	// (and a hop whose page holds a whole long listing makes no call while its server
	// drains what is under it: half a millisecond more for every name)
	patience := watchdog + time.Duration(maxCalls)*time.Millisecond/2
	seen := 0
wait:
	for {
		select {
		case <-done:
			break wait
		case <-time.After(patience):
			mu.Lock()
			if len(log) != seen {
				seen = len(log)
				mu.Unlock()
				continue
			}
			abandoned = true
			stuck.Add(1)
			log = append(log, entry{Bad: "the iterator did not return (nor make a call) within " + patience.String()})
			mu.Unlock()
			break wait
		}
	}
	mu.Lock()
	defer mu.Unlock()
	return append([]entry{}, log...)
}

func runQuery(r ociregistry.Interface, q queryDesc, start string, k int, maxCalls int) []entry {
	return runQueryMany(r, q, start, []int{k}, maxCalls)[0]
}

// once makes the listing call at most once: the Seq value it returned is handed out again, so
// that successive consumers iterate the SAME sequence value (an iteration must not depend on
// what an earlier iteration of that value did).
func once[T any](mk func() ociregistry.Seq[T]) func() ociregistry.Seq[T] {
	var seq ociregistry.Seq[T]
	made := false
	return func() ociregistry.Seq[T] {
		if !made {
			seq = mk()
			made = true
		}
		return seq
	}
}

// runQueryMany makes the listing call once and iterates the sequence it returned with each
// consumer of ks in turn.
func runQueryMany(r ociregistry.Interface, q queryDesc, start string, ks []int, maxCalls int) [][]entry {
	ctx := context.Background()
	var logs [][]entry
	switch q.Kind {
	case "repos":
		mk := once(func() ociregistry.Seq[string] { return r.Repositories(ctx, start) })
		for _, k := range ks {
			logs = append(logs, drain(mk, k, maxCalls, func(s string) string { return s }, func(s string) bool { return s == "" }))
		}
	case "tags":
		mk := once(func() ociregistry.Seq[string] { return r.Tags(ctx, q.Repo, start) })
		for _, k := range ks {
			logs = append(logs, drain(mk, k, maxCalls, func(s string) string { return s }, func(s string) bool { return s == "" }))
		}
	case "refs":
		mk := once(func() ociregistry.Seq[ociregistry.Descriptor] {
			return r.Referrers(ctx, q.Repo, ociregistry.Digest(theSubject), "")
		})
		for _, k := range ks {
			logs = append(logs, drain(mk, k, maxCalls,
				func(d ociregistry.Descriptor) string { return string(d.Digest) },
				func(d ociregistry.Descriptor) bool {
					return d.Digest == "" && d.Size == 0 && d.MediaType == "" && d.ArtifactType == "" && len(d.Annotations) == 0
				}))
		}
	default:
		panic("unknown query kind " + q.Kind)
	}
	return logs
}

// A context whose deadline "passes" when expire is called: Done is closed and Err reports
// context.DeadlineExceeded from then on (a real deadline cannot be made to pass at a chosen
// yield call).
type deadlineCtx struct {
	context.Context
	done chan struct{}
	once sync.Once
	gone atomic.Bool
	at   time.Time
}

func newDeadlineCtx() *deadlineCtx {
	return &deadlineCtx{Context: context.Background(), done: make(chan struct{}), at: time.Now().Add(time.Hour)}
}
func (c *deadlineCtx) Deadline() (time.Time, bool) { return c.at, true }
func (c *deadlineCtx) Done() <-chan struct{}       { return c.done }
func (c *deadlineCtx) Err() error {
	if c.gone.Load() {
		return context.DeadlineExceeded
	}
	return nil
}
func (c *deadlineCtx) expire() {
	c.once.Do(func() { c.gone.Store(true); close(c.done) })
}

// runQueryCancel makes the listing call with a fresh context and iterates the sequence with a
// consumer that accepts everything; during its j-th call the context is cancelled (or, with
// expire, its deadline passes).
func runQueryCancel(r ociregistry.Interface, q queryDesc, start string, j int, expire bool, maxCalls int) []entry {
	var ctx context.Context
	var stop func()
	if expire {
		d := newDeadlineCtx()
		ctx, stop = d, d.expire
	} else {
		c, cancel := context.WithCancel(context.Background())
		ctx, stop = c, cancel
	}
	defer stop()
	during := func(n int) {
		if n == j {
			stop()
		}
	}
	str := func(s string) string { return s }
	strZero := func(s string) bool { return s == "" }
	switch q.Kind {
	case "repos":
		return drainAt(func() ociregistry.Seq[string] { return r.Repositories(ctx, start) }, 0, maxCalls, str, strZero, during)
	case "tags":
		return drainAt(func() ociregistry.Seq[string] { return r.Tags(ctx, q.Repo, start) }, 0, maxCalls, str, strZero, during)
	case "refs":
		return drainAt(func() ociregistry.Seq[ociregistry.Descriptor] {
			return r.Referrers(ctx, q.Repo, ociregistry.Digest(theSubject), "")
		}, 0, maxCalls,
			func(d ociregistry.Descriptor) string { return string(d.Digest) },
			func(d ociregistry.Descriptor) bool {
				return d.Digest == "" && d.Size == 0 && d.MediaType == "" && d.ArtifactType == "" && len(d.Annotations) == 0
			}, during)
	}
	panic("unknown query kind " + q.Kind)
}

// ---------------------------------------------------------------- Coq terms

func coqErr(code string) string {
	if code == "" {
		return "None"
	}
	return "(Some (E " + codeTerm(code) + " []))"
}

func coqStack(s *stackDesc) string {
	switch s.Kind {
	case "mem":
		var repos []string
		for _, rd := range s.Repos {
			ms, _ := repoManifests(rd)
			var mt []string
			for _, m := range ms {
				mt = append(mt, "("+hx.B(m[0])+", "+hx.B(m[1])+")")
			}
			tags := hx.Bs(rd.Tags)
			if rd.TagFam != nil {
				tags = "(" + tags + " ++ " + rd.TagFam.coq() + ")"
			}
			repos = append(repos, fmt.Sprintf("(%s, {| mr_tags := %s; mr_manifests := %s |})", hx.B(rd.Name), tags, hx.List(mt)))
		}
		if s.RepoFam != nil {
			ms, _ := repoManifests(repoDesc{})
			return fmt.Sprintf("(KMem (%s ++ repos_of %s {| mr_tags := []; mr_manifests := [(%s, %s)] |}))",
				hx.List(repos), s.RepoFam.coq(), hx.B(ms[0][0]), hx.B(ms[0][1]))
		}
		return "(KMem " + hx.List(repos) + ")"
	case "script":
		if s.ItemFam != nil {
			return fmt.Sprintf("(KScript %s %s)", s.ItemFam.coq(), coqErr(s.ErrCode))
		}
		return fmt.Sprintf("(KScript %s %s)", hx.Bs(s.Items), coqErr(s.ErrCode))
	case "funcs":
		return "KFuncs"
	case "hop":
		return fmt.Sprintf("(KHop %s {| so_max := %s; so_omit_link := %s |} %s)", hx.Z(int64(s.PageSize)), hx.Z(int64(s.Max)), hx.Bool(s.OmitLink), coqStack(s.Inner))
	case "select":
		return fmt.Sprintf("(KSelect %s %s)", hx.Bs(s.Allowed), coqStack(s.Inner))
	case "sub":
		return fmt.Sprintf("(KSub %s %s)", hx.B(s.Prefix), coqStack(s.Inner))
	case "unify":
		return fmt.Sprintf("(KUnify %s %s)", coqStack(s.A), coqStack(s.B))
	case "debug":
		return fmt.Sprintf("(KDebug %s)", coqStack(s.Inner))
	}
	panic("unknown stack kind")
}

func coqQuery(q queryDesc) string {
	switch q.Kind {
	case "repos":
		return "QRepos"
	case "tags":
		return "(QTags " + hx.B(q.Repo) + ")"
	default:
		return "(QRefs " + hx.B(q.Repo) + " " + hx.B(theSubject) + ")"
	}
}

func coqEntries(log []entry) string {
	out := make([]string, len(log))
	for i, e := range log {
		switch {
		case e.Bad != "":
			out[i] = "EBad " + hx.B(e.Bad)
		case e.Err != "":
			out[i] = "EErr " + e.Err + " " + hx.Bool(e.Answer)
		default:
			out[i] = "EItem " + hx.B(e.Item) + " " + hx.Bool(e.Answer)
		}
	}
	return hx.List(out)
}

// A log is written as segments: entries spelled out, and runs "the members lo .. lo+count-1 of
// a family, each accepted" (took_fam).  The encoding is lossless and found from the log alone:
// a run is a maximal stretch of at least minRun accepted items whose names are one fixed text
// followed by consecutive numerals of one width.
type segment struct {
	Run     *famDesc `json:"run,omitempty"`
	Entries []entry  `json:"entries,omitempty"`
}

const minRun = 16

// splitNum cuts a name into a text and its trailing numeral (at most 9 digits)
func splitNum(s string) (pre string, w int, v int, ok bool) {
	i := len(s)
	for i > 0 && len(s)-i < 9 && s[i-1] >= '0' && s[i-1] <= '9' {
		i--
	}
	if i == len(s) {
		return "", 0, 0, false
	}
	v, err := strconv.Atoi(s[i:])
	if err != nil {
		return "", 0, 0, false
	}
	return s[:i], len(s) - i, v, true
}

func segments(log []entry) []segment {
	var segs []segment
	lit := func(es []entry) {
		if len(es) == 0 {
			return
		}
		if n := len(segs); n > 0 && segs[n-1].Run == nil {
			segs[n-1].Entries = append(segs[n-1].Entries, es...)
			return
		}
		segs = append(segs, segment{Entries: append([]entry{}, es...)})
	}
	for i := 0; i < len(log); {
		e := log[i]
		pre, w, v, ok := splitNum(e.Item)
		if !(ok && e.Answer && e.Err == "" && e.Bad == "") {
			lit(log[i : i+1])
			i++
			continue
		}
		f := &famDesc{Pre: pre, Width: w, Lo: v, Count: 1}
		j := i + 1
		for ; j < len(log); j++ {
			x := log[j]
			if !(x.Answer && x.Err == "" && x.Bad == "" && len(x.Item) == len(pre)+w && strings.HasPrefix(x.Item, pre)) {
				break
			}
			if n, err := strconv.Atoi(x.Item[len(pre):]); err != nil || n != f.Lo+f.Count || x.Item[len(pre)] == '-' || x.Item[len(pre)] == '+' {
				break
			}
			f.Count++
		}
		if f.Count >= minRun {
			segs = append(segs, segment{Run: f})
		} else {
			lit(log[i:j])
		}
		i = j
	}
	// the encoding must give the log back
	var back []entry
	for _, sg := range segs {
		if sg.Run != nil {
			for _, n := range sg.Run.names() {
				back = append(back, entry{Item: n, Answer: true})
			}
		} else {
			back = append(back, sg.Entries...)
		}
	}
	if len(back) != len(log) {
		panic("segments: length differs")
	}
	for i := range log {
		if back[i] != log[i] {
			panic(fmt.Sprintf("segments: entry %d differs: %+v / %+v", i, back[i], log[i]))
		}
	}
	return segs
}

func coqLog(segs []segment) string {
	if len(segs) == 0 {
		return "[]"
	}
	parts := make([]string, len(segs))
	for i, sg := range segs {
		if sg.Run != nil {
			parts[i] = fmt.Sprintf("took_fam %s %d %d %d", hx.B(sg.Run.Pre), sg.Run.Width, sg.Run.Lo, sg.Run.Count)
		} else {
			parts[i] = coqEntries(sg.Entries)
		}
	}
	if len(parts) == 1 && segs[0].Run == nil {
		return parts[0]
	}
	return "(" + strings.Join(parts, " ++ ") + ")"
}

// ---------------------------------------------------------------- running one case

type observed struct {
	K      int       `json:"k"`
	Cancel int       `json:"context_done_during_call,omitempty"` // a run of in.Cancels (K is 0)
	Log    []entry   `json:"log,omitempty"`
	Segs   []segment `json:"log_segments,omitempty"` // instead of Log when the log has runs
	// about the log (not written out)
	calls, nerr, nitems int
	lastBad             bool
	coq                 string
}

func observe(k int, log []entry) observed {
	o := observed{K: k, calls: len(log)}
	for _, e := range log {
		if e.Err != "" {
			o.nerr++
		}
		if e.Item != "" {
			o.nitems++
		}
	}
	o.lastBad = len(log) > 0 && log[len(log)-1].Bad != ""
	segs := segments(log)
	o.coq = coqLog(segs)
	if len(segs) == 1 && segs[0].Run == nil || len(segs) == 0 {
		o.Log = log
	} else {
		o.Segs = segs
	}
	return o
}

func runCase(in input) (coq string, obs []observed, panicMsg string) {
	res := runHistory(in)
	return res[0].coq, res[0].obs, ""
}

// one listing of a history: the case term and what was observed
type phaseResult struct {
	coq string
	obs []observed
}

// runHistory builds the stack and lists (the case proper); then, for every phase of in.Then,
// changes the contents of the leaves and asks the same registry value again.  Every listing is a
// case of its own whose stack term holds the contents at the time of that listing.
func runHistory(in input) []phaseResult {
	startB, err := hex.DecodeString(in.StartHex)
	if err != nil {
		panic(err)
	}
	b := &built{tr: &http.Transport{}, track: len(in.Then) > 0}
	defer b.close()
	cur := in.Stack
	if b.track {
		cur = copyStack(in.Stack) // in.Stack stays what the case file says: the contents at the start
	}
	var reg ociregistry.Interface
	if p, pv := hx.Recover(func() { reg = build(cur, b) }); p {
		panic("cannot build the stack: " + pv)
	}
	res := []phaseResult{listPhase(reg, cur, in.Query, string(startB), in.Ks, in.Cancels, in.Expire)}
	for i, ph := range in.Then {
		for _, op := range ph.Ops {
			if p, pv := hx.Recover(func() { b.apply(op) }); p {
				panic(fmt.Sprintf("phase %d: cannot change the contents (%+v): %s", i+1, op, pv))
			}
		}
		start := string(startB)
		if ph.StartHex != nil {
			start = mustHex(*ph.StartHex)
		}
		res = append(res, listPhase(reg, cur, in.Query, start, ph.Ks, ph.Cancels, in.Expire))
	}
	return res
}

// listPhase lists reg (whose contents st describes) against the consumers ks, iterates sequence
// values again, and lists with contexts that become done.
func listPhase(reg ociregistry.Interface, st *stackDesc, query queryDesc, start string, ks []int, cancels []int, expire bool) (res phaseResult) {
	var obs []observed
	maxCalls := callSlack + st.volume()
	var runs []string
	heavy := st.pageRequests() >= manyPages
	if heavy {
		// a listing of tens of thousands of page requests: one listing call, the sequence value
		// iterated by the declining consumers first and by the accepting ones after them (the
		// runs are judged like any others; iterating again is part of them)
		var order []int
		for _, k := range ks {
			if k > 0 {
				order = append(order, k)
			}
		}
		for _, k := range ks {
			if k <= 0 {
				order = append(order, k)
			}
		}
		for i, log := range runQueryMany(reg, query, start, order, maxCalls) {
			obs = append(obs, observe(order[i], log))
			runs = append(runs, fmt.Sprintf("(%d, %s)", order[i], obs[len(obs)-1].coq))
		}
		ks = nil
	}
	for _, k := range ks {
		log := runQuery(reg, query, start, k, maxCalls)
		obs = append(obs, observe(k, log))
		runs = append(runs, fmt.Sprintf("(%d, %s)", k, obs[len(obs)-1].coq))
		if obs[len(obs)-1].lastBad {
			break // a runaway or a panic: the other consumers would only repeat it
		}
	}
	// the same sequence value iterated again: after a consumer that declined at its k-th call (the
	// smallest and the largest positive k of the case; or after a complete pass) a complete pass
	// must again be the whole listing.  The runs are judged like any other run with that consumer.
	bad := len(obs) > 0 && obs[len(obs)-1].lastBad
	if !bad && !heavy {
		firsts := []int{0}
		lo, hi := 0, 0
		for _, k := range ks {
			if k > 0 && (lo == 0 || k < lo) {
				lo = k
			}
			if k > hi {
				hi = k
			}
		}
		if hi > 0 {
			firsts = append(firsts, hi)
		}
		if lo > 0 && lo != hi {
			firsts = append(firsts, lo)
		}
		if st.volume() >= 900 && len(firsts) > 1 {
			firsts = firsts[1:2] // a long listing: once, after the declining consumer
		}
		for _, k1 := range firsts {
			logs := runQueryMany(reg, query, start, []int{k1, 0}, maxCalls)
			for i, k := range []int{k1, 0} {
				obs = append(obs, observe(k, logs[i]))
				runs = append(runs, fmt.Sprintf("(%d, %s)", k, obs[len(obs)-1].coq))
			}
		}
	}
	// the context becomes done during the j-th call of a consumer that accepts everything
	var cruns []string
	if !bad {
		for _, j := range cancels {
			if j < 1 {
				continue
			}
			o := observe(0, runQueryCancel(reg, query, start, j, expire, maxCalls))
			o.Cancel = j
			obs = append(obs, o)
			cruns = append(cruns, fmt.Sprintf("(%d, %s)", j, o.coq))
			if o.lastBad {
				break
			}
		}
	}
	res.obs = obs
	res.coq = fmt.Sprintf("{| c_stack := %s; c_query := %s; c_start := %s; c_runs := %s; c_cruns := %s |}",
		coqStack(st), coqQuery(query), hx.B(start), hx.List(runs), hx.List(cruns))
	return
}

// ---------------------------------------------------------------- generation

var repoPool = []string{"a", "a/b", "a/b/c", "a-b", "a.b", "a_b", "a0", "ab", "ab/c", "b", "b/a", "c", "p", "p/x", "p/y",
	"p/y/z", "pp", "pp/x", "q", "x", "x/y", "y", "z", "z/z", "0", "00", "1", "10", "2", "p0", "p-x", "a/a", "a/c", "o/x"}
var tagPool = []string{"v1", "v1.0", "v10", "v2", "latest", "A", "_x", "a", "a-b", "a.b", "a_b", "0", "00", "1.2.3", "Z9", "z",
	"B", "b", "c", "V1", "v1-rc", "v1_rc", "x", "y", "9", "10", "_", "__"}
var metaItems = []string{"a&b", "a=b", "a b", "a+b", "a%2Fb", "a?b", "a#b", "été", "a/b", `a"b`, "a<b>", `a\b`, "a&n=1",
	"last=z", "%", "+", " ", "a;b", "a,b", "~", "日本"}
var metaStarts = []string{"a&b", "a=b", "a%41", "a+b", "a b", "a?b", "a#b", "a&n=1", "a&last=zzz", "%", "%zz", "+", " ", "?", "#",
	"é", "a/b&n=1", "\xff\xfe", "a\x00b", "<a>", `"`, ">"}
var prefixes = []string{"a", "p", "a/b", "zz", "x"}
var errCodes = []string{"DENIED", "TEAPOT", "UNAUTHORIZED", "BLOB_UNKNOWN"}

type gen struct {
	r *rand.Rand
}

func (g *gen) pick(pool []string) string { return pool[g.r.Intn(len(pool))] }

func (g *gen) subset(pool []string, m int) []string {
	if m > len(pool) {
		m = len(pool)
	}
	idx := g.r.Perm(len(pool))[:m]
	out := make([]string, m)
	for i, j := range idx {
		out[i] = pool[j]
	}
	return out
}

func without(pool []string, not []string) []string {
	no := map[string]bool{}
	for _, s := range not {
		no[s] = true
	}
	var out []string
	for _, s := range pool {
		if !no[s] {
			out = append(out, s)
		}
	}
	return out
}

// size of the listing relative to the page size p
func (g *gen) sizeAround(p int) int {
	if p > 7 {
		p = 1 + g.r.Intn(7)
	}
	if p < 1 {
		p = 3
	}
	c := []int{0, 1, p - 1, p, p + 1, 2*p - 1, 2 * p, 2*p + 1, 3 * p, 3*p + 1, g.r.Intn(16), g.r.Intn(16)}
	m := c[g.r.Intn(len(c))]
	if m < 0 {
		m = 0
	}
	if m > 16 {
		m = 16
	}
	return m
}

func (g *gen) hopOpts(s *stackDesc) {
	switch x := g.r.Intn(20); {
	case x < 16:
		s.PageSize = 1 + g.r.Intn(7)
	case x < 18:
		s.PageSize = 1000
	case x < 19:
		s.PageSize = 0 // the default
	default:
		s.PageSize = 8 + g.r.Intn(9)
	}
	eff := s.PageSize
	if eff == 0 {
		eff = 1000
	}
	switch x := g.r.Intn(20); {
	case x < 11:
		s.Max = 0
	case x < 14:
		s.Max = eff
	case x < 16:
		s.Max = eff + 1 + g.r.Intn(3)
	case x < 18:
		s.Max = 1000
	default:
		if eff > 1 {
			s.Max = 1 + g.r.Intn(eff-1) // refuses
		}
	}
	s.OmitLink = g.r.Intn(2) == 0
}

// ctx: what the level being generated is expected to list
type level struct {
	q      string   // repos tags refs
	repo   string   // for tags / refs: the repository name at this level
	names  []string // repos: repository names; tags: tags of repo; refs: ids (decimal) of referrer manifests
	meta   bool     // names may be arbitrary strings (only scripted leaves can hold them)
	absent bool     // tags / refs: the leaves below do not know the repository
}

func (g *gen) leaf(lv level) *stackDesc {
	if g.r.Intn(40) == 0 {
		return &stackDesc{Kind: "funcs"}
	}
	scriptP := 12
	if lv.meta {
		scriptP = 100
	}
	if g.r.Intn(100) < scriptP {
		s := &stackDesc{Kind: "script"}
		items := uniq(lv.names)
		if lv.q == "refs" {
			for i, id := range items {
				var n int
				fmt.Sscan(id, &n)
				items[i] = digestOf(manifestFor(theSubject, n))
			}
		}
		sort.Strings(items)
		s.Items = items
		if g.r.Intn(3) == 0 {
			s.ErrCode = g.pick(errCodes)
		}
		return s
	}
	s := &stackDesc{Kind: "mem"}
	switch lv.q {
	case "repos":
		for _, n := range uniq(lv.names) {
			rd := repoDesc{Name: n}
			if g.r.Intn(3) == 0 {
				rd.Tags = g.subset(tagPool, g.r.Intn(3))
			}
			s.Repos = append(s.Repos, rd)
		}
	case "tags":
		if !lv.absent {
			s.Repos = append(s.Repos, repoDesc{Name: lv.repo, Tags: uniq(lv.names), Refs: []int{1}[:g.r.Intn(2)]})
		}
		for _, n := range g.subset(without(repoPool, []string{lv.repo}), g.r.Intn(3)) {
			s.Repos = append(s.Repos, repoDesc{Name: n, Tags: g.subset(tagPool, g.r.Intn(4))})
		}
	case "refs":
		if !lv.absent {
			rd := repoDesc{Name: lv.repo, Tags: g.subset(tagPool, g.r.Intn(3))}
			for _, id := range uniq(lv.names) {
				var n int
				fmt.Sscan(id, &n)
				rd.Refs = append(rd.Refs, n)
			}
			for i := g.r.Intn(3); i > 0; i-- {
				rd.Other = append(rd.Other, 100+i)
			}
			s.Repos = append(s.Repos, rd)
		}
		for _, n := range g.subset(without(repoPool, []string{lv.repo}), g.r.Intn(2)) {
			s.Repos = append(s.Repos, repoDesc{Name: n, Refs: []int{1, 2, 3}[:g.r.Intn(4)]})
		}
	}
	g.r.Shuffle(len(s.Repos), func(i, j int) { s.Repos[i], s.Repos[j] = s.Repos[j], s.Repos[i] })
	return s
}

// absent: with this probability per mille a member lacks the repository (tags/refs)
func (g *gen) stack(lv level, depth int, hopsLeft int) *stackDesc {
	if depth <= 0 {
		return g.leaf(lv)
	}
	x := g.r.Intn(100)
	switch {
	case x < 34 && hopsLeft > 0:
		s := &stackDesc{Kind: "hop"}
		g.hopOpts(s)
		s.Inner = g.stack(lv, depth-1, hopsLeft-1)
		return s
	case x < 48:
		s := &stackDesc{Kind: "select"}
		inner := lv
		switch lv.q {
		case "repos":
			noise := g.subset(without(g.poolFor(lv), lv.names), g.r.Intn(4))
			inner.names = append(append([]string{}, lv.names...), noise...)
			s.Allowed = append(append([]string{}, lv.names...), g.subset(without(g.poolFor(lv), inner.names), g.r.Intn(3))...)
		default:
			s.Allowed = g.subset(repoPool, g.r.Intn(4))
			if g.r.Intn(12) != 0 {
				s.Allowed = append(s.Allowed, lv.repo)
			}
		}
		sort.Strings(s.Allowed)
		s.Inner = g.stack(inner, depth-1, hopsLeft)
		return s
	case x < 62 && !lv.meta:
		s := &stackDesc{Kind: "sub", Prefix: g.pick(prefixes)}
		inner := lv
		switch lv.q {
		case "repos":
			inner.names = nil
			for _, n := range lv.names {
				inner.names = append(inner.names, s.Prefix+"/"+n)
			}
			// names outside the prefix, some of them near misses
			for _, n := range []string{s.Prefix, s.Prefix + "x", s.Prefix + "-x", s.Prefix + "0/x", "o/x", "zzz", s.Prefix + ".a"} {
				if g.r.Intn(3) == 0 {
					inner.names = append(inner.names, n)
				}
			}
		default:
			inner.repo = s.Prefix + "/" + lv.repo
		}
		s.Inner = g.stack(inner, depth-1, hopsLeft)
		return s
	case x < 80:
		s := &stackDesc{Kind: "unify"}
		la, lb := lv, lv
		la.names, lb.names = nil, nil
		for _, n := range lv.names {
			switch g.r.Intn(3) {
			case 0:
				la.names = append(la.names, n)
			case 1:
				lb.names = append(lb.names, n)
			default:
				la.names = append(la.names, n)
				lb.names = append(lb.names, n)
			}
		}
		if lv.q != "repos" && !lv.absent {
			// now and then a member does not know the repository
			switch g.r.Intn(14) {
			case 0:
				la.absent, la.names = true, nil
				lb.names = lv.names
			case 1:
				lb.absent, lb.names = true, nil
				la.names = lv.names
			case 2:
				if g.r.Intn(3) == 0 {
					la.absent, la.names, lb.absent, lb.names = true, nil, true, nil
				}
			}
		}
		s.A = g.stack(la, depth-1, hopsLeft)
		s.B = g.stack(lb, depth-1, hopsLeft)
		return s
	case x < 88:
		return &stackDesc{Kind: "debug", Inner: g.stack(lv, depth-1, hopsLeft)}
	default:
		return g.stack(lv, depth-1, hopsLeft)
	}
}

func (g *gen) poolFor(lv level) []string {
	if lv.meta {
		return metaItems
	}
	return repoPool
}

func hexOf(s string) string { return hex.EncodeToString([]byte(s)) }

// start points for a listing whose (expected) names are given
func (g *gen) starts(names []string, count int) []string {
	sorted := append([]string{}, names...)
	sort.Strings(sorted)
	var out []string
	out = append(out, "")
	for len(out) < count {
		var el string
		if len(sorted) > 0 {
			el = sorted[g.r.Intn(len(sorted))]
		} else {
			el = g.pick(repoPool)
		}
		switch g.r.Intn(12) {
		case 0, 1, 2:
			out = append(out, el) // equal to an element
		case 3:
			if len(sorted) > 0 {
				out = append(out, sorted[0], sorted[len(sorted)-1])
			}
		case 4:
			out = append(out, el+"0") // between
		case 5:
			out = append(out, el[:len(el)-1])
		case 6:
			out = append(out, "~~~~") // beyond the end
		case 7:
			out = append(out, "!") // before everything
		case 8:
			out = append(out, el+g.pick([]string{"&n=1", "%00", "+", " ", "?x", "#", "&last=", "=", "/"}))
		default:
			out = append(out, g.pick(metaStarts))
		}
	}
	return out[:count]
}

// ---------------------------------------------------------------- start points one edit away from a name
//
// A layer that maps the start point into another name space (Sub), re-encodes it (client,
// server) or just hands it on (Select, unify, debug) must hand on exactly the bytes it was
// given.  A "tidied" start point (a trailing or leading slash trimmed, white space trimmed,
// path.Clean / path.Join, a case fold, a cut at a separator) equals the caller's start point
// for every start point that is itself a well-formed name, so only start points that are NOT
// names show the difference - and only when some listed name lies between the start point and
// its tidied form.  Hence: start points that differ from a listed name (or from a
// "directory" of listed names) by one such edit, over name sets that hold the siblings which
// sort next to that name (a, a-b, a.b, a/b, a0, a_b: '-' and '.' sort before '/', '0' and '_'
// after it).

var startSuffixes = []string{"/", "-", ".", "_", "0", " ", "//", "/.", "/..", "/-", "\t", "\n", "~", "!", "/~"}
var startPrefixes = []string{"/", "./", " ", "../", "//"}

// the first two are the commonest (a directory written with its slash; an absolute name)
func editsOf(el string) []string {
	var out []string
	for _, x := range startSuffixes {
		out = append(out, el+x)
	}
	for _, x := range startPrefixes {
		out = append(out, x+el)
	}
	if u := strings.ToUpper(el); u != el {
		out = append(out, u)
	}
	if el != "" {
		out = append(out, el[:len(el)-1])
		b := []byte(el)
		b[len(b)-1]--
		out = append(out, string(b))
		b = []byte(el)
		b[len(b)-1]++
		out = append(out, string(b))
		if i := strings.IndexAny(el, "/-._"); i >= 0 {
			// a separator doubled, and the name cut at / after its first separator
			out = append(out, el[:i+1]+el[i:], el[:i], el[:i+1])
		}
	}
	return out
}

// the names and every "directory" above them (a/b/c: a/b and a), sorted, no duplicates
func withDirs(names []string) []string {
	out := append([]string{}, names...)
	for _, n := range names {
		for i := len(n) - 1; i > 0; i-- {
			if n[i] == '/' {
				out = append(out, n[:i])
			}
		}
	}
	out = uniq(out)
	sort.Strings(out)
	return out
}

// every base with a trailing slash; three with a leading slash; every second of the other edits
// (the even or the odd ones) on one base
func (g *gen) sweepStarts(names []string, parity int) []string {
	bases := withDirs(names)
	if len(bases) == 0 {
		bases = []string{"a"}
	}
	var out []string
	for _, b := range bases {
		out = append(out, b+"/")
	}
	for j := 0; j < 3; j++ {
		out = append(out, "/"+bases[g.r.Intn(len(bases))])
	}
	nEdits := len(editsOf("a/b"))
	for e := parity & 1; e < nEdits; e += 2 {
		ed := editsOf(bases[g.r.Intn(len(bases))])
		if e < len(ed) {
			out = append(out, ed[e])
		}
	}
	return uniq(out)
}

// count start points: none, then edits of names / directories (a third of them the trailing slash)
func (g *gen) editStarts(names []string, count int) []string {
	bases := withDirs(names)
	if len(bases) == 0 {
		bases = []string{g.pick(repoPool)}
	}
	out := []string{""}
	for len(out) < count {
		b := bases[g.r.Intn(len(bases))]
		switch g.r.Intn(6) {
		case 0, 1:
			out = append(out, b+"/")
		case 2:
			out = append(out, b)
		default:
			ed := editsOf(b)
			out = append(out, ed[g.r.Intn(len(ed))])
		}
	}
	return out
}

// name sets made of families: a base and the names that sort right next to it
var repoBases = []string{"a", "b", "p", "x", "a/b", "p/y", "0", "zz", "x/y", "a-b", "p.q"}
var repoTails = []string{"", "", "-b", ".b", "_b", "--b", "/b", "/b/c", "/b-c", "/x", "0", "0/x", "b", "-b/c", ".b/c", "/0", "/z"}
var tagBases = []string{"v1", "A", "z", "1.2", "_", "latest", "V", "0"}
var tagTails = []string{"", "", "-", "-rc", ".", ".0", "_", "_rc", "0", "00", "a", "-.", "..", "A", "Z"}

func (g *gen) family(bases, tails []string, m int) []string {
	var out []string
	for len(uniq(out)) < m {
		b := g.pick(bases)
		for _, t := range g.subset(tails, 2+g.r.Intn(5)) {
			out = append(out, b+t)
		}
	}
	out = uniq(out)
	g.r.Shuffle(len(out), func(i, j int) { out[i], out[j] = out[j], out[i] })
	return out[:m]
}

// compose builds the stack whose layers are given from the outside in, over ocimem leaves:
// debug | hop:<page size>:<link|nolink> | select | sub:<prefix> | unify
func (g *gen) compose(lv level, layers []string) *stackDesc {
	if len(layers) == 0 {
		return g.leafMem(lv)
	}
	f := strings.Split(layers[0], ":")
	rest := layers[1:]
	switch f[0] {
	case "debug":
		return &stackDesc{Kind: "debug", Inner: g.compose(lv, rest)}
	case "hop":
		p, err := strconv.Atoi(f[1])
		if err != nil {
			panic(err)
		}
		return &stackDesc{Kind: "hop", PageSize: p, OmitLink: f[2] == "nolink", Inner: g.compose(lv, rest)}
	case "select":
		s := &stackDesc{Kind: "select"}
		inner := lv
		if lv.q == "repos" {
			// hidden names right next to the listed ones
			var noise []string
			for _, n := range lv.names {
				noise = append(noise, n+"-h", n+"/h", n+"0")
			}
			noise = without(uniq(noise), lv.names)
			noise = g.subset(noise, min(len(noise), 6))
			inner.names = append(append([]string{}, lv.names...), noise...)
			s.Allowed = append(append([]string{}, lv.names...), "never/there")
		} else {
			s.Allowed = []string{lv.repo, "never/there"}
		}
		sort.Strings(s.Allowed)
		s.Inner = g.compose(inner, rest)
		return s
	case "sub":
		s := &stackDesc{Kind: "sub", Prefix: f[1]}
		inner := lv
		if lv.q == "repos" {
			inner.names = nil
			for _, n := range lv.names {
				inner.names = append(inner.names, s.Prefix+"/"+n)
			}
			// every near miss outside the prefix
			inner.names = append(inner.names, s.Prefix, s.Prefix+"x", s.Prefix+"-x", s.Prefix+"0/x", "o/x", "zzz", s.Prefix+".a", "0/"+s.Prefix)
			inner.names = uniq(inner.names)
		} else {
			inner.repo = s.Prefix + "/" + lv.repo
		}
		s.Inner = g.compose(inner, rest)
		return s
	case "unify":
		la, lb := lv, lv
		la.names, lb.names = nil, nil
		for i, n := range lv.names {
			if i%3 != 1 {
				la.names = append(la.names, n)
			}
			if i%3 != 0 {
				lb.names = append(lb.names, n)
			}
		}
		return &stackDesc{Kind: "unify", A: g.compose(la, rest), B: g.compose(lb, rest)}
	}
	panic("unknown layer " + layers[0])
}

func ksFor(n int, p int, all bool) []int {
	if all || n+1 <= 7 {
		ks := []int{0}
		for k := 1; k <= n+2; k++ {
			ks = append(ks, k)
		}
		return ks
	}
	set := map[int]bool{}
	ks := []int{0}
	for _, k := range []int{1, 2, p, p + 1, 2 * p, 2*p + 1, n - 1, n, n + 1} {
		if k >= 1 && k <= n+2 && !set[k] {
			set[k] = true
			ks = append(ks, k)
		}
	}
	sort.Ints(ks)
	return ks
}

// cancelsFor chooses the yield calls during which the context becomes done for a listing of (at
// most) n names behind page size p: from the first call, the last call of the first page, the
// first call of the second page, the last but one and the last name, one or two per case in
// rotation (turn counts the cases).
var cancelTurn int

func withCancels(in input, n int, p int) input {
	seen := map[int]bool{}
	var cands []int
	for _, j := range []int{1, p, p + 1, n - 1, n, 2} {
		if j >= 1 && j <= n && !seen[j] {
			seen[j] = true
			cands = append(cands, j)
		}
	}
	cancelTurn++
	if len(cands) == 0 {
		return in
	}
	in.Cancels = []int{cands[cancelTurn%len(cands)]}
	if cancelTurn%3 == 0 && len(cands) > 1 {
		in.Cancels = append(in.Cancels, cands[(cancelTurn+1)%len(cands)])
		sort.Ints(in.Cancels)
	}
	in.Expire = cancelTurn%2 == 0
	return in
}

// ctxPath: the layers a context given to the listing call passes through until something
// makes requests with it (hop) or stops looking at it after the call (the leaves; unify, which
// has drained its members by then; a hop's Referrers)
func ctxPath(s *stackDesc, q string) string {
	var path []string
	for s != nil {
		switch s.Kind {
		case "select", "sub", "debug":
			path = append(path, s.Kind)
			s = s.Inner
			continue
		case "hop":
			if q == "refs" {
				path = append(path, "hop-referrers")
			} else {
				path = append(path, "hop")
			}
		default:
			path = append(path, s.Kind)
		}
		break
	}
	return strings.Join(path, ">")
}

func topPage(s *stackDesc) int {
	for s != nil {
		if s.Kind == "hop" {
			if s.PageSize == 0 {
				return 1000
			}
			return s.PageSize
		}
		if s.Kind == "unify" {
			s = s.A
		} else {
			s = s.Inner
		}
	}
	return 3
}

// ---------------------------------------------------------------- main

func main() {
	cfg := hx.ParseFlags()
	out := hx.NewOut(cfg, "Obs.C05")
	out.ShardMax = 260            // one wave of at most 16 coqc processes in the quick tier
	var ready map[*stackDesc]*ran // the long cases, run in the background
	record := func(in input, phase int, coq string, obs []observed, ks, cancels []int, startHex string, origin string) {
		desc := map[string]any{"input": in, "observed": obs, "origin": origin}
		if phase > 0 {
			desc["judged"] = fmt.Sprintf("the listing after phase %d of input.then (observed: that listing)", phase)
		}
		shape := in.Stack.shape()
		nerr, nitems, maxlog := 0, 0, 0
		for _, o := range obs {
			nerr += o.nerr
			nitems += o.nitems
			maxlog = max(maxlog, o.calls)
		}
		outcome := "items"
		if nerr > 0 {
			outcome = "error"
		}
		class := in.Query.Kind + "/" + shape
		if phase > 0 {
			class += " listed again after its contents changed"
		}
		if out.Add(hx.Case{Coq: coq, Desc: desc,
			Tags: map[string]any{"class": class, "query": in.Query.Kind, "shape": shape, "outcome": outcome}}) {
			out.Count("origin:" + origin)
			if phase > 0 {
				out.Count(fmt.Sprintf("history:listing-after-phase:%d", min(phase, 4)))
				for _, op := range in.Then[phase-1].Ops {
					out.Count("history:change:" + op.Kind)
				}
				out.Count("history:change-kind:" + in.Then[phase-1].Why)
			}
			out.Count("query:" + in.Query.Kind)
			out.Count(fmt.Sprintf("hops:%d", in.Stack.hops()))
			out.Count("outcome:" + outcome)
			out.Count(fmt.Sprintf("listing_len:%02d", min(maxlog, 20)))
			kinds := map[string]bool{}
			in.Stack.kinds(kinds)
			for w := range kinds {
				out.Count("layer:" + w)
			}
			startKind := "plain"
			st := mustHex(startHex)
			switch {
			case st == "":
				startKind = "absent"
			case strings.HasSuffix(st, "/"):
				startKind = "trailing-slash"
			case strings.HasPrefix(st, "/"):
				startKind = "leading-slash"
			case strings.ContainsAny(st, "&=%+ ?#<>\"\x00\xff") || !isASCII(st):
				startKind = "metachar"
			}
			out.Count("start:" + startKind)
			out.Stats["listings"] += len(ks)
			out.Stats["listings"] += len(cancels)
			if len(cancels) > 0 {
				out.Stats["cancelled_listings"] += len(cancels)
				out.Count("context:" + map[bool]string{false: "cancelled", true: "deadline"}[in.Expire])
				out.Count("context-done-under:" + ctxPath(in.Stack, in.Query.Kind))
			}
			if vol := in.Stack.volume(); vol >= 900 {
				out.Count("long:names>=" + map[bool]string{false: "900", true: "9999"}[vol >= 9999])
				out.Count("long:pages:" + pagesOf(in.Stack))
			}
		}
	}
	addNow := func(in input, origin string) {
		if int(stuck.Load()) >= maxStuck {
			return // iterators keep hanging: what has been recorded is enough to report
		}
		in.Start = fmt.Sprintf("%q", mustHex(in.StartHex))
		var results []phaseResult
		if r, ok := ready[in.Stack]; ok {
			<-r.done
			if r.coq == "" {
				return
			}
			results = []phaseResult{{r.coq, r.obs}}
		} else {
			results = runHistory(in)
		}
		for i, pr := range results {
			// the i-th listing of a history: what it takes to get there, and that listing's consumers
			ini := in
			ini.Then = in.Then[:i:i]
			ks, cancels, startHex := in.Ks, in.Cancels, in.StartHex
			if i > 0 {
				ph := in.Then[i-1]
				ks, cancels = ph.Ks, ph.Cancels
				if ph.StartHex != nil {
					startHex = *ph.StartHex
				}
			}
			record(ini, i, pr.coq, pr.obs, ks, cancels, startHex, origin)
		}
	}
	// the long listings (long.go) cost more to evaluate than the others: they are spread evenly
	// over the case files, one after every longEvery other cases
	var pending []longCase
	const longEvery = 30
	sinceLong := 0
	add := func(in input, origin string) {
		addNow(in, origin)
		sinceLong++
		if sinceLong >= longEvery && len(pending) > 0 {
			sinceLong = 0
			lc := pending[0]
			pending = pending[1:]
			addNow(lc.in, lc.origin)
		}
	}
	if cfg.Replay != "" {
		b, err := os.ReadFile(cfg.Replay)
		if err != nil {
			panic(err)
		}
		var r struct {
			Input input `json:"input"`
		}
		if err := json.Unmarshal(b, &r); err != nil {
			panic(err)
		}
		add(r.Input, "replay")
		if err := out.Flush(); err != nil {
			panic(err)
		}
		return
	}
	for _, raw := range hx.LoadCorpus(cfg.Corpus) {
		var r struct {
			Input input `json:"input"`
		}
		dec := json.NewDecoder(bytes.NewReader(raw))
		if dec.Decode(&r) == nil && r.Input.Stack != nil {
			add(r.Input, "corpus")
		}
	}

	pending = longCases(rand.New(rand.NewSource(cfg.Seed^0x10000)), cfg.Thorough())
	ready = runLong(pending, 6)
	g := &gen{r: cfg.Rand()}
	mem := func(q string, repo string, names []string) *stackDesc {
		return g.leafMem(level{q: q, repo: repo, names: names})
	}
	hop := func(p, mx int, omit bool, inner *stackDesc) *stackDesc {
		return &stackDesc{Kind: "hop", PageSize: p, Max: mx, OmitLink: omit, Inner: inner}
	}
	sortedPool := func(pool []string) []string {
		s := append([]string{}, pool...)
		sort.Strings(s)
		return s
	}
	// --- systematic core: one hop over ocimem, sizes around multiples of the page size
	for _, p := range []int{1, 2, 3, 4, 5, 6, 7, 1000} {
		pp := p
		if pp > 7 {
			pp = 4
		}
		sizes := map[int]bool{}
		for _, m := range []int{0, 1, pp - 1, pp, pp + 1, 2*pp - 1, 2 * pp, 2*pp + 1, 3 * pp} {
			if m >= 0 && m <= 15 {
				sizes[m] = true
			}
		}
		var ms []int
		for m := range sizes {
			ms = append(ms, m)
		}
		sort.Ints(ms)
		for _, m := range ms {
			for _, omit := range []bool{false, true} {
				for _, q := range []string{"repos", "tags"} {
					var names []string
					repo := ""
					if q == "repos" {
						names = g.subset(repoPool, m)
					} else {
						names = g.subset(tagPool, m)
						repo = g.pick(repoPool)
					}
					sorted := sortedPool(names)
					starts := []string{""}
					if m > 0 {
						el := sorted[g.r.Intn(m)]
						starts = append(starts, el, el+"0")
					}
					mx := 0
					if g.r.Intn(3) == 0 {
						mx = p
					}
					st := hop(p, mx, omit, mem(q, repo, names))
					for _, s := range starts {
						add(withCancels(input{Stack: st, Query: queryDesc{Kind: q, Repo: repo}, StartHex: hexOf(s), Ks: ksFor(m, p, false)}, m, p), "core-1hop")
					}
				}
			}
		}
	}
	// --- systematic: two hops, page size pairs
	for _, p1 := range []int{1, 2, 3, 5} {
		for _, p2 := range []int{1, 2, 3, 4, 1000} {
			for _, m := range []int{0, p1, p1 * 2, p1*2 + 1, 7} {
				q, repo := "tags", "a/b"
				names := g.subset(tagPool, m)
				if (p1+p2+m)%2 == 0 {
					q, repo = "repos", ""
					names = g.subset(repoPool, m)
				}
				st := hop(p1, 0, g.r.Intn(2) == 0, hop(p2, 0, g.r.Intn(2) == 0, mem(q, repo, names)))
				for _, s := range g.starts(names, 2) {
					add(withCancels(input{Stack: st, Query: queryDesc{Kind: q, Repo: repo}, StartHex: hexOf(s), Ks: ksFor(m, p1, false)}, m, p1), "core-2hop")
				}
			}
		}
	}
	// --- the server refuses the page size
	for _, p := range []int{2, 5, 1000, 0} {
		for _, q := range []string{"repos", "tags", "refs"} {
			lv := level{q: q, repo: "a/b", names: g.subset(tagPool, 3)}
			if q == "repos" {
				lv.repo, lv.names = "", g.subset(repoPool, 3)
			}
			if q == "refs" {
				lv.names = []string{"1", "2", "3"}
			}
			add(input{Stack: hop(p, 1, false, g.leafMem(lv)), Query: queryDesc{Kind: q, Repo: lv.repo}, StartHex: "", Ks: []int{0, 1, 2}}, "refused")
			add(input{Stack: hop(3, 0, true, hop(p, 1, false, g.leafMem(lv))), Query: queryDesc{Kind: q, Repo: lv.repo}, StartHex: "", Ks: []int{0, 1, 2}}, "refused")
		}
	}
	// --- the function table with no field set, alone and under every wrapper
	for _, q := range []string{"repos", "tags", "refs"} {
		lv := level{q: q, repo: "a/b", names: g.subset(tagPool, 3)}
		if q == "repos" {
			lv.repo, lv.names = "", g.subset(repoPool, 3)
		}
		if q == "refs" {
			lv.names = []string{"1", "2", "3"}
		}
		fn := &stackDesc{Kind: "funcs"}
		for _, st := range []*stackDesc{
			fn,
			hop(2, 0, false, fn),
			{Kind: "select", Allowed: []string{"a/b"}, Inner: fn},
			{Kind: "sub", Prefix: "p", Inner: fn},
			{Kind: "debug", Inner: fn},
			{Kind: "unify", A: fn, B: g.leafMem(lv)},
			{Kind: "unify", A: g.leafMem(lv), B: fn},
			{Kind: "unify", A: fn, B: fn},
		} {
			add(withCancels(input{Stack: st, Query: queryDesc{Kind: q, Repo: lv.repo}, StartHex: "", Ks: []int{0, 1, 2, 3}}, 3, 2), "funcs-unset")
		}
	}
	// --- random stacks
	nStacks := 330
	if cfg.Thorough() {
		nStacks = 6000
	}
	for i := 0; i < nStacks; i++ {
		lv := level{}
		switch x := g.r.Intn(100); {
		case x < 42:
			lv.q = "repos"
		case x < 84:
			lv.q = "tags"
		default:
			lv.q = "refs"
		}
		p := 1 + g.r.Intn(7)
		m := g.sizeAround(p)
		switch lv.q {
		case "repos":
			if g.r.Intn(8) == 0 {
				lv.meta = true
				lv.names = g.subset(metaItems, m)
			} else {
				lv.names = g.subset(repoPool, m)
			}
		case "tags":
			lv.repo = g.pick(repoPool)
			if g.r.Intn(10) == 0 {
				lv.meta = true
				lv.names = g.subset(metaItems, m)
			} else {
				lv.names = g.subset(tagPool, m)
			}
		case "refs":
			lv.repo = g.pick(repoPool)
			for j := 0; j < m; j++ {
				lv.names = append(lv.names, fmt.Sprint(1+g.r.Intn(40)))
			}
			lv.names = uniq(lv.names)
		}
		depth := 1 + g.r.Intn(4)
		hops := 1 + g.r.Intn(2)
		if g.r.Intn(15) == 0 {
			hops = 3
		}
		st := g.stack(lv, depth, hops)
		if i%3 == 0 && st.Kind != "hop" {
			// make sure most stacks have a hop on top with the page size the size was chosen for
			h := &stackDesc{Kind: "hop"}
			g.hopOpts(h)
			h.PageSize = p
			if h.Max != 0 && h.Max < p && g.r.Intn(3) != 0 {
				h.Max = 0
			}
			h.Inner = st
			st = h
		}
		nq := 6
		if lv.q == "refs" {
			nq = 1
		}
		for _, s := range g.starts(lv.names, nq) {
			add(withCancels(input{Stack: st, Query: queryDesc{Kind: lv.q, Repo: lv.repo}, StartHex: hexOf(s), Ks: ksFor(len(lv.names), topPage(st), false)}, len(lv.names), topPage(st)), "random")
		}
	}
	// --- the start point one edit away from a name or a directory, under every layer (own random
	// stream: the cases above stay what they were)
	g2 := &gen{r: rand.New(rand.NewSource(cfg.Seed ^ 0x5c05))}
	denseRepos := []string{"0", "a", "a-b", "a.b", "a/b", "a/b-c", "a/b/c", "a/b0", "a0", "a_b", "ab", "b", "b/c/d", "b/c0", "zz"}
	denseTags := []string{"A", "V1", "_", "_x", "v1", "v1-", "v1-rc", "v1.", "v1.0", "v10", "v1_rc", "z"}
	// (the in-process layers hand a tag start point on untouched: fewer shapes for tags)
	for si, sh := range []struct {
		tags   bool
		layers []string
	}{
		{true, nil}, {false, []string{"debug"}}, {false, []string{"select"}}, {true, []string{"unify"}},
		{true, []string{"sub:a"}}, {false, []string{"sub:a/b"}}, {false, []string{"sub:t-x"}}, {false, []string{"sub:a", "sub:p.q"}},
		{false, []string{"select", "sub:a"}}, {false, []string{"sub:b", "select"}}, {false, []string{"unify", "sub:a"}},
		{false, []string{"sub:zz", "unify"}}, {false, []string{"debug", "sub:a"}},
		{true, []string{"hop:2:link"}}, {true, []string{"hop:3:nolink"}}, {true, []string{"hop:2:nolink", "hop:3:link"}},
		{false, []string{"hop:2:link", "sub:a"}}, {false, []string{"hop:3:nolink", "sub:a/b"}},
		{true, []string{"sub:a", "hop:2:nolink"}}, {false, []string{"sub:b", "hop:4:link"}},
		{false, []string{"hop:1000:link", "select", "sub:p"}}, {false, []string{"hop:2:nolink", "unify", "sub:a"}},
	} {
		layers := sh.layers
		for qi, q := range []string{"repos", "tags"} {
			lv := level{q: q, names: denseRepos}
			if q == "tags" {
				if !sh.tags {
					continue
				}
				lv.repo, lv.names = "a/b", denseTags
			}
			st := g2.compose(lv, layers)
			for _, s := range g2.sweepStarts(lv.names, si+qi) {
				add(withCancels(input{Stack: st, Query: queryDesc{Kind: q, Repo: lv.repo}, StartHex: hexOf(s), Ks: []int{0}}, len(lv.names), topPage(st)), "edited-start")
			}
		}
	}
	// --- random stacks over families of neighbouring names, start points edited names
	nDense := 90
	if cfg.Thorough() {
		nDense = 3000
	}
	for i := 0; i < nDense; i++ {
		lv := level{q: "repos"}
		m := 3 + g2.r.Intn(10)
		if i%3 == 2 {
			lv.q, lv.repo = "tags", g2.pick(repoPool)
			lv.names = g2.family(tagBases, tagTails, m)
		} else {
			lv.names = g2.family(repoBases, repoTails, m)
		}
		st := g2.stack(lv, 1+g2.r.Intn(3), 1+g2.r.Intn(2))
		for _, s := range g2.editStarts(lv.names, 5) {
			add(withCancels(input{Stack: st, Query: queryDesc{Kind: lv.q, Repo: lv.repo}, StartHex: hexOf(s), Ks: ksFor(len(lv.names), topPage(st), false)}, len(lv.names), topPage(st)), "random-family")
		}
	}
	// --- page sizes at the edges of the integer ranges (huge.go)
	for _, in := range hugeInputs(rand.New(rand.NewSource(cfg.Seed^0x7fff)), cfg.Thorough()) {
		add(in, "huge-page-size")
	}
	// --- the contents change between two listings of the same registry value (hist.go)
	for _, in := range historyInputs(rand.New(rand.NewSource(cfg.Seed^0x415)), cfg.Thorough()) {
		add(in, "history")
	}
	for _, lc := range pending {
		addNow(lc.in, lc.origin)
	}
	if !cfg.Thorough() {
		out.ShardMax = max(out.ShardMax, (out.Len()+15)/16)
	}
	if err := out.Flush(); err != nil {
		panic(err)
	}
}

type ran struct {
	coq  string
	obs  []observed
	done chan struct{}
}

// runLong starts running the long cases, several at a time (each builds its own servers), while
// the main goroutine goes on with the other cases; the result of a case is waited for when the
// case is added.
func runLong(cases []longCase, workers int) map[*stackDesc]*ran {
	out := map[*stackDesc]*ran{}
	next := make(chan int, len(cases))
	heavy := make(chan int, len(cases))
	for i, c := range cases {
		out[c.in.Stack] = &ran{done: make(chan struct{})}
		// the cases of tens of thousands of page requests take the longest: they come last in the
		// case files and are run by workers of their own from the start, so that the others are
		// ready when their turn comes
		if c.in.Stack.pageRequests() >= manyPages {
			heavy <- i
		} else {
			next <- i
		}
	}
	close(next)
	close(heavy)
	work := func(q chan int) {
		for i := range q {
			r := out[cases[i].in.Stack]
			if int(stuck.Load()) < maxStuck {
				r.coq, r.obs, _ = runCase(cases[i].in)
			}
			close(r.done)
		}
	}
	for w := 0; w < workers; w++ {
		go work(next)
	}
	for w := 0; w < 3; w++ {
		go work(heavy)
	}
	return out
}

// the page sizes of the hops of a stack, outside in
func pagesOf(s *stackDesc) string {
	var ps []string
	var walk func(s *stackDesc)
	walk = func(s *stackDesc) {
		if s == nil {
			return
		}
		if s.Kind == "hop" {
			ps = append(ps, fmt.Sprint(s.PageSize))
		}
		walk(s.Inner)
		walk(s.A)
	}
	walk(s)
	return strings.Join(ps, ",")
}

func (g *gen) leafMem(lv level) *stackDesc {
	for {
		s := g.leaf(lv)
		if s.Kind == "mem" {
			return s
		}
	}
}

func uniq(l []string) []string {
	seen := map[string]bool{}
	var out []string
	for _, s := range l {
		if !seen[s] {
			seen[s] = true
			out = append(out, s)
		}
	}
	return out
}

func mustHex(h string) string {
	b, err := hex.DecodeString(h)
	if err != nil {
		panic(err)
	}
	return string(b)
}

func isASCII(s string) bool {
	for i := 0; i < len(s); i++ {
		if s[i] >= 0x80 || s[i] < 0x20 {
			return false
		}
	}
	return true
}
