// Long listings: the numeric constants of the listing code - the server's built-in page cap
// (ociserver maxPageSize = 10000), the client's default page size (ociclient
// DefaultListPageSize = 1000), Options.MaxListPageSize - only matter for listings and page sizes
// around and above them.  The cases here sweep both sides of every such constant: listing
// lengths and page sizes 999 / 1000 / 1001 / 2000 / 2001 and 9999 / 10000 / 10001 / 12345 /
// 20000, server limits equal to / one below / above the page size, the default page size
// (ListPageSize 0), Link on and off, one and two hops, under and over the in-process wrappers,
// over ocimem and over scripted backends (repositories, tags, referrers), with start points
// that leave exactly a boundary number of names, and consumers that decline around the
// boundaries.  The names come from generated families (famDesc) so that neither the case file
// nor the replay file spells them out.
package main

import (
	"fmt"
	"math/rand"
	"strconv"
	"strings"
)

type longSpec struct {
	q      string   // repos tags refs
	leaf   string   // mem script
	count  int      // names the top of the stack lists
	layers []string // outside in: hop:<page>:<max>:<link|nolink> | debug | sub:<prefix> | select | unify
}

type longLevel struct {
	q     string
	repo  string   // tags / refs: the repository name at this level
	fam   famDesc  // the family this level lists
	extra []string // repos: further names at this level (outside every Sub prefix above)
}

func hopLayer(p, mx int, link bool) string {
	l := "nolink"
	if link {
		l = "link"
	}
	return fmt.Sprintf("hop:%d:%d:%s", p, mx, l)
}

func longLeaf(kind string, lv longLevel) *stackDesc {
	f := lv.fam
	if kind == "script" {
		if len(lv.extra) > 0 {
			panic("long: a scripted leaf lists one family")
		}
		return &stackDesc{Kind: "script", ItemFam: &f}
	}
	s := &stackDesc{Kind: "mem"}
	switch lv.q {
	case "tags":
		s.Repos = []repoDesc{{Name: "zz/other", Tags: []string{"v1", "t000001"}}, {Name: lv.repo, TagFam: &f, Refs: []int{1}}}
	case "repos":
		for _, e := range lv.extra {
			s.Repos = append(s.Repos, repoDesc{Name: e, Tags: []string{"v1"}})
		}
		s.RepoFam = &f
	default:
		panic("long: referrers come from scripted leaves")
	}
	return s
}

func longCompose(leaf string, lv longLevel, layers []string) *stackDesc {
	if len(layers) == 0 {
		return longLeaf(leaf, lv)
	}
	f := strings.Split(layers[0], ":")
	rest := layers[1:]
	switch f[0] {
	case "hop":
		p, err1 := strconv.Atoi(f[1])
		mx, err2 := strconv.Atoi(f[2])
		if err1 != nil || err2 != nil {
			panic("long: bad hop layer " + layers[0])
		}
		return &stackDesc{Kind: "hop", PageSize: p, Max: mx, OmitLink: f[3] == "nolink", Inner: longCompose(leaf, lv, rest)}
	case "debug":
		return &stackDesc{Kind: "debug", Inner: longCompose(leaf, lv, rest)}
	case "select":
		if lv.q == "repos" {
			panic("long: select over a long catalogue is not generated")
		}
		return &stackDesc{Kind: "select", Allowed: []string{lv.repo, "never/there"}, Inner: longCompose(leaf, lv, rest)}
	case "sub":
		inner := lv
		if lv.q == "repos" {
			inner.fam.Pre = f[1] + "/" + lv.fam.Pre
			inner.extra = nil
			for _, e := range lv.extra {
				inner.extra = append(inner.extra, f[1]+"/"+e)
			}
			if leaf == "mem" {
				inner.extra = append(inner.extra, f[1], f[1]+"x", f[1]+"-x/"+lv.fam.name(lv.fam.Lo), "o/x")
			}
		} else {
			inner.repo = f[1] + "/" + lv.repo
		}
		return &stackDesc{Kind: "sub", Prefix: f[1], Inner: longCompose(leaf, inner, rest)}
	case "unify":
		la, lb := lv, lv
		c := lv.fam.Count
		la.fam.Count = c - c*2/5
		lb.fam.Lo, lb.fam.Count = lv.fam.Lo+c*2/5, c-c*2/5
		lb.extra = nil
		return &stackDesc{Kind: "unify", A: longCompose(leaf, la, rest), B: longCompose(leaf, lb, rest)}
	}
	panic("long: unknown layer " + layers[0])
}

// the family at the top of a long stack
func longFam(q string, count int) famDesc {
	switch q {
	case "tags":
		return famDesc{Pre: "t", Width: 6, Lo: 0, Count: count}
	case "repos":
		// the names of a family are fixed-width numbers so that numeric order is byte order:
		// five digits hold the indices up to 99999, larger families get a sixth
		w := 5
		if count+1 > 99999 {
			w = 6
		}
		return famDesc{Pre: "r/n", Width: w, Lo: 1, Count: count}
	default:
		// referrers are listed by digest; nothing on the way looks inside one
		return famDesc{Pre: "sha256:", Width: 6, Lo: 7, Count: count}
	}
}

func (sp longSpec) build() (*stackDesc, queryDesc, famDesc) {
	lv := longLevel{q: sp.q, fam: longFam(sp.q, sp.count)}
	if sp.q != "repos" {
		lv.repo = "demo/repo"
	}
	return longCompose(sp.leaf, lv, sp.layers), queryDesc{Kind: sp.q, Repo: lv.repo}, lv.fam
}

func (sp longSpec) topPage() int {
	for _, l := range sp.layers {
		if f := strings.Split(l, ":"); f[0] == "hop" {
			p, _ := strconv.Atoi(f[1])
			if p == 0 {
				p = 1000
			}
			return p
		}
	}
	return 1000
}

// start points: variant v; rem = how many names stay after it
func longStart(f famDesc, v int) (start string, rem int) {
	if f.Count == 0 {
		return "", 0
	}
	at := func(i int) int { return min(max(i, 0), f.Count-1) }
	switch v % 8 {
	case 1: // the first name
		return f.name(f.Lo), f.Count - 1
	case 2: // an element some way in
		i := at(100)
		return f.name(f.Lo + i), f.Count - 1 - i
	case 3: // between two elements
		i := at(41)
		return f.name(f.Lo+i) + "0", f.Count - 1 - i
	case 4: // before everything, not a name
		return "!", f.Count
	case 5: // the last name but one
		i := at(f.Count - 2)
		return f.name(f.Lo + i), f.Count - 1 - i
	case 6: // an element with a URL metacharacter appended
		i := at(7)
		return f.name(f.Lo+i) + "&n=1", f.Count - 1 - i
	default:
		return "", f.Count
	}
}

// consumers: never declining, and one declining around a boundary
func longKs(rem, page, v int) []int {
	c := []int{1, page, page + 1, 10000, 10001, rem, rem + 1, 1000, 1001, rem - 1}
	k := c[v%len(c)]
	if k < 1 || k > rem+2 {
		return []int{0}
	}
	return []int{0, k}
}

type longCase struct {
	in     input
	origin string
}

func longInput(sp longSpec, startV, ksV int, startSkip int) input {
	st, q, f := sp.build()
	start, rem := longStart(f, startV)
	if startSkip > 0 { // start after the element that leaves count - startSkip names
		i := min(startSkip-1, f.Count-1)
		start, rem = f.name(f.Lo+i), f.Count-1-i
	}
	if sp.q == "refs" {
		start, rem = "", f.Count
	}
	return input{Stack: st, Query: q, StartHex: hexOf(start), Ks: longKs(rem, sp.topPage(), ksV)}
}

// longCases: the sweep.  r is a random stream of its own.
func longCases(r *rand.Rand, thorough bool) []longCase {
	var out []longCase
	n := 0
	add := func(origin string, sp longSpec, startSkip int) {
		startV := 0
		if n%3 == 2 {
			startV = 1 + (n/3)%6
		}
		out = append(out, longCase{longInput(sp, startV, n, startSkip), origin})
		n++
	}
	qs := []string{"tags", "repos"}
	big := []int{9999, 10000, 10001, 20000}
	counts := []int{9999, 10000, 10001, 12345}
	// --- one hop over ocimem, page sizes x listing lengths around the server's cap
	for pi, p := range big {
		for ci, c := range counts {
			for li, link := range []bool{true, false} {
				for qi, q := range qs {
					if !thorough && (pi+ci+li+qi)%2 == 1 {
						continue
					}
					add("long-1hop", longSpec{q: q, leaf: "mem", count: c, layers: []string{hopLayer(p, 0, link)}}, 0)
				}
			}
		}
	}
	// start points that leave exactly a boundary number of names
	for i, p := range []int{10000, 10001, 20000} {
		for j, left := range []int{9999, 10000, 10001} {
			if !thorough && (i+j)%2 == 1 {
				continue
			}
			add("long-1hop", longSpec{q: qs[(i+j)%2], leaf: "mem", count: left + 101, layers: []string{hopLayer(p, 0, (i+j)%3 != 0)}}, 101)
		}
	}
	// three pages above the cap: a page size the server or a Link might quietly lower on the way
	for i, pc := range [][2]int{{10001, 30005}, {10000, 30001}, {10001, 20003}} {
		add("long-1hop", longSpec{q: qs[i%2], leaf: "mem", count: pc[1], layers: []string{hopLayer(pc[0], 0, i != 1)}}, 0)
	}
	// --- the server's own limit: equal to the page size, one below (refused), above, around the cap
	for i, pm := range [][2]int{{10000, 10000}, {10001, 10001}, {10001, 10000}, {10000, 9999}, {20000, 20000}, {20000, 10001},
		{20000, 30000}, {10001, 20000}, {9999, 10000}, {1000, 1000}, {0, 1000}, {0, 999}, {1001, 1000}, {0, 10000}} {
		add("long-max", longSpec{q: qs[i%2], leaf: "mem", count: 12345, layers: []string{hopLayer(pm[0], pm[1], i%4 < 2)}}, 0)
	}
	// --- around the client's default page size
	for pi, p := range []int{0, 999, 1000, 1001} {
		for ci, c := range []int{999, 1000, 1001, 2000, 2001} {
			for li, link := range []bool{true, false} {
				if !thorough && (pi+ci+li)%2 == 1 {
					continue
				}
				add("long-default-page", longSpec{q: qs[(pi+ci)%2], leaf: "mem", count: c, layers: []string{hopLayer(p, 0, link)}}, 0)
			}
		}
	}
	for i, pc := range [][2]int{{0, 12345}, {0, 10000}, {1000, 10001}, {1001, 10010}, {0, 3000}} {
		add("long-default-page", longSpec{q: qs[i%2], leaf: "mem", count: pc[1], layers: []string{hopLayer(pc[0], 0, i%2 == 0)}}, 0)
		add("long-default-page", longSpec{q: qs[(i+1)%2], leaf: "mem", count: pc[1], layers: []string{hopLayer(pc[0], 0, i%2 == 1)}}, 0)
	}
	// --- two hops
	for i, pp := range [][2]int{{20000, 20000}, {10001, 1000}, {1000, 10001}, {20000, 10000}, {10000, 20000}, {10001, 10001},
		{0, 20000}, {20000, 0}, {9999, 10001}, {10001, 9999}} {
		for j, c := range []int{10001, 12345} {
			l := i + 2*j
			add("long-2hop", longSpec{q: qs[(i+j)%2], leaf: "mem", count: c,
				layers: []string{hopLayer(pp[0], 0, l%2 == 0), hopLayer(pp[1], 0, l%4 < 2)}}, 0)
		}
	}
	for i, pp := range [][2]int{{0, 0}, {1000, 1001}, {1001, 1000}, {999, 0}} {
		for j, c := range []int{1001, 2001} {
			l := i + j
			add("long-2hop", longSpec{q: qs[(i+j)%2], leaf: "mem", count: c,
				layers: []string{hopLayer(pp[0], 0, l%2 == 0), hopLayer(pp[1], 0, l%4 < 2)}}, 0)
		}
	}
	// the inner server refuses the inner client's page size / allows exactly it
	add("long-2hop", longSpec{q: "tags", leaf: "mem", count: 12345, layers: []string{hopLayer(20000, 0, true), hopLayer(10001, 10000, true)}}, 0)
	add("long-2hop", longSpec{q: "repos", leaf: "mem", count: 12345, layers: []string{hopLayer(20000, 20000, false), hopLayer(10001, 10001, false)}}, 0)
	// --- wrappers over and under a hop with a page above the cap; scripted leaves; referrers
	h, hn := hopLayer(20000, 0, true), hopLayer(10001, 0, false)
	for _, sp := range []longSpec{
		{q: "tags", leaf: "mem", count: 12345},
		{q: "repos", leaf: "mem", count: 10001},
		{q: "tags", leaf: "mem", count: 12345, layers: []string{"debug", h}},
		{q: "repos", leaf: "mem", count: 12345, layers: []string{hn, "debug"}},
		{q: "repos", leaf: "mem", count: 12345, layers: []string{"sub:p", h}},
		{q: "repos", leaf: "mem", count: 10001, layers: []string{hn, "sub:p"}},
		{q: "tags", leaf: "mem", count: 12345, layers: []string{"sub:a/b", hn}},
		{q: "tags", leaf: "mem", count: 10001, layers: []string{h, "sub:p"}},
		{q: "tags", leaf: "mem", count: 12345, layers: []string{"select", h}},
		{q: "tags", leaf: "mem", count: 12345, layers: []string{hn, "select"}},
		{q: "tags", leaf: "mem", count: 12345, layers: []string{"unify", h}},
		{q: "repos", leaf: "mem", count: 12345, layers: []string{hn, "unify"}},
		{q: "tags", leaf: "script", count: 12345, layers: []string{h}},
		{q: "repos", leaf: "script", count: 10001, layers: []string{hn}},
		{q: "repos", leaf: "script", count: 12345, layers: []string{h, "unify", hn}},
		{q: "refs", leaf: "script", count: 12345},
		{q: "refs", leaf: "script", count: 10001, layers: []string{h}},
		{q: "refs", leaf: "script", count: 12345, layers: []string{hn}},
		{q: "refs", leaf: "script", count: 12345, layers: []string{hopLayer(0, 0, true), "debug", hopLayer(5, 0, false)}},
		{q: "refs", leaf: "script", count: 10001, layers: []string{"select", h, "sub:p"}},
		{q: "refs", leaf: "script", count: 12345, layers: []string{"unify", h}},
	} {
		add("long-wrapped", sp, 0)
	}
	// --- random: page sizes, limits and lengths drawn from the boundary values
	pages := []int{0, 999, 1000, 1001, 5000, 9999, 10000, 10001, 12345, 20000}
	lens := []int{999, 1000, 1001, 2000, 2001, 9999, 10000, 10001, 12345, 20001}
	nRandom := 12
	if thorough {
		nRandom = 300
	}
	for i := 0; i < nRandom; i++ {
		sp := longSpec{q: qs[r.Intn(2)], leaf: "mem", count: lens[r.Intn(len(lens))]}
		if r.Intn(5) == 0 {
			sp.leaf = "script"
			if r.Intn(3) == 0 {
				sp.q = "refs"
			}
		}
		hops := 1 + r.Intn(2)
		for hno := 0; hno < hops; hno++ {
			if r.Intn(4) == 0 && sp.leaf == "mem" {
				w := []string{"debug", "sub:p", "sub:a/b", "select", "unify"}[r.Intn(5)]
				if !(w == "select" && sp.q == "repos") {
					sp.layers = append(sp.layers, w)
				}
			}
			p := pages[r.Intn(len(pages))]
			eff := p
			if eff == 0 {
				eff = 1000
			}
			mx := 0
			switch r.Intn(8) {
			case 0:
				mx = eff
			case 1:
				mx = eff + 1
			case 2:
				mx = 10000
			case 3:
				mx = eff - 1 // refuses
			}
			sp.layers = append(sp.layers, hopLayer(p, mx, r.Intn(2) == 0))
		}
		st, q, f := sp.build()
		start, rem := longStart(f, r.Intn(8))
		if sp.q == "refs" {
			start, rem = "", f.Count
		}
		out = append(out, longCase{input{Stack: st, Query: q, StartHex: hexOf(start), Ks: longKs(rem, sp.topPage(), r.Intn(10))}, "long-random"})
	}
	return append(out, manyPagesCases(r, thorough)...)
}

// Listings by the NUMBER OF PAGE REQUESTS: a client that pages one or two names at a time
// through tens of thousands of names makes as many requests for ONE listing as any counter,
// budget or table on the way can be sized for.  The cases cross the powers of two up to
// 2^16 + 1 requests (2^14, 2^15, 2^16: each from some way below to above), with and without Link
// headers, for tags and repositories, with a start point, under the in-process wrappers, and as
// the inner client of a second hop whose own page holds the whole listing (the outer server
// drains the inner client for one page).  The leaves are scripted (ocimem sorts all its names
// for every page).  The consumers decline just after a power of two, or never; the sequence
// value is iterated by each in turn (listPhase, heavy).
func manyPagesCases(r *rand.Rand, thorough bool) []longCase {
	var out []longCase
	type mp struct {
		q      string
		count  int // names
		page   int
		link   bool
		over   []string // layers above the paging hop
		startV int
		ks     []int
	}
	add := func(m mp) {
		layers := append(append([]string{}, m.over...), hopLayer(m.page, 0, m.link))
		sp := longSpec{q: m.q, leaf: "script", count: m.count, layers: layers}
		st, q, f := sp.build()
		start, _ := longStart(f, m.startV)
		out = append(out, longCase{input{Stack: st, Query: q, StartHex: hexOf(start), Ks: m.ks}, "long-many-pages"})
	}
	whole := hopLayer(70000, 0, true) // one page of the outer hop holds everything
	// every tier: above 2^16 requests in one listing; above 2^15 with two names a page and a
	// start point, declined just after 2^16 names; above 2^15 by the inner client of a hop
	add(mp{q: "tags", count: 66000, page: 1, link: true, ks: []int{0}})
	add(mp{q: "repos", count: 66000, page: 2, link: false, startV: 1, ks: []int{65537, 0}})
	add(mp{q: "tags", count: 33000, page: 1, link: false, over: []string{whole}, startV: 2, ks: []int{0}})
	if !thorough {
		return out
	}
	for i, c := range []int{16000, 16385, 32767, 32768, 32769, 33000, 65535, 65536, 65537, 66000} {
		for j, q := range []string{"tags", "repos"} {
			add(mp{q: q, count: c, page: 1, link: (i+j)%2 == 0, startV: (i + 3*j) % 8, ks: []int{c/2 + 1, 0}})
			add(mp{q: q, count: 2 * c, page: 2, link: (i+j)%2 == 1, startV: (i + 5*j) % 8, ks: []int{0}})
		}
	}
	for i, over := range [][]string{{"debug"}, {"sub:p"}, {"sub:a/b"}, {"select"}, {"unify"}, {whole}, {whole, "debug"}, {"debug", whole}} {
		q := []string{"tags", "repos"}[i%2]
		if over[0] == "select" {
			q = "tags"
		}
		add(mp{q: q, count: []int{33000, 66000}[i%2], page: 1, link: i%3 != 0, over: over, startV: i, ks: []int{[]int{32769, 65537}[i%2], 0}})
	}
	for i := 0; i < 6; i++ {
		c := []int{32769, 33000, 65537, 66000}[r.Intn(4)]
		p := 1 + r.Intn(2)
		add(mp{q: []string{"tags", "repos"}[r.Intn(2)], count: c * p, page: p, link: r.Intn(2) == 0, startV: r.Intn(8),
			ks: []int{[]int{1, 16385, 32768, 32769, c}[r.Intn(5)], 0}})
	}
	return out
}
