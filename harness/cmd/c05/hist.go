// Histories: the contents of a registry change between two listings of it.
//
// A listing is of the contents at the time it is made: whatever a layer keeps from an earlier
// listing (sorted names, a page, a "this repository does not exist") must not show in a later
// one.  The other cases of this harness fill a registry, wrap it and list; here the SAME
// registry value (the whole stack: servers, clients, filters stay as they are) is listed, then
// the contents of its leaves are changed directly (tags deleted / pushed / pushed again,
// repositories added, referrer manifests pushed / deleted; the items of a scripted backend
// replaced), then it is listed again - several times over.  Every listing is a case of its own:
// its stack term holds the contents at the time of that listing, so the model and the
// specification judge it like a listing of a freshly filled registry.
package main

import (
	"context"
	"encoding/json"
	"fmt"
	"math/rand"
	"sort"
	"strconv"

	"cuelabs.dev/go/oci/ociregistry"
	"cuelabs.dev/go/oci/ociregistry/ocimem"
	"cuelabs.dev/go/oci/ociregistry/ociref"
)

// opDesc is one change of the contents of one leaf (leaves are numbered in the order they are
// built: depth first, the first member of a unify before the second).
type opDesc struct {
	Leaf  int      `json:"leaf"`
	Kind  string   `json:"kind"` // add_tag del_tag retag add_repo add_ref del_ref add_other del_other set_items
	Repo  string   `json:"repo,omitempty"`
	Tag   string   `json:"tag,omitempty"`
	ID    int      `json:"id,omitempty"`    // manifests: the id (manifestFor)
	Items []string `json:"items,omitempty"` // set_items: the scripted backend's items from now on
}

// phaseDesc: changes, then the query of the case again (with this start point and these consumers)
type phaseDesc struct {
	Why      string   `json:"why,omitempty"` // replace add delete unrelated mixed: what the changes do to the listed set
	Ops      []opDesc `json:"ops"`
	StartHex *string  `json:"start_hex,omitempty"` // nil: the start point of the case
	Ks       []int    `json:"ks"`
	Cancels  []int    `json:"cancels,omitempty"`
}

// a leaf of a stack whose contents are going to be changed
type leaf struct {
	desc  *stackDesc       // what it holds now (part of the description the case term is made from)
	mem   *ocimem.Registry // kind mem
	items []string         // kind script: what the backend lists
}

func copyStack(s *stackDesc) *stackDesc {
	b, err := json.Marshal(s)
	if err != nil {
		panic(err)
	}
	var c stackDesc
	if err := json.Unmarshal(b, &c); err != nil {
		panic(err)
	}
	return &c
}

func removeStr(l []string, x string) ([]string, bool) {
	for i, y := range l {
		if y == x {
			return append(append([]string{}, l[:i]...), l[i+1:]...), true
		}
	}
	return l, false
}

func removeInt(l []int, x int) ([]int, bool) {
	for i, y := range l {
		if y == x {
			return append(append([]int{}, l[:i]...), l[i+1:]...), true
		}
	}
	return l, false
}

func hasInt(l []int, x int) bool {
	for _, y := range l {
		if y == x {
			return true
		}
	}
	return false
}

func hasStr(l []string, x string) bool {
	for _, y := range l {
		if y == x {
			return true
		}
	}
	return false
}

// apply makes one change, to the real registry and to its description alike.  A change that
// cannot be made (the description and the op do not fit, or the registry refuses) panics.
func (b *built) apply(op opDesc) {
	if op.Leaf < 0 || op.Leaf >= len(b.leaves) {
		panic(fmt.Sprintf("no leaf %d", op.Leaf))
	}
	l := b.leaves[op.Leaf]
	ctx := context.Background()
	if op.Kind == "set_items" {
		if l.desc.Kind != "script" {
			panic("set_items on a leaf of kind " + l.desc.Kind)
		}
		l.items = append([]string{}, op.Items...)
		l.desc.Items = append([]string{}, op.Items...)
		return
	}
	if l.mem == nil {
		panic(op.Kind + " on a leaf of kind " + l.desc.Kind)
	}
	// the repository, created (with the manifest every description of a repository has) when absent
	repo := func() *repoDesc {
		for i := range l.desc.Repos {
			if l.desc.Repos[i].Name == op.Repo {
				return &l.desc.Repos[i]
			}
		}
		if _, err := l.mem.PushManifest(ctx, op.Repo, "", manifestFor("", 0), indexMediaType); err != nil {
			panic(err)
		}
		l.desc.Repos = append(l.desc.Repos, repoDesc{Name: op.Repo})
		return &l.desc.Repos[len(l.desc.Repos)-1]
	}
	push := func(tag string, content []byte) {
		if _, err := l.mem.PushManifest(ctx, op.Repo, tag, content, indexMediaType); err != nil {
			panic(err)
		}
	}
	switch op.Kind {
	case "add_repo":
		repo()
	case "add_tag":
		rd := repo()
		if hasStr(rd.Tags, op.Tag) {
			panic("the tag is there already")
		}
		push(op.Tag, manifestFor("", 0))
		rd.Tags = append(rd.Tags, op.Tag)
	case "retag":
		// an existing tag pushed again: with another of the repository's manifests when it has one
		rd := repo()
		if !hasStr(rd.Tags, op.Tag) {
			panic("no such tag")
		}
		switch {
		case len(rd.Refs) > 0:
			push(op.Tag, manifestFor(theSubject, rd.Refs[0]))
		case len(rd.Other) > 0:
			push(op.Tag, manifestFor(otherSubject, rd.Other[0]))
		default:
			push(op.Tag, manifestFor("", 0))
		}
	case "del_tag":
		rd := repo()
		var ok bool
		if rd.Tags, ok = removeStr(rd.Tags, op.Tag); !ok {
			panic("no such tag")
		}
		if err := l.mem.DeleteTag(ctx, op.Repo, op.Tag); err != nil {
			panic(err)
		}
	case "add_ref", "add_other":
		rd := repo()
		subject, ids := theSubject, &rd.Refs
		if op.Kind == "add_other" {
			subject, ids = otherSubject, &rd.Other
		}
		if hasInt(*ids, op.ID) {
			panic("the manifest is there already")
		}
		push("", manifestFor(subject, op.ID))
		*ids = append(*ids, op.ID)
	case "del_ref", "del_other":
		rd := repo()
		subject, ids := theSubject, &rd.Refs
		if op.Kind == "del_other" {
			subject, ids = otherSubject, &rd.Other
		}
		var ok bool
		if *ids, ok = removeInt(*ids, op.ID); !ok {
			panic("no such manifest")
		}
		if err := l.mem.DeleteManifest(ctx, op.Repo, ociregistry.Digest(digestOf(manifestFor(subject, op.ID)))); err != nil {
			panic(err)
		}
	default:
		panic("unknown change " + op.Kind)
	}
}

// ---------------------------------------------------------------- generation

// a leaf as the generator sees it: its number, its description, the name the queried repository
// has there (Sub layers above it put their prefix in front), and names that would be visible at
// the top if the leaf held them (what Select layers above allow, mapped down)
type leafSite struct {
	idx   int
	desc  *stackDesc
	repo  string
	allow []string
}

func leafSites(s *stackDesc, repo string) []leafSite {
	var out []leafSite
	var walk func(s *stackDesc, repo string, allow []string)
	walk = func(s *stackDesc, repo string, allow []string) {
		switch s.Kind {
		case "mem", "script", "funcs":
			out = append(out, leafSite{idx: len(out), desc: s, repo: repo, allow: allow})
		case "unify":
			walk(s.A, repo, allow)
			walk(s.B, repo, allow)
		case "sub":
			var mapped []string
			for _, a := range allow {
				mapped = append(mapped, s.Prefix+"/"+a)
			}
			walk(s.Inner, s.Prefix+"/"+repo, mapped)
		case "select":
			walk(s.Inner, repo, append(append([]string{}, allow...), s.Allowed...))
		default:
			walk(s.Inner, repo, allow)
		}
	}
	walk(s, repo, nil)
	return out
}

var freshTails = []string{"0", "-n", ".n", "_n", "n", "/n", "-", "1"}

// a name that is not in have: one allowed from above, a neighbour of an existing name, or one
// from the pool
func (g *gen) fresh(have []string, allow []string, pool []string, valid func(string) bool) string {
	for try := 0; try < 50; try++ {
		var c string
		switch x := g.r.Intn(10); {
		case x < 3 && len(allow) > 0:
			c = allow[g.r.Intn(len(allow))]
		case x < 7 && len(have) > 0:
			c = have[g.r.Intn(len(have))] + g.pick(freshTails)
		default:
			c = g.pick(pool)
		}
		if c != "" && !hasStr(have, c) && (valid == nil || valid(c)) {
			return c
		}
	}
	return fmt.Sprintf("n%d", g.r.Intn(1000000))
}

func repoNames(s *stackDesc) []string {
	var out []string
	for _, rd := range s.Repos {
		out = append(out, rd.Name)
	}
	return out
}

func findRepo(s *stackDesc, name string) *repoDesc {
	for i := range s.Repos {
		if s.Repos[i].Name == name {
			return &s.Repos[i]
		}
	}
	return nil
}

// changes generates the changes of one phase against the current description cur (and applies
// them to it, so that the next phase starts from there).  why: replace (one listed name goes, a
// new one comes: the number of names stays), add, delete, unrelated (the listed set stays:
// a tag pushed again, changes next to the listed repository), mixed.
func (g *gen) changes(cur *stackDesc, q queryDesc, why string) []opDesc {
	sites := leafSites(cur, q.Repo)
	var ops []opDesc
	tagPoolAll := append(append([]string{}, tagPool...), "v1-", "v1.", "v1_", "A0", "zz", "latest0")
	for _, st := range sites {
		// most changes hit every member that holds the listing; now and then a member is left alone
		if len(sites) > 1 && g.r.Intn(4) == 0 {
			continue
		}
		d := st.desc
		var del, add bool
		switch why {
		case "replace":
			del, add = true, true
		case "add":
			add = true
		case "delete":
			del = true
		case "mixed":
			del, add = g.r.Intn(2) == 0, g.r.Intn(2) == 0
		}
		switch d.Kind {
		case "script":
			items := append([]string{}, d.Items...)
			if del && len(items) > 0 {
				i := g.r.Intn(len(items))
				items = append(items[:i], items[i+1:]...)
			}
			if add {
				var n string
				if q.Kind == "refs" {
					n = digestOf(manifestFor(theSubject, 50+g.r.Intn(40)))
				} else if q.Kind == "tags" {
					n = g.fresh(items, nil, tagPoolAll, nil)
				} else {
					n = g.fresh(items, st.allow, repoPool, nil)
				}
				if !hasStr(items, n) {
					items = append(items, n)
				}
			}
			if why == "unrelated" {
				continue
			}
			sort.Strings(items)
			ops = append(ops, opDesc{Leaf: st.idx, Kind: "set_items", Items: items})
		case "mem":
			switch q.Kind {
			case "repos":
				// (a repository of ocimem cannot be removed)
				if add || del {
					ops = append(ops, opDesc{Leaf: st.idx, Kind: "add_repo", Repo: g.fresh(repoNames(d), st.allow, repoPool, ociref.IsValidRepository)})
				}
				if why == "unrelated" && len(d.Repos) > 0 {
					rd := d.Repos[g.r.Intn(len(d.Repos))]
					ops = append(ops, opDesc{Leaf: st.idx, Kind: "add_tag", Repo: rd.Name, Tag: g.fresh(rd.Tags, nil, tagPoolAll, ociref.IsValidTag)})
				}
			case "tags":
				rd := findRepo(d, st.repo)
				var tags []string
				if rd != nil {
					tags = append(tags, rd.Tags...)
				}
				if del && len(tags) > 0 {
					t := tags[g.r.Intn(len(tags))]
					tags, _ = removeStr(tags, t)
					ops = append(ops, opDesc{Leaf: st.idx, Kind: "del_tag", Repo: st.repo, Tag: t})
				}
				if add {
					// (pushing to a repository the leaf does not know creates it)
					ops = append(ops, opDesc{Leaf: st.idx, Kind: "add_tag", Repo: st.repo, Tag: g.fresh(tags, nil, tagPoolAll, ociref.IsValidTag)})
				}
				if why == "unrelated" {
					if len(tags) > 0 {
						ops = append(ops, opDesc{Leaf: st.idx, Kind: "retag", Repo: st.repo, Tag: tags[g.r.Intn(len(tags))]})
					}
					// the same number of tags comes and goes next door
					other := g.fresh([]string{st.repo}, nil, append(repoNames(d), repoPool...), ociref.IsValidRepository)
					if ord := findRepo(d, other); ord != nil && len(ord.Tags) > 0 {
						ops = append(ops, opDesc{Leaf: st.idx, Kind: "del_tag", Repo: other, Tag: ord.Tags[g.r.Intn(len(ord.Tags))]})
					} else {
						ops = append(ops, opDesc{Leaf: st.idx, Kind: "add_tag", Repo: other, Tag: g.pick(tagPoolAll)})
					}
				}
			case "refs":
				rd := findRepo(d, st.repo)
				var refs, other []int
				if rd != nil {
					refs, other = rd.Refs, rd.Other
				}
				newID := func(have []int) int {
					for {
						if id := 1 + g.r.Intn(90); !hasInt(have, id) {
							return id
						}
					}
				}
				switch {
				case del && add && len(refs) == 0 && len(other) > 0, del && add && len(other) > 0 && g.r.Intn(3) == 0:
					// the number of manifests stays, the number of referrers does not
					ops = append(ops, opDesc{Leaf: st.idx, Kind: "del_other", Repo: st.repo, ID: other[g.r.Intn(len(other))]},
						opDesc{Leaf: st.idx, Kind: "add_ref", Repo: st.repo, ID: newID(refs)})
				default:
					if del && len(refs) > 0 {
						ops = append(ops, opDesc{Leaf: st.idx, Kind: "del_ref", Repo: st.repo, ID: refs[g.r.Intn(len(refs))]})
					}
					if add {
						ops = append(ops, opDesc{Leaf: st.idx, Kind: "add_ref", Repo: st.repo, ID: newID(refs)})
					}
				}
				if why == "unrelated" {
					ops = append(ops, opDesc{Leaf: st.idx, Kind: "add_other", Repo: st.repo, ID: newID(append(append([]int{}, other...), 100, 101, 102, 103))})
					if len(refs) > 0 && rd != nil && len(rd.Tags) > 0 {
						ops = append(ops, opDesc{Leaf: st.idx, Kind: "retag", Repo: st.repo, Tag: rd.Tags[0]})
					}
				}
			}
		}
	}
	// keep the description in step (the harness does the same when it runs the case)
	b := &built{}
	for _, st := range sites {
		b.leaves = append(b.leaves, &leaf{desc: st.desc})
	}
	for _, op := range ops {
		applyDesc(b, op)
	}
	return ops
}

// applyDesc: the effect of a change on the description alone (no registry at hand)
func applyDesc(b *built, op opDesc) {
	d := b.leaves[op.Leaf].desc
	if op.Kind == "set_items" {
		d.Items = append([]string{}, op.Items...)
		return
	}
	rd := findRepo(d, op.Repo)
	if rd == nil {
		d.Repos = append(d.Repos, repoDesc{Name: op.Repo})
		rd = &d.Repos[len(d.Repos)-1]
	}
	switch op.Kind {
	case "add_tag":
		rd.Tags = append(rd.Tags, op.Tag)
	case "del_tag":
		rd.Tags, _ = removeStr(rd.Tags, op.Tag)
	case "add_ref":
		rd.Refs = append(rd.Refs, op.ID)
	case "del_ref":
		rd.Refs, _ = removeInt(rd.Refs, op.ID)
	case "add_other":
		rd.Other = append(rd.Other, op.ID)
	case "del_other":
		rd.Other, _ = removeInt(rd.Other, op.ID)
	}
}

// what the leaves hold for the query, roughly (for choosing consumers and start points)
func heldNames(cur *stackDesc, q queryDesc) []string {
	var out []string
	for _, st := range leafSites(cur, q.Repo) {
		d := st.desc
		switch {
		case d.Kind == "script":
			out = append(out, d.Items...)
		case d.Kind == "mem" && q.Kind == "repos":
			out = append(out, repoNames(d)...)
		case d.Kind == "mem":
			if rd := findRepo(d, st.repo); rd != nil {
				if q.Kind == "tags" {
					out = append(out, rd.Tags...)
				} else {
					for _, id := range rd.Refs {
						out = append(out, strconv.Itoa(id))
					}
				}
			}
		}
	}
	return uniq(out)
}

var whys = []string{"replace", "replace", "replace", "add", "delete", "unrelated", "mixed"}

// withHistory gives the case in 1..maxPhases phases of changes; the first is a replacement (the
// number of names stays) unless first says otherwise
func (g *gen) withHistory(in input, first string, phases int) input {
	cur := copyStack(in.Stack)
	for i := 0; i < phases; i++ {
		why := g.pick(whys)
		if i == 0 && first != "" {
			why = first
		}
		ops := g.changes(cur, in.Query, why)
		if len(ops) == 0 {
			continue
		}
		held := heldNames(cur, in.Query)
		p := topPage(in.Stack)
		ph := phaseDesc{Why: why, Ops: ops}
		// consumers: everything, and one that declines (around the page boundary or the end)
		ph.Ks = []int{0}
		if n := len(held); n > 0 {
			c := []int{1, p, p + 1, n, n - 1}
			if k := c[g.r.Intn(len(c))]; k >= 1 && k <= n+1 {
				ph.Ks = append(ph.Ks, k)
			}
		}
		// start point: the case's, or (one time in three) a name the leaves hold now
		if len(held) > 0 && in.Query.Kind != "refs" && g.r.Intn(3) == 0 {
			h := hexOf(held[g.r.Intn(len(held))])
			ph.StartHex = &h
		}
		if len(held) > 1 && g.r.Intn(4) == 0 {
			ph.Cancels = []int{1 + g.r.Intn(len(held))}
		}
		in.Then = append(in.Then, ph)
	}
	return in
}

// historyInputs: the histories of one run.  Systematic: every layer shape of the edited-start
// sweep (and scripted / referrer variants) with one replacement, one addition, one deletion and
// one unrelated change in turn; then random stacks with random histories.
func historyInputs(r *rand.Rand, thorough bool) []input {
	g := &gen{r: r}
	var out []input
	names := []string{"a", "a-b", "a/b", "a/b/c", "a0", "b", "p/x", "zz"}
	tags := []string{"A", "_x", "latest", "v1", "v1.0", "v10", "v2", "z"}
	shapes := [][]string{
		nil, {"debug"}, {"select"}, {"unify"}, {"sub:a"}, {"sub:a", "sub:p.q"}, {"select", "sub:a"}, {"sub:b", "select"},
		{"unify", "sub:a"}, {"sub:zz", "unify"}, {"debug", "sub:a"},
		{"hop:2:link"}, {"hop:3:nolink"}, {"hop:1000:link"}, {"hop:0:link"}, {"hop:2:nolink", "hop:3:link"}, {"hop:3:link", "hop:2:nolink"},
		{"hop:2:link", "sub:a"}, {"sub:a", "hop:2:nolink"}, {"hop:4:link", "select"}, {"select", "hop:3:nolink"},
		{"hop:2:nolink", "unify"}, {"unify", "hop:2:link"}, {"debug", "hop:3:link"}, {"hop:2:link", "debug"},
	}
	firsts := []string{"replace", "add", "delete", "unrelated"}
	for si, layers := range shapes {
		for qi, q := range []string{"tags", "repos", "refs"} {
			lv := level{q: q, repo: "a/b", names: tags}
			switch q {
			case "repos":
				lv.repo, lv.names = "", names
			case "refs":
				lv.names = []string{"1", "2", "3", "4", "5"}
				if si%2 == 1 {
					continue // half of the shapes
				}
			}
			st := g.compose(lv, layers)
			in := input{Stack: st, Query: queryDesc{Kind: q, Repo: lv.repo}, StartHex: "", Ks: []int{0}}
			if (si+qi)%3 == 0 {
				in.StartHex = hexOf(lv.names[1])
			}
			// the four kinds in turn, the replacement first: listed, changed, listed, changed, ...
			rot := (si + qi) % len(firsts)
			hist := in
			cur := copyStack(in.Stack)
			for j := 0; j < len(firsts); j++ {
				why := firsts[(rot+j)%len(firsts)]
				if j == 0 {
					why = "replace"
				}
				one := g.withHistoryFrom(hist, cur, why)
				hist = one
			}
			out = append(out, hist)
		}
	}
	// scripted leaves (whose catalog can lose a name) under the layers
	for si, layers := range shapes {
		if si%2 == 0 {
			continue
		}
		for _, q := range []string{"repos", "tags"} {
			lv := level{q: q, repo: "a/b", names: tags}
			if q == "repos" {
				lv.repo, lv.names = "", names
			}
			st := g.compose(lv, layers)
			scriptLeaves(st, lv.repo, si%4 == 1)
			in := input{Stack: st, Query: queryDesc{Kind: q, Repo: lv.repo}, StartHex: "", Ks: []int{0}}
			out = append(out, g.withHistory(in, "replace", 3))
		}
	}
	// random stacks, random histories
	n := 110
	if thorough {
		n = 2500
	}
	for i := 0; i < n; i++ {
		lv := level{}
		switch x := g.r.Intn(100); {
		case x < 30:
			lv.q = "repos"
		case x < 80:
			lv.q = "tags"
		default:
			lv.q = "refs"
		}
		p := 1 + g.r.Intn(5)
		m := g.sizeAround(p)
		if m < 2 {
			m = 2 + g.r.Intn(5)
		}
		switch lv.q {
		case "repos":
			lv.names = g.subset(repoPool, m)
		case "tags":
			lv.repo = g.pick(repoPool)
			lv.names = g.subset(tagPool, m)
		case "refs":
			lv.repo = g.pick(repoPool)
			for j := 0; j < m; j++ {
				lv.names = append(lv.names, fmt.Sprint(1+g.r.Intn(40)))
			}
			lv.names = uniq(lv.names)
		}
		st := g.stack(lv, 1+g.r.Intn(3), 1+g.r.Intn(2))
		if i%3 == 0 && st.Kind != "hop" {
			h := &stackDesc{Kind: "hop", PageSize: p, OmitLink: g.r.Intn(2) == 0, Inner: st}
			st = h
		}
		start := ""
		if g.r.Intn(3) == 0 && lv.q != "refs" {
			start = g.starts(lv.names, 2)[1]
		}
		in := input{Stack: st, Query: queryDesc{Kind: lv.q, Repo: lv.repo}, StartHex: hexOf(start), Ks: []int{0}}
		if k := 1 + g.r.Intn(len(lv.names)+1); g.r.Intn(2) == 0 {
			in.Ks = append(in.Ks, k)
		}
		first := "replace"
		if g.r.Intn(3) == 0 {
			first = ""
		}
		out = append(out, g.withHistory(in, first, 1+g.r.Intn(3)))
	}
	return out
}

// withHistoryFrom appends one phase of the given kind to a history whose current contents are
// cur (changed in place)
func (g *gen) withHistoryFrom(in input, cur *stackDesc, why string) input {
	ops := g.changes(cur, in.Query, why)
	if len(ops) == 0 {
		return in
	}
	held := heldNames(cur, in.Query)
	p := topPage(in.Stack)
	ph := phaseDesc{Why: why, Ops: ops, Ks: []int{0}}
	if n := len(held); n > 0 {
		c := []int{1, p, p + 1, n, n - 1}
		if k := c[g.r.Intn(len(c))]; k >= 1 && k <= n+1 {
			ph.Ks = append(ph.Ks, k)
		}
	}
	if len(held) > 0 && in.Query.Kind != "refs" && g.r.Intn(3) == 0 {
		h := hexOf(held[g.r.Intn(len(held))])
		ph.StartHex = &h
	}
	in.Then = append(append([]phaseDesc{}, in.Then...), ph)
	return in
}

// scriptLeaves turns the ocimem leaves of a repositories / tags stack into scripted backends
// that list the same names (with a final error when failing is set on the first of them)
func scriptLeaves(s *stackDesc, topRepo string, failing bool) {
	first := true
	var walk func(s *stackDesc, repo string)
	walk = func(s *stackDesc, repo string) {
		switch s.Kind {
		case "mem":
			var items []string
			if repo == "" {
				items = repoNames(s)
			} else if rd := findRepo(s, repo); rd != nil {
				items = append(items, rd.Tags...)
			}
			sort.Strings(items)
			*s = stackDesc{Kind: "script", Items: items}
			if failing && first {
				s.ErrCode = "DENIED"
			}
			first = false
		case "unify":
			walk(s.A, repo)
			walk(s.B, repo)
		case "sub":
			if repo != "" {
				repo = s.Prefix + "/" + repo
			}
			walk(s.Inner, repo)
		case "script", "funcs":
		default:
			walk(s.Inner, repo)
		}
	}
	walk(s, topRepo)
}
