// Harness for C10 (tokens sent are sufficient, fresh and the host's own): see package authsim.
package main

import "verif/harness/authsim"

func main() {
	authsim.Main(&authsim.Profile{Module: "Obs.C10", Runs: 480, Parses: 60, TimedPct: 40, FaultPct: 20,
		OddPct: 10, ConcPct: 30, HoldPct: 18, CfgPct: 8, HostPct: 4, BodyPct: 10, Unlimited: false,
		ReusePct: 8, CtxPct: 10, CancelPct: 3, RedirPct: 5, SweepPct: 8, DirectedPct: 12})
}
