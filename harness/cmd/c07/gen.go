package main

import (
	"math/rand"
	"strings"

	"cuelabs.dev/go/oci/ociregistry"
	"verif/harness/hx"
)

var customCodes = []string{"SOMECODE", "MY_CUSTOM_CODE", "X", "", "UNKNOWN", "lower_case", "NOT_FOUND",
	"RANGE_INVALID_X", "BLOB", "码_X", "A__B", "CODE WITH SPACE", "C:D",
	// near misses of table codes: the specification assigns them no status and no identity
	"denied", "Name_Unknown", "toomanyrequests", "blob_upload_invalid", "DENIED ", " UNAUTHORIZED", "BLOB-UNKNOWN",
	"MANIFEST UNKNOWN", "UNSUPPORTE", "RANGE_INVALI", "XDENIED", "SIZE__INVALID", "DIGEST_INVALID_"}

// nearMisses are codes that are NOT the table code std but close to it: other letter case, one
// character dropped / added / replaced, the separator written differently, padding.
func nearMisses(std string) []string {
	title := strings.ToUpper(std[:1]) + strings.ToLower(std[1:])
	mid := len(std) / 2
	return []string{
		strings.ToLower(std),
		title,
		std[:len(std)-1],
		std[1:],
		std + "S",
		"X" + std,
		std + " ",
		" " + std,
		strings.ReplaceAll(std, "_", "-"),
		strings.ReplaceAll(std, "_", " "),
		std[:mid] + std[mid+1:],
		std[:mid] + strings.ToLower(std[mid:mid+1]) + std[mid+1:],
		std + "_",
		strings.ReplaceAll(strings.ReplaceAll(std, "I", "1"), "O", "0"),
	}
}

var statuses = []int{400, 401, 403, 404, 405, 409, 416, 418, 429, 451, 499, 500, 501, 502, 503, 504, 599}

var details = []string{"", "", "", `{"a":1}`, `[1,2,{"b":null}]`, `"str"`, `null`, `123`, ` { "k" : "<&>" } `, `{"nested":{"x":[true,false]}}`, `1.50`}

var wrapPrefixes = []string{"context: ", "", "cannot do it: ", "404 Not Found: ", "blob unknown: ", "unknown: ",
	"500 Internal Server Error: ", "a: b: ", "été: "}

var baseMessages = []string{"something failed", "", "x", "blob unknown", "unknown", "not found", "trailing colon: ",
	": leading", "with \"quotes\" and \\ backslash", "line1\nline2", "<html>&amp;", "日本語 message", "tab\there"}

// prefixText is what appendErrorCodePrefix makes of an ASCII code.
func prefixText(code string) string {
	if code == "" {
		return "(no code)"
	}
	return strings.ReplaceAll(strings.ToLower(code), "_", " ")
}

var statusTexts = map[int]string{400: "Bad Request", 401: "Unauthorized", 403: "Forbidden", 404: "Not Found",
	416: "Requested Range Not Satisfiable", 429: "Too Many Requests", 500: "Internal Server Error", 418: "I'm a teapot"}

// message builds a message, often one that begins with a code or status prefix.
func message(rnd *rand.Rand, code string) string {
	m := baseMessages[rnd.Intn(len(baseMessages))]
	switch rnd.Intn(10) {
	case 0:
		return prefixText(code) + ": " + m
	case 1:
		st := []int{400, 401, 403, 404, 416, 429, 500, 418}[rnd.Intn(8)]
		return hx.N(st) + " " + statusTexts[st] + ": " + m
	case 2:
		st := []int{404, 416, 500, 400}[rnd.Intn(4)]
		return hx.N(st) + " " + statusTexts[st] + ": " + prefixText(code) + ": " + m
	case 3:
		return prefixText(code) + ": " + prefixText(code) + ": " + m
	case 4:
		return prefixText(code)
	case 5:
		return "unknown: " + m
	case 6:
		return strings.Repeat("long message ", 5+rnd.Intn(40)) + m
	}
	return m
}

func randCode(rnd *rand.Rand) string {
	if rnd.Intn(2) == 0 {
		return stds[rnd.Intn(len(stds))].Err.Code()
	}
	return customCodes[rnd.Intn(len(customCodes))]
}

func leaf(rnd *rand.Rand) *ErrSpec {
	switch rnd.Intn(12) {
	case 10:
		code := randCode(rnd)
		return &ErrSpec{Kind: "own", Code: code, Msg: message(rnd, code), Detail: details[rnd.Intn(len(details))]}
	case 11:
		code := randCode(rnd)
		return &ErrSpec{Kind: "ownboth", Status: randStatus(rnd), Code: code, Msg: message(rnd, code), Detail: details[rnd.Intn(len(details))]}
	case 0, 1:
		return &ErrSpec{Kind: "std", Std: stds[rnd.Intn(len(stds))].Name}
	case 2:
		return &ErrSpec{Kind: "plain", Msg: message(rnd, "UNKNOWN")}
	default:
		code := randCode(rnd)
		return &ErrSpec{Kind: "wire", Code: code, Msg: message(rnd, code), Detail: details[rnd.Intn(len(details))]}
	}
}

func randStatus(rnd *rand.Rand) int {
	if rnd.Intn(3) == 0 {
		return 400 + rnd.Intn(200)
	}
	return statuses[rnd.Intn(len(statuses))]
}

func randErr(rnd *rand.Rand, depth int) *ErrSpec {
	if depth == 0 {
		return leaf(rnd)
	}
	switch rnd.Intn(7) {
	case 0, 1:
		return &ErrSpec{Kind: "wrap", Prefix: wrapPrefixes[rnd.Intn(len(wrapPrefixes))], Inner: randErr(rnd, depth-1)}
	case 2, 3:
		if rnd.Intn(12) == 0 {
			return &ErrSpec{Kind: "http", Status: randStatus(rnd)}
		}
		return &ErrSpec{Kind: "http", Status: randStatus(rnd), Inner: randErr(rnd, depth-1)}
	case 5:
		if rnd.Intn(12) == 0 {
			return &ErrSpec{Kind: "ownhttp", Status: randStatus(rnd)}
		}
		return &ErrSpec{Kind: "ownhttp", Status: randStatus(rnd), Inner: randErr(rnd, depth-1)}
	case 6:
		return &ErrSpec{Kind: "join", Msg: baseMessages[rnd.Intn(len(baseMessages))], Inner: randErr(rnd, depth-1)}
	}
	return leaf(rnd)
}

// the errors every (carrier, configuration) pair beyond the first configuration is crossed
// with: values the HEAD fallback keeps (403, 429), one it renames (404), one it drops (416),
// a custom code with a detail under a status of its own, an uncoded error
var configProbes = []*ErrSpec{
	{Kind: "std", Std: "Denied"},
	{Kind: "std", Std: "BlobUnknown"},
	{Kind: "std", Std: "TooManyRequests"},
	{Kind: "std", Std: "RangeInvalid"},
	{Kind: "http", Status: 503, Inner: &ErrSpec{Kind: "wire", Code: "SOMECODE", Msg: "try later", Detail: `{"retry":3}`}},
	{Kind: "plain", Msg: "plain failure"},
}

// what the "auth" configuration is crossed with: errors the servers answer with status 401 (the
// only status ociauth's transport looks at), built in every way a 401 comes about ...
var authProbes = []*ErrSpec{
	{Kind: "std", Std: "Unauthorized"},
	{Kind: "wire", Code: "UNAUTHORIZED", Msg: "sign in first", Detail: `{"realm":"c07"}`},
	{Kind: "http", Status: 401, Inner: &ErrSpec{Kind: "wire", Code: "SOMECODE", Msg: "who are you", Detail: `{"a":1}`}},
	{Kind: "own", Code: "UNAUTHORIZED", Msg: "own refusal", Detail: `["x"]`},
}

// ... and, over a few carriers, a bare 401, an uncoded 401 and two controls with another status
var authProbesFew = []*ErrSpec{
	{Kind: "http", Status: 401},
	{Kind: "ownhttp", Status: 401, Inner: &ErrSpec{Kind: "plain", Msg: "plain failure"}},
	{Kind: "std", Std: "Denied"},
	{Kind: "http", Status: 407, Inner: &ErrSpec{Kind: "wire", Code: "PROXY", Msg: "proxy auth"}},
}

// error values of types of the harness's own (own.go) and errors.Join trees
var ownProbes = []*ErrSpec{
	{Kind: "own", Code: "POLICY_VIOLATION", Msg: "refused by policy", Detail: `{"hint":"ask","n":3}`},
	{Kind: "own", Code: "", Msg: "no code at all"},
	{Kind: "wrap", Prefix: "while checking policy: ", Inner: &ErrSpec{Kind: "own", Code: "DENIED", Msg: "refused", Detail: `{"a":1}`}},
	{Kind: "http", Status: 451, Inner: &ErrSpec{Kind: "own", Code: "POLICY_VIOLATION", Msg: "refused by policy", Detail: `[1]`}},
	{Kind: "ownhttp", Status: 404},
	{Kind: "ownhttp", Status: 451, Inner: &ErrSpec{Kind: "wire", Code: "SOMECODE", Msg: "foo", Detail: `{"k":"v"}`}},
	{Kind: "ownhttp", Status: 503, Inner: &ErrSpec{Kind: "own", Code: "BUSY", Msg: "try later", Detail: `{"retry":3}`}},
	{Kind: "ownhttp", Status: 418, Inner: &ErrSpec{Kind: "plain", Msg: "plain failure"}},
	{Kind: "wrap", Prefix: "context: ", Inner: &ErrSpec{Kind: "ownhttp", Status: 409, Inner: &ErrSpec{Kind: "std", Std: "ManifestInvalid"}}},
	{Kind: "ownboth", Status: 451, Code: "POLICY_VIOLATION", Msg: "refused by policy", Detail: `{"a":[true]}`},
	{Kind: "ownboth", Status: 416, Code: "RANGE_INVALID", Msg: "bad range"},
	{Kind: "ownboth", Status: 500, Code: "BLOB_UNKNOWN", Msg: ""},
	{Kind: "join", Msg: "first of two", Inner: &ErrSpec{Kind: "std", Std: "BlobUnknown"}},
	{Kind: "join", Msg: "", Inner: &ErrSpec{Kind: "own", Code: "NAME_UNKNOWN", Msg: "no such repo", Detail: `"d"`}},
	{Kind: "join", Msg: "cleanup failed too", Inner: &ErrSpec{Kind: "http", Status: 418, Inner: &ErrSpec{Kind: "wire", Code: "TEAPOT", Msg: "short and stout"}}},
	{Kind: "wrap", Prefix: "outer: ", Inner: &ErrSpec{Kind: "join", Msg: "a", Inner: &ErrSpec{Kind: "ownhttp", Status: 429, Inner: &ErrSpec{Kind: "plain", Msg: "slow down"}}}},
}

// carrierConfig is a carrier under a chain configuration in which its request sequence exists.
type carrierConfig struct {
	cr  *carrier
	cfg string
}

func carrierConfigs() []carrierConfig {
	var out []carrierConfig
	for _, cfgName := range configs {
		for i := range carriers {
			if carriers[i].runsUnder(cfgName) {
				out = append(out, carrierConfig{&carriers[i], cfgName})
			}
		}
	}
	return out
}

func generate(rn *runner, cfg *hx.Config) {
	rnd := cfg.Rand()
	// 1. every standard value through every carrier, 1..3 hops, under the first configuration
	//    the carrier runs under; the further (carrier, configuration) pairs with configProbes
	for _, cc := range carrierConfigs() {
		first := cc.cr.Only != "" || cc.cfg == configs[0]
		if first {
			for _, s := range stds {
				rn.scenario(scenario{Err: &ErrSpec{Kind: "std", Std: s.Name}, Carrier: cc.cr.Name, Hops: maxHops, Config: cc.cfg}, "std")
			}
		} else if cc.cfg == "auth" {
			for _, e := range authProbes {
				rn.scenario(scenario{Err: e, Carrier: cc.cr.Name, Hops: maxHops, Config: cc.cfg}, "auth-probe")
			}
		} else {
			for _, e := range configProbes {
				rn.scenario(scenario{Err: e, Carrier: cc.cr.Name, Hops: maxHops, Config: cc.cfg}, "config-probe")
			}
		}
	}
	for _, cn := range []string{"GetTag", "ResolveTag", "PushManifest", "Tags", "CommitCommit"} {
		for _, e := range authProbesFew {
			rn.scenario(scenario{Err: e, Carrier: cn, Hops: maxHops, Config: "auth"}, "auth-probe")
		}
	}
	// 1b. error values that are not the library's types: every standard code as a value of the
	//     harness's own Error type, and own / joined shapes over one carrier of every method kind
	for _, v := range stds {
		for _, cn := range []string{"GetManifest", "DeleteTag", "Tags"} {
			rn.scenario(scenario{Err: &ErrSpec{Kind: "own", Code: v.Err.Code(), Msg: "refused by policy", Detail: `{"hint":"ask the owner"}`},
				Carrier: cn, Hops: maxHops}, "own-type")
		}
	}
	for _, e := range ownProbes {
		for _, cn := range []string{"GetBlob", "ResolveManifest", "PushManifest", "DeleteBlob", "Referrers", "PatchWrite"} {
			rn.scenario(scenario{Err: e, Carrier: cn, Hops: maxHops}, "own-type")
		}
	}
	// 1c. custom codes that are near misses of a table code (the lower-case spelling of every
	//     one, plus two further spellings each, rotating): bare (500 expected) and under an HTTP
	//     wrapper whose status is not the neighbour's table status, over a body and a HEAD carrier
	for i, v := range stds {
		std := v.Err.Code()
		nm := nearMisses(std)
		seen := map[string]bool{std: true}
		for j, code := range []string{nm[0], nm[1+(2*i)%(len(nm)-1)], nm[1+(2*i+1)%(len(nm)-1)]} {
			if seen[code] {
				continue
			}
			seen[code] = true
			kind := []string{"wire", "own"}[(i+j)%2]
			st := statuses[(i+3*j)%len(statuses)]
			if _, tableStatus := ociregistry.MarshalError(v.Err); st == tableStatus {
				st = 418
			}
			bare := &ErrSpec{Kind: kind, Code: code, Msg: "near miss"}
			wrapped := &ErrSpec{Kind: "http", Status: st, Inner: &ErrSpec{Kind: kind, Code: code, Msg: prefixText(code) + ": near miss", Detail: `{"n":1}`}}
			for _, cn := range []string{"GetManifest", "ResolveTag"} {
				rn.scenario(scenario{Err: bare, Carrier: cn, Hops: 2}, "near-miss-code")
				rn.scenario(scenario{Err: wrapped, Carrier: cn, Hops: 2}, "near-miss-code")
			}
		}
	}
	// 2. fixed probes: every wrapper status class over one body carrier, one HEAD carrier, one wrapped carrier
	for _, st := range statuses {
		for _, inner := range []*ErrSpec{nil, {Kind: "std", Std: "BlobUnknown"}, {Kind: "wire", Code: "SOMECODE", Msg: "foo"},
			{Kind: "plain", Msg: "plain failure"}} {
			for _, cn := range []string{"GetTag", "ResolveTag", "CommitCommit"} {
				rn.scenario(scenario{Err: &ErrSpec{Kind: "http", Status: st, Inner: inner}, Carrier: cn, Hops: maxHops}, "status-probe")
			}
		}
		// ... and over the carriers whose path mixes HEAD and body-carrying requests
		for _, inner := range []*ErrSpec{nil, {Kind: "wire", Code: "SOMECODE", Msg: "foo", Detail: `{"a":1}`}} {
			for _, cn := range []string{"GetTagLookup", "GetBlobResolve"} {
				rn.scenario(scenario{Err: &ErrSpec{Kind: "http", Status: st, Inner: inner}, Carrier: cn, Hops: maxHops, Config: "quirks"}, "status-probe")
			}
		}
	}
	// 3. messages that are empty, or exactly / nearly a prefix the code adds (the first wire
	//    message is empty or the bare code text)
	for _, cn := range []string{"GetManifest", "DeleteTag", "Tags", "PushManifest", "ResolveBlob", "PatchClose"} {
		for _, e := range []*ErrSpec{
			{Kind: "plain", Msg: ""},
			{Kind: "plain", Msg: "unknown"},
			{Kind: "plain", Msg: "unknown: "},
			{Kind: "plain", Msg: "unknown: unknown"},
			{Kind: "plain", Msg: "500 Internal Server Error: "},
			{Kind: "plain", Msg: "500 Internal Server Error: unknown"},
			{Kind: "wire", Code: "SOME_CODE", Msg: ""},
			{Kind: "wire", Code: "SOME_CODE", Msg: "some code"},
			{Kind: "wire", Code: "SOME_CODE", Msg: "some code: "},
			{Kind: "wire", Code: "SOME_CODE", Msg: "some code: some code"},
			{Kind: "wire", Code: "BLOB_UNKNOWN", Msg: ""},
			{Kind: "wire", Code: "BLOB_UNKNOWN", Msg: "404 Not Found: blob unknown"},
			{Kind: "wire", Code: "", Msg: ""},
			{Kind: "wire", Code: "", Msg: "(no code)"},
			{Kind: "http", Status: 404, Inner: &ErrSpec{Kind: "plain", Msg: ""}},
			{Kind: "http", Status: 418, Inner: &ErrSpec{Kind: "wire", Code: "TEAPOT", Msg: ""}},
			{Kind: "wrap", Prefix: "unknown: ", Inner: &ErrSpec{Kind: "plain", Msg: ""}},
			{Kind: "wrap", Prefix: "", Inner: &ErrSpec{Kind: "wire", Code: "DENIED", Msg: ""}},
		} {
			rn.scenario(scenario{Err: e, Carrier: cn, Hops: maxHops}, "empty-message")
		}
	}
	// 4. the client's 8 KiB limit on error bodies: bodies of exactly 8192 and 8193 bytes, and a larger one
	for _, cn := range []string{"GetTag", "ResolveTag", "CommitCommit"} {
		for _, target := range []int{8192, 8193, 9000} {
			one, _ := ociregistry.MarshalError(ociregistry.NewError("a", "BLOB_UNKNOWN", nil))
			n := target - len(one) + 1
			e := &ErrSpec{Kind: "wire", Code: "BLOB_UNKNOWN", Msg: strings.Repeat("a", n), Detail: `{"k":1}`}
			if target == 8192 {
				e.Detail = ""
			} else {
				withDetail, _ := ociregistry.MarshalError(ociregistry.NewError("a", "BLOB_UNKNOWN", []byte(e.Detail)))
				e.Msg = strings.Repeat("a", target-len(withDetail)+1)
			}
			rn.scenario(scenario{Err: e, Carrier: cn, Hops: maxHops}, "body-limit")
		}
	}
	// 5. seeded random error trees through random carriers under random configurations
	n := 300
	if cfg.Thorough() {
		n = 4000
	}
	ccs := carrierConfigs()
	for i := 0; i < n; i++ {
		e := randErr(rnd, rnd.Intn(4))
		cc := ccs[rnd.Intn(len(ccs))]
		rn.scenario(scenario{Err: e, Carrier: cc.cr.Name, Hops: maxHops, Config: cc.cfg}, "random")
	}
}
