package main

import (
	"bytes"
	"context"
	"encoding/json"
	"errors"
	"fmt"
	"io"
	"net/http"
	"net/http/httptest"
	"net/url"
	"sync"
	"time"

	"cuelabs.dev/go/oci/ociregistry"
	"cuelabs.dev/go/oci/ociregistry/ociauth"
	"cuelabs.dev/go/oci/ociregistry/ociclient"
	"cuelabs.dev/go/oci/ociregistry/ociserver"
	"github.com/opencontainers/go-digest"
)

// ---- scripted backend -------------------------------------------------------------------

// script says where the innermost backend fails and with what.
type script struct {
	point string // Funcs method name, or "Write" / "Close" / "Commit" on the BlobWriter
	err   error
	big   bool // tags resolve to a manifest above the client's in-memory threshold
}

type backend struct {
	mu  sync.Mutex
	cur script
	// the uploads in progress: ID -> bytes received so far.  The backend keeps them as a real
	// registry does (ocimem): what a request wrote stays written when its commit fails, and a
	// resumed upload refuses data at an offset other than its size with RANGE_INVALID.  So a
	// request that a layer REPLAYS after the scripted failure (a BlobWriter.Close that flushes
	// the chunk a failed Commit left behind) is answered with an error of the backend's own,
	// not with the scripted one: a layer that reports the secondary error instead of the
	// first one changes the identity the caller sees.
	uploads map[string]*upload
	nextID  int
}

type upload struct {
	size int64
}

func (b *backend) upload(id string) *upload {
	b.mu.Lock()
	defer b.mu.Unlock()
	return b.uploadLocked(id)
}

func (b *backend) uploadLocked(id string) *upload {
	if b.uploads == nil {
		b.uploads = map[string]*upload{}
	}
	u := b.uploads[id]
	if u == nil {
		u = &upload{}
		b.uploads[id] = u
	}
	return u
}

// forget drops the uploads of the calls made so far.
func (b *backend) forget() {
	b.mu.Lock()
	b.uploads = nil
	b.mu.Unlock()
}

func (b *backend) set(s script) {
	b.mu.Lock()
	b.cur = s
	b.mu.Unlock()
}

func (b *backend) point() string {
	b.mu.Lock()
	defer b.mu.Unlock()
	return b.cur.point
}

func (b *backend) big() bool {
	b.mu.Lock()
	defer b.mu.Unlock()
	return b.cur.big
}

func (b *backend) at(point string) error {
	b.mu.Lock()
	defer b.mu.Unlock()
	if b.cur.point == point {
		return b.cur.err
	}
	return nil
}

// scriptWriter is the BlobWriter the innermost backend hands out.  Its type name appears in
// the text handleBlobCompleteUpload produces ("failed to copy data to *main.scriptWriter").
type scriptWriter struct {
	b  *backend
	id string
	u  *upload
	// start is the offset the next Write must be at (-1 = no check), as ocimem's Buffer has it
	start int64
}

func (w *scriptWriter) Write(p []byte) (int, error) {
	if err := w.b.at("Write"); err != nil {
		return 0, err
	}
	w.b.mu.Lock()
	defer w.b.mu.Unlock()
	if w.start != -1 {
		if w.u.size != w.start {
			return 0, fmt.Errorf("invalid offset %d in resumed upload (actual offset %d): %w", w.start, w.u.size, ociregistry.ErrRangeInvalid)
		}
		w.start = -1
	}
	w.u.size += int64(len(p))
	return len(p), nil
}
func (w *scriptWriter) Close() error { return w.b.at("Close") }
func (w *scriptWriter) Size() int64 {
	w.b.mu.Lock()
	defer w.b.mu.Unlock()
	return w.u.size
}
func (w *scriptWriter) ChunkSize() int { return 1 }
func (w *scriptWriter) ID() string     { return w.id }
func (w *scriptWriter) Cancel() error  { return nil }
func (w *scriptWriter) Commit(d ociregistry.Digest) (ociregistry.Descriptor, error) {
	if err := w.b.at("Commit"); err != nil {
		return ociregistry.Descriptor{}, err
	}
	return ociregistry.Descriptor{MediaType: "application/octet-stream", Digest: d, Size: w.Size()}, nil
}

type memReader struct {
	*bytes.Reader
	desc ociregistry.Descriptor
}

func (r memReader) Close() error                       { return nil }
func (r memReader) Descriptor() ociregistry.Descriptor { return r.desc }

var (
	blobData   = []byte("hello")
	blobDigest = ociregistry.Digest("sha256:2cf24dba5fb0a30e26e83b2ac5b9e29e1b161e5c1fa7425e73043362938b9824")
	blobDesc   = ociregistry.Descriptor{MediaType: "application/octet-stream", Digest: blobDigest, Size: 5}

	// a manifest one byte above ociclient's inMemThreshold (128 KiB): a client that gets it
	// without a digest header asks for the digest with a HEAD request
	bigManifest = func() []byte {
		head := []byte(`{"schemaVersion":2,"annotations":{"pad":"`)
		tail := []byte(`"}}`)
		pad := bytes.Repeat([]byte("x"), 128*1024+1-len(head)-len(tail))
		return append(append(head, pad...), tail...)
	}()
	bigDesc = ociregistry.Descriptor{MediaType: "application/vnd.oci.image.manifest.v1+json",
		Digest: digest.FromBytes(bigManifest), Size: int64(len(bigManifest))}
)

// thenError yields the items and then the error.
func thenError[T any](err error, items ...T) ociregistry.Seq[T] {
	return func(yield func(T, error) bool) {
		for _, it := range items {
			if !yield(it, nil) {
				return
			}
		}
		yield(*new(T), err)
	}
}

func (b *backend) funcs() *ociregistry.Funcs {
	reader := func(point string) (ociregistry.BlobReader, error) {
		if err := b.at(point); err != nil {
			return nil, err
		}
		return memReader{bytes.NewReader(blobData), blobDesc}, nil
	}
	desc := func(point string) (ociregistry.Descriptor, error) {
		if err := b.at(point); err != nil {
			return ociregistry.Descriptor{}, err
		}
		return blobDesc, nil
	}
	return &ociregistry.Funcs{
		GetBlob_: func(ctx context.Context, repo string, d ociregistry.Digest) (ociregistry.BlobReader, error) {
			return reader("GetBlob")
		},
		GetBlobRange_: func(ctx context.Context, repo string, d ociregistry.Digest, o0, o1 int64) (ociregistry.BlobReader, error) {
			return reader("GetBlobRange")
		},
		GetManifest_: func(ctx context.Context, repo string, d ociregistry.Digest) (ociregistry.BlobReader, error) {
			return reader("GetManifest")
		},
		GetTag_: func(ctx context.Context, repo string, tag string) (ociregistry.BlobReader, error) {
			if err := b.at("GetTag"); err == nil && b.big() {
				return memReader{bytes.NewReader(bigManifest), bigDesc}, nil
			}
			return reader("GetTag")
		},
		ResolveBlob_: func(ctx context.Context, repo string, d ociregistry.Digest) (ociregistry.Descriptor, error) {
			return desc("ResolveBlob")
		},
		ResolveManifest_: func(ctx context.Context, repo string, d ociregistry.Digest) (ociregistry.Descriptor, error) {
			return desc("ResolveManifest")
		},
		ResolveTag_: func(ctx context.Context, repo string, tag string) (ociregistry.Descriptor, error) {
			if err := b.at("ResolveTag"); err == nil && b.big() {
				return bigDesc, nil
			}
			return desc("ResolveTag")
		},
		PushBlob_: func(ctx context.Context, repo string, d ociregistry.Descriptor, r io.Reader) (ociregistry.Descriptor, error) {
			return desc("PushBlob")
		},
		PushBlobChunked_: func(ctx context.Context, repo string, chunkSize int) (ociregistry.BlobWriter, error) {
			if err := b.at("PushBlobChunked"); err != nil {
				return nil, err
			}
			b.mu.Lock()
			b.nextID++
			id := fmt.Sprintf("uid-%d", b.nextID)
			u := b.uploadLocked(id)
			b.mu.Unlock()
			return &scriptWriter{b: b, id: id, u: u, start: 0}, nil
		},
		PushBlobChunkedResume_: func(ctx context.Context, repo, id string, offset int64, chunkSize int) (ociregistry.BlobWriter, error) {
			if err := b.at("PushBlobChunkedResume"); err != nil {
				return nil, err
			}
			return &scriptWriter{b: b, id: id, u: b.upload(id), start: offset}, nil
		},
		MountBlob_: func(ctx context.Context, fromRepo, toRepo string, d ociregistry.Digest) (ociregistry.Descriptor, error) {
			return desc("MountBlob")
		},
		PushManifest_: func(ctx context.Context, repo string, tag string, contents []byte, mediaType string) (ociregistry.Descriptor, error) {
			return desc("PushManifest")
		},
		DeleteBlob_: func(ctx context.Context, repo string, d ociregistry.Digest) error {
			return b.at("DeleteBlob")
		},
		DeleteManifest_: func(ctx context.Context, repo string, d ociregistry.Digest) error {
			return b.at("DeleteManifest")
		},
		DeleteTag_: func(ctx context.Context, repo string, name string) error {
			return b.at("DeleteTag")
		},
		Repositories_: func(ctx context.Context, startAfter string) ociregistry.Seq[string] {
			if err := b.at("Repositories"); err != nil {
				return ociregistry.ErrorSeq[string](err)
			}
			if err := b.at("RepositoriesMid"); err != nil {
				return thenError(err, "foo/a")
			}
			if startAfter != "" {
				// a later page of the listing fails (the clients of the chain ask for 2 items a page)
				if err := b.at("RepositoriesLater"); err != nil {
					return ociregistry.ErrorSeq[string](err)
				}
			}
			if b.point() == "RepositoriesLater" {
				return ociregistry.SliceSeq([]string{"foo/a", "foo/b", "foo/bar", "foo/c", "foo/d"})
			}
			return ociregistry.SliceSeq([]string{"foo/bar"})
		},
		Tags_: func(ctx context.Context, repo string, startAfter string) ociregistry.Seq[string] {
			if err := b.at("Tags"); err != nil {
				return ociregistry.ErrorSeq[string](err)
			}
			if err := b.at("TagsMid"); err != nil {
				return thenError(err, "t1")
			}
			if startAfter != "" {
				if err := b.at("TagsLater"); err != nil {
					return ociregistry.ErrorSeq[string](err)
				}
			}
			if b.point() == "TagsLater" {
				return ociregistry.SliceSeq([]string{"t1", "t2", "t3", "t4", "t5"})
			}
			return ociregistry.SliceSeq([]string{"t1"})
		},
		Referrers_: func(ctx context.Context, repo string, d ociregistry.Digest, artifactType string) ociregistry.Seq[ociregistry.Descriptor] {
			if err := b.at("Referrers"); err != nil {
				return ociregistry.ErrorSeq[ociregistry.Descriptor](err)
			}
			if err := b.at("ReferrersMid"); err != nil {
				return thenError(err, blobDesc)
			}
			return ociregistry.SliceSeq([]ociregistry.Descriptor{blobDesc})
		},
	}
}

// ---- recording middleware ---------------------------------------------------------------

// wireRec is one error response as the handler wrote it (before net/http strips a HEAD body).
type wireRec struct {
	Method string `json:"method"`
	Status int    `json:"status"`
	CType  string `json:"ctype"`
	Body   []byte `json:"body"`
}

// inflight counts the handlers of a chain that are running.  Every request inside a chain is
// made by the caller or by a running handler, so "the caller is back and no handler runs" means
// that nothing of the call is left that could reach a server (or the backend) later.
type inflight struct {
	mu sync.Mutex
	n  int
}

func (f *inflight) add(d int) {
	f.mu.Lock()
	f.n += d
	f.mu.Unlock()
}

// wait returns when no handler of the chain is running.
func (f *inflight) wait() {
	for {
		f.mu.Lock()
		n := f.n
		f.mu.Unlock()
		if n == 0 {
			return
		}
		time.Sleep(200 * time.Microsecond)
	}
}

// recorder keeps the responses of one level in the order in which the REQUESTS ARRIVED (a slot
// is taken when the handler starts and filled when it returns).  The order in which handlers
// finish is not usable: net/http may flush a large response before the handler returns, so the
// client can be back, and its next request answered, before the first handler has finished.
type recorder struct {
	mu   sync.Mutex
	recs []*wireRec
	fl   *inflight
}

func (r *recorder) reset() {
	r.mu.Lock()
	r.recs = nil
	r.mu.Unlock()
}

// first returns the error response to the first request (in arrival order) since the last reset
// that was answered with one: the failure that propagates (a handler's deferred BlobWriter.Close
// may provoke further, ignored, failures below it; those requests are made after the response
// to the first one was received).  To be called when the chain is quiet (inflight.wait).
func (r *recorder) first() (wireRec, bool) {
	r.mu.Lock()
	defer r.mu.Unlock()
	for _, rec := range r.recs {
		if rec.Status >= 400 || rec.Status < 0 {
			return *rec, true
		}
	}
	return wireRec{}, false
}

type recWriter struct {
	http.ResponseWriter
	status int
	body   bytes.Buffer
}

func (w *recWriter) WriteHeader(st int) {
	if w.status == 0 {
		w.status = st
	}
	w.ResponseWriter.WriteHeader(st)
}

func (w *recWriter) Write(p []byte) (int, error) {
	if w.status == 0 {
		w.status = 200
	}
	if w.status >= 400 {
		w.body.Write(p)
	}
	return w.ResponseWriter.Write(p)
}

func (r *recorder) wrap(h http.Handler) http.Handler {
	return http.HandlerFunc(func(w http.ResponseWriter, req *http.Request) {
		r.fl.add(1)
		defer r.fl.add(-1)
		slot := &wireRec{Method: req.Method}
		r.mu.Lock()
		r.recs = append(r.recs, slot)
		r.mu.Unlock()
		rw := &recWriter{ResponseWriter: w}
		defer func() {
			if p := recover(); p != nil {
				r.mu.Lock()
				slot.Status, slot.Body = -1, []byte(fmt.Sprint(p))
				r.mu.Unlock()
				panic(p)
			}
			r.mu.Lock()
			slot.Status = rw.status
			if rw.status >= 400 {
				slot.CType = rw.Header().Get("Content-Type")
				slot.Body = append([]byte(nil), rw.body.Bytes()...)
			}
			r.mu.Unlock()
		}()
		h.ServeHTTP(rw, req)
	})
}

// ---- the chain: backend <- server1 <- client1 <- server2 <- client2 <- server3 <- client3 ----

const maxHops = 3

type chain struct {
	cfg     string
	b       *backend
	servers []*httptest.Server
	recs    []*recorder
	clients []ociregistry.Interface
	fl      *inflight
}

// The chain configurations.  "" is ociserver's default.  "quirks" switches on, at every level,
// the server options that change the request sequence between a client and a server:
//   - OmitDigestFromTagGetResponse: a tag GET answers without a digest; the client computes it
//     from the body, or asks with a follow-up HEAD when the manifest is above 128 KiB;
//   - OmitLinkHeaderFromResponses: the client's pager builds the next-page request itself;
//   - LocationsForDescriptor: a blob GET resolves the blob first and answers with a redirect
//     to a second server of the same level (same backend, same recorder, no redirects);
//   - DisableSinglePostUpload and a MaxListPageSize above the clients' page size.
//
// "auth" puts ociauth's standard transport (ociauth.NewStdTransport, no credentials configured
// for any host) between every client and its server, and makes the servers answer as registries
// that ask for authentication do: level 1 and 3 add a Basic challenge to their error responses
// (nothing to present: the transport hands the 401 back), level 2 a scheme the transport does
// not know (no usable challenge).  The transport must be invisible to the error.
var configs = []string{"", "quirks", "auth"}

var authChallenges = []string{`Basic realm="c07 level 1"`, `Negotiate`, `Basic realm="c07 level 3", charset="UTF-8"`}

func newChain(cfg string) *chain {
	c := &chain{cfg: cfg, b: &backend{}, fl: &inflight{}}
	var inner ociregistry.Interface = c.b.funcs()
	for i := 0; i < maxHops; i++ {
		rec := &recorder{fl: c.fl}
		var opts *ociserver.Options
		if cfg == "quirks" {
			o := ociserver.Options{
				OmitDigestFromTagGetResponse: true,
				OmitLinkHeaderFromResponses:  true,
				DisableSinglePostUpload:      true,
				MaxListPageSize:              1000,
			}
			direct := httptest.NewServer(rec.wrap(ociserver.New(inner, &o)))
			c.servers = append(c.servers, direct)
			o.LocationsForDescriptor = func(isManifest bool, desc ociregistry.Descriptor) ([]string, error) {
				if isManifest {
					return nil, nil
				}
				return []string{direct.URL + "/v2/" + repo + "/blobs/" + string(desc.Digest)}, nil
			}
			opts = &o
		}
		copts := &ociclient.Options{Insecure: true, ListPageSize: 2}
		if cfg == "auth" {
			challenge := authChallenges[i%len(authChallenges)]
			opts = &ociserver.Options{WriteError: func(w http.ResponseWriter, _ *http.Request, err error) {
				w.Header().Set("WWW-Authenticate", challenge)
				ociregistry.WriteError(w, err)
			}}
			copts.Transport = ociauth.NewStdTransport(ociauth.StdTransportParams{})
		}
		srv := httptest.NewServer(rec.wrap(ociserver.New(inner, opts)))
		u, _ := url.Parse(srv.URL)
		cl, err := ociclient.New(u.Host, copts)
		if err != nil {
			panic(err)
		}
		c.servers = append(c.servers, srv)
		c.recs = append(c.recs, rec)
		c.clients = append(c.clients, cl)
		inner = cl
	}
	return c
}

func (c *chain) close() {
	for _, s := range c.servers {
		s.Close()
	}
}

func (c *chain) resetRecs() {
	for _, r := range c.recs {
		r.reset()
	}
}

// ---- JSON helpers -------------------------------------------------------------------------

// canon canonicalises a JSON value (the detail is compared semantically).
func canon(raw []byte) (string, bool) {
	if len(raw) == 0 {
		return "", false
	}
	var v any
	dec := json.NewDecoder(bytes.NewReader(raw))
	dec.UseNumber()
	if err := dec.Decode(&v); err != nil {
		return "!invalid:" + string(raw), true
	}
	out, err := json.Marshal(v)
	if err != nil {
		return "!invalid:" + string(raw), true
	}
	return string(out), true
}

type wireBody struct {
	Errors []struct {
		Code    string          `json:"code"`
		Message string          `json:"message"`
		Detail  json.RawMessage `json:"detail"`
	} `json:"errors"`
}

var errNoError = errors.New("harness: call returned no error")
