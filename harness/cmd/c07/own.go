package main

import (
	"encoding/json"
	"errors"
	"net/http"
	"strconv"
	"strings"
	"unicode"

	"cuelabs.dev/go/oci/ociregistry"
)

// Error types of the harness's OWN: a registry is free to return any type that conforms to
// ociregistry.Error and / or ociregistry.HTTPError (the documented contract of MarshalError and
// ociserver.New); none of them is, or wraps, a *ociregistry.WireError or the library's httpError.
// Their Error() texts and Is methods are written out here independently, in the registry
// convention the library's own types follow (Docker distribution's errcode format), so that
// they are the model's Wire / Http values in everything but the concrete type.

// codeText is "blob unknown" for BLOB_UNKNOWN, "(no code)" for the empty code.
func codeText(code string) string {
	if code == "" {
		return "(no code)"
	}
	return strings.Map(func(r rune) rune {
		if r == '_' {
			return ' '
		}
		return unicode.ToLower(r)
	}, code)
}

func statusPrefix(st int) string { return strconv.Itoa(st) + " " + http.StatusText(st) }

// ownError conforms to ociregistry.Error only.
type ownError struct {
	code   string
	msg    string
	detail json.RawMessage
}

func (e *ownError) Error() string {
	if e.msg == "" {
		return codeText(e.code)
	}
	return codeText(e.code) + ": " + e.msg
}
func (e *ownError) Code() string            { return e.code }
func (e *ownError) Detail() json.RawMessage { return e.detail }
func (e *ownError) Is(target error) bool {
	var t ociregistry.Error
	return errors.As(target, &t) && t.Code() == e.code
}

// ownHTTPError conforms to ociregistry.HTTPError only; it wraps inner (may be nil).
type ownHTTPError struct {
	status int
	inner  error
}

func (e *ownHTTPError) Error() string {
	if e.inner == nil {
		return statusPrefix(e.status)
	}
	return statusPrefix(e.status) + ": " + e.inner.Error()
}
func (e *ownHTTPError) Unwrap() error             { return e.inner }
func (e *ownHTTPError) StatusCode() int           { return e.status }
func (e *ownHTTPError) Response() *http.Response  { return nil }
func (e *ownHTTPError) ResponseBody() []byte      { return nil }
func (e *ownHTTPError) Is(target error) bool {
	return e.status == http.StatusRequestedRangeNotSatisfiable && target == error(ociregistry.ErrRangeInvalid)
}

// ownBothError is one value conforming to both interfaces.
type ownBothError struct {
	ownError
	status int
}

func (e *ownBothError) Error() string            { return statusPrefix(e.status) + ": " + e.ownError.Error() }
func (e *ownBothError) StatusCode() int          { return e.status }
func (e *ownBothError) Response() *http.Response { return nil }
func (e *ownBothError) ResponseBody() []byte     { return nil }
func (e *ownBothError) Is(target error) bool {
	if e.status == http.StatusRequestedRangeNotSatisfiable && target == error(ociregistry.ErrRangeInvalid) {
		return true
	}
	return e.ownError.Is(target)
}

var (
	_ ociregistry.Error     = (*ownError)(nil)
	_ ociregistry.HTTPError = (*ownHTTPError)(nil)
	_ ociregistry.Error     = (*ownBothError)(nil)
	_ ociregistry.HTTPError = (*ownBothError)(nil)
)
