// Harness for C07: scripted backend errors behind real ociserver / ociclient pairs over
// httptest loopback servers, 1..3 hops, every Interface method as the carrier.
package main

import (
	"context"
	"encoding/json"
	"errors"
	"fmt"
	"net/http"
	"os"
	"strings"

	"cuelabs.dev/go/oci/ociregistry"
	"verif/harness/hx"
)

// ---- error specifications -----------------------------------------------------------------

// ErrSpec is the JSON-able description of a Go error value (the model's gerr).
type ErrSpec struct {
	// std | wire | wrap | http | plain, and the values of types of the harness's own (own.go):
	// own (conforms to ociregistry.Error), ownhttp (to ociregistry.HTTPError, wraps Inner or nil),
	// ownboth (one value conforming to both), join (errors.Join(errors.New(Msg), Inner))
	Kind   string   `json:"kind"`
	Std    string   `json:"std,omitempty"`
	Code   string   `json:"code,omitempty"`
	Msg    string   `json:"msg,omitempty"`
	Detail string   `json:"detail,omitempty"` // raw JSON, "" = none
	Prefix string   `json:"prefix,omitempty"`
	Status int      `json:"status,omitempty"`
	Inner  *ErrSpec `json:"inner,omitempty"`
}

type stdVal struct {
	Name string // Coq constructor S<Name>
	Err  ociregistry.Error
}

var stds = []stdVal{
	{"BlobUnknown", ociregistry.ErrBlobUnknown},
	{"BlobUploadInvalid", ociregistry.ErrBlobUploadInvalid},
	{"BlobUploadUnknown", ociregistry.ErrBlobUploadUnknown},
	{"DigestInvalid", ociregistry.ErrDigestInvalid},
	{"ManifestBlobUnknown", ociregistry.ErrManifestBlobUnknown},
	{"ManifestInvalid", ociregistry.ErrManifestInvalid},
	{"ManifestUnknown", ociregistry.ErrManifestUnknown},
	{"NameInvalid", ociregistry.ErrNameInvalid},
	{"NameUnknown", ociregistry.ErrNameUnknown},
	{"SizeInvalid", ociregistry.ErrSizeInvalid},
	{"Unauthorized", ociregistry.ErrUnauthorized},
	{"Denied", ociregistry.ErrDenied},
	{"Unsupported", ociregistry.ErrUnsupported},
	{"TooManyRequests", ociregistry.ErrTooManyRequests},
	{"RangeInvalid", ociregistry.ErrRangeInvalid},
}

func stdByName(n string) *stdVal {
	for i := range stds {
		if stds[i].Name == n {
			return &stds[i]
		}
	}
	return nil
}

// build makes the real Go error and the Coq term of the same value.
func (s *ErrSpec) build() (error, string) {
	switch s.Kind {
	case "std":
		v := stdByName(s.Std)
		if v == nil {
			panic("unknown std " + s.Std)
		}
		return v.Err, "(EStd S" + v.Name + ")"
	case "wire":
		var detail json.RawMessage
		dterm := "None"
		if s.Detail != "" {
			detail = json.RawMessage(s.Detail)
			c, _ := canon(detail)
			dterm = "(Some " + pb(c) + ")"
		}
		return ociregistry.NewError(s.Msg, s.Code, detail),
			fmt.Sprintf("(EWire (W %s %s %s))", pb(s.Code), pb(s.Msg), dterm)
	case "wrap":
		e, t := s.Inner.build()
		return fmt.Errorf("%s%w", s.Prefix, e), fmt.Sprintf("(EWrap %s %s)", pb(s.Prefix), t)
	case "http":
		if s.Inner == nil {
			return ociregistry.NewHTTPError(nil, s.Status, nil, nil), fmt.Sprintf("(EHttpNil %s)", hx.Z(int64(s.Status)))
		}
		e, t := s.Inner.build()
		return ociregistry.NewHTTPError(e, s.Status, nil, nil), fmt.Sprintf("(EHttp %s %s)", hx.Z(int64(s.Status)), t)
	case "plain":
		return errors.New(s.Msg), "(EPlain " + pb(s.Msg) + ")"
	case "own", "ownboth":
		var detail json.RawMessage
		dterm := "None"
		if s.Detail != "" {
			detail = json.RawMessage(s.Detail)
			c, _ := canon(detail)
			dterm = "(Some " + pb(c) + ")"
		}
		own := ownError{code: s.Code, msg: s.Msg, detail: detail}
		w := fmt.Sprintf("(W %s %s %s)", pb(s.Code), pb(s.Msg), dterm)
		if s.Kind == "own" {
			return &own, "(EOwn " + w + ")"
		}
		return &ownBothError{ownError: own, status: s.Status}, fmt.Sprintf("(EOwnBoth %s %s)", hx.Z(int64(s.Status)), w)
	case "ownhttp":
		if s.Inner == nil {
			return &ownHTTPError{status: s.Status}, fmt.Sprintf("(EOwnHttpNil %s)", hx.Z(int64(s.Status)))
		}
		e, t := s.Inner.build()
		return &ownHTTPError{status: s.Status, inner: e}, fmt.Sprintf("(EOwnHttp %s %s)", hx.Z(int64(s.Status)), t)
	case "join":
		// errors.Join(a, b): Error() = a.Error() + "\n" + b.Error(), Unwrap() []error = [a, b],
		// errors.Is / errors.As try a (uncoded, no status) first, then b: for every observable
		// the value fmt.Errorf(Msg + "\n%w", b) is
		e, t := s.Inner.build()
		return errors.Join(errors.New(s.Msg), e), fmt.Sprintf("(EWrap %s %s)", pb(s.Msg+"\n"), t)
	}
	panic("unknown error kind " + s.Kind)
}

func (s *ErrSpec) shape() string {
	switch s.Kind {
	case "wrap", "http", "ownhttp", "join":
		if s.Inner == nil {
			return s.Kind + "(nil)"
		}
		return s.Kind + "(" + s.Inner.shape() + ")"
	}
	return s.Kind
}

// ---- observation ------------------------------------------------------------------------------

// view is what a caller can see of an error value.
type view struct {
	Is     []bool  `json:"is"`
	Status *int    `json:"status"` // errors.As HTTPError
	Resp   bool    `json:"resp"`   // HTTPError.Response() != nil
	Code   *string `json:"code"`   // errors.As Error
	Detail *string `json:"detail"` // canonical JSON
	Msg    *string `json:"msg"`    // errors.As *WireError -> Message
	Text   string  `json:"text"`
}

func observe(err error) view {
	v := view{Text: err.Error()}
	for _, s := range stds {
		v.Is = append(v.Is, errors.Is(err, s.Err))
	}
	var he ociregistry.HTTPError
	if errors.As(err, &he) {
		st := he.StatusCode()
		v.Status = &st
		v.Resp = he.Response() != nil
	}
	var oe ociregistry.Error
	if errors.As(err, &oe) {
		c := oe.Code()
		v.Code = &c
		if d, ok := canon(oe.Detail()); ok {
			v.Detail = &d
		}
	}
	var we *ociregistry.WireError
	if errors.As(err, &we) {
		m := we.Message
		v.Msg = &m
	}
	return v
}

// pb is hx.B with one scope annotation for the whole word list instead of one per word: case
// files are a sixth smaller and parsed measurably faster.
func pb(s string) string {
	if s == "" {
		return "[]"
	}
	var sb strings.Builder
	fmt.Fprintf(&sb, "(p %d [", len(s))
	for i := 0; i < len(s); i += 7 {
		end := i + 7
		if end > len(s) {
			end = len(s)
		}
		var w uint64
		for j := i; j < end; j++ {
			w = w<<8 | uint64(s[j])
		}
		if i > 0 {
			sb.WriteString("; ")
		}
		fmt.Fprintf(&sb, "%d", w)
	}
	sb.WriteString("]%uint63)")
	return sb.String()
}

func optZ(p *int) string {
	if p == nil {
		return "None"
	}
	return "(Some " + hx.Z(int64(*p)) + ")"
}

func optB(p *string) string {
	if p == nil {
		return "None"
	}
	return "(Some " + pb(*p) + ")"
}

// bools renders the errors.Is answers as Obs.C07.isbits of a bit mask (bit i = stds[i]).
func bools(bs []bool) string {
	m := 0
	for i, b := range bs {
		if b {
			m |= 1 << i
		}
	}
	return fmt.Sprintf("(isbits %d)", m)
}

// positional record constructors: shorter to parse than the field syntax
func (v view) coq() string {
	return fmt.Sprintf("(Build_view %s %s %s %s %s %s %s)",
		bools(v.Is), optZ(v.Status), hx.Bool(v.Resp), optB(v.Code), optB(v.Detail), optB(v.Msg), pb(v.Text))
}

// callObs is one call through k hops: the caller's view plus the error response of every level.
type callObs struct {
	K       int       `json:"hops"`
	Bad     string    `json:"bad,omitempty"`
	Lens    []int     `json:"body_lens,omitempty"`
	WStatus int       `json:"wire_status,omitempty"`
	WCode   string    `json:"wire_code,omitempty"`
	WMsg    string    `json:"wire_msg,omitempty"`
	WDetail *string   `json:"wire_detail,omitempty"`
	Wires   []wireRec `json:"-"`
	View    *view     `json:"view,omitempty"`
}

func (o callObs) coq() string {
	if o.Bad != "" {
		return "(OBad " + pb(o.Bad) + ")"
	}
	lens := make([]string, len(o.Lens))
	for i, n := range o.Lens {
		lens[i] = hx.Z(int64(n))
	}
	return fmt.Sprintf("(OCall (Build_callrec %s %s %s %s %s %s))",
		hx.List(lens), hx.Z(int64(o.WStatus)), pb(o.WCode), pb(o.WMsg), optB(o.WDetail), o.View.coq())
}

// call runs carrier cr through the first k levels of the chain with the backend failing.
func call(c *chain, cr *carrier, k int, e error) (o callObs) {
	o.K = k
	ctx := context.Background()
	r := c.clients[k-1]
	c.fl.wait()
	c.b.set(script{})
	c.b.forget()
	id := ""
	if cr.prep != nil {
		var err error
		id, err = cr.prep(ctx, r)
		c.fl.wait()
		if err != nil {
			o.Bad = err.Error()
			return
		}
	}
	c.resetRecs()
	c.b.set(script{point: cr.Point, err: e, big: cr.Big})
	var err error
	panicked, pv := hx.Recover(func() { err = cr.run(ctx, r, id) })
	// the caller is back; handlers may still be running (a response flushed before its handler
	// returned, deferred BlobWriter.Close calls): let them finish under the script of THIS call,
	// so that nothing of it reaches the records or the backend state of the next one
	c.fl.wait()
	c.b.set(script{})
	if panicked {
		o.Bad = "client panic: " + pv
		return
	}
	if err == errNoError {
		o.Bad = "no error returned"
		return
	}
	for lvl := 0; lvl < k; lvl++ {
		rec, ok := c.recs[lvl].first()
		if !ok {
			o.Bad = fmt.Sprintf("no error response at level %d; client error: %v", lvl+1, err)
			return
		}
		if rec.Status < 0 {
			o.Bad = fmt.Sprintf("handler panic at level %d: %s", lvl+1, rec.Body)
			return
		}
		if want := cr.methodAt(lvl, k); rec.Method != want {
			o.Bad = fmt.Sprintf("level %d answered a %s, expected %s", lvl+1, rec.Method, want)
			return
		}
		o.Lens = append(o.Lens, len(rec.Body))
		if lvl == k-1 {
			var wb wireBody
			if jerr := json.Unmarshal(rec.Body, &wb); jerr != nil || len(wb.Errors) != 1 ||
				rec.CType != "application/json" {
				o.Bad = fmt.Sprintf("level %d wrote an unexpected body %q (%s)", lvl+1, rec.Body, rec.CType)
				return
			}
			o.WStatus = rec.Status
			o.WCode = wb.Errors[0].Code
			o.WMsg = wb.Errors[0].Message
			if d, ok := canon(wb.Errors[0].Detail); ok {
				o.WDetail = &d
			}
		}
	}
	v := observe(err)
	o.View = &v
	return
}

// ---- scenarios and cases ----------------------------------------------------------------------

type scenario struct {
	Err     *ErrSpec `json:"err"`
	Carrier string   `json:"carrier"`
	Hops    int      `json:"hops"`
	Config  string   `json:"config,omitempty"` // chain configuration, "" = default server options
}

var fields = []string{"Status", "Is", "Detail", "Message", "Head"}

type runner struct {
	chains map[string]*chain
	out    *hx.Out
}

var configTerms = map[string]string{"": "KDefault", "quirks": "KQuirks", "auth": "KAuth"}

func (rn *runner) scenario(sc scenario, origin string) {
	cr := carrierByName(sc.Carrier)
	ch := rn.chains[sc.Config]
	if cr == nil || ch == nil || sc.Err == nil || sc.Hops < 1 || sc.Hops > maxHops || !cr.runsUnder(sc.Config) {
		return
	}
	sc.Hops = cr.hops(sc.Hops)
	e, term := sc.Err.build()
	v0 := observe(e)
	var calls []callObs
	var callTerms []string
	for k := 1; k <= sc.Hops; k++ {
		o := call(ch, cr, k, e)
		calls = append(calls, o)
		callTerms = append(callTerms, o.coq())
	}
	// tags derived from the observations and the carrier (never from the model); "finding" is
	// computed exactly as Obs.C07.finding_of
	kind := cr.kind()
	msg1 := "none"
	ambig := false
	if len(calls) > 0 && calls[0].Bad == "" {
		if calls[0].WMsg == "" {
			msg1 = "empty"
		} else {
			msg1 = "nonempty"
		}
		// status 416 answers Is(ErrRangeInvalid) by itself: differs from the original's answer?
		after := calls[0].WStatus == http.StatusRequestedRangeNotSatisfiable || calls[0].WCode == "RANGE_INVALID"
		ambig = after != v0.Is[len(v0.Is)-1]
	}
	oversize := false
	for _, o := range calls {
		if o.Bad != "" {
			continue
		}
		for _, n := range o.Lens {
			if n > 8192 {
				oversize = true
			}
		}
	}
	finding := func(f string) string {
		head := kind == "HEAD"
		heads := kind != "body" // a HEAD request at some level
		switch f {
		case "Head":
			if kind == "mixed" && oversize {
				return "oversize-body"
			}
		case "Is":
			switch {
			case heads:
				return "head-identity"
			case oversize:
				return "oversize-body"
			case ambig:
				return "is-416-status"
			}
		case "Detail":
			switch {
			case heads:
				return "head-detail"
			case oversize:
				return "oversize-body"
			}
		case "Message":
			switch {
			case head:
				return "none"
			case oversize:
				return "oversize-body"
			case cr.OpWrap:
				return "upload-message-accumulates"
			}
		}
		return "none"
	}
	for _, f := range fields {
		if f == "Head" && kind == "body" {
			continue
		}
		coq := fmt.Sprintf("(Build_case %s %s C%s F%s %s %s)",
			term, configTerms[sc.Config], cr.Name, f, v0.coq(), hx.List(callTerms))
		class := cr.Name + "/" + f
		if sc.Config != "" {
			class = cr.Name + "@" + sc.Config + "/" + f
		}
		tags := map[string]any{
			"class":        class,
			"config":       sc.Config,
			"carrier":      cr.Name,
			"carrier_kind": kind,
			"method":       cr.Method,
			"field":        strings.ToLower(f),
			"opwrap":       cr.OpWrap,
			"msg1":         msg1,
			"ambig416":     ambig,
			"oversize":     oversize,
			"finding":      finding(f),
		}
		desc := map[string]any{"scenario": sc, "field": f, "original": v0, "calls": calls, "origin": origin}
		if rn.out.Add(hx.Case{Coq: coq, Desc: desc, Tags: tags}) {
			rn.out.Count("field:" + f)
			if f == "Status" {
				rn.out.Count("carrier:" + cr.Name)
				rn.out.Count("config:" + sc.Config)
				rn.out.Count("carrier_kind:" + kind)
				rn.out.Count("method:" + cr.Method)
				rn.out.Count("shape:" + sc.Err.shape())
				rn.out.Count(fmt.Sprintf("hops:%d", sc.Hops))
				rn.out.Count("origin:" + origin)
				rn.out.Count("msg1:" + msg1)
				rn.out.Count(fmt.Sprintf("oversize:%v", oversize))
				rn.out.Count(fmt.Sprintf("ambig416:%v", ambig))
			}
		}
	}
}

func main() {
	cfg := hx.ParseFlags()
	out := hx.NewOut(cfg, "Obs.C07")
	rn := &runner{chains: map[string]*chain{}, out: out}
	for _, cfgName := range configs {
		c := newChain(cfgName)
		defer c.close()
		rn.chains[cfgName] = c
	}
	// one shard per evaluation worker of the driver (16), within bounds
	flush := func() error {
		out.ShardMax = min(max((out.Len()+15)/16, 100), 400)
		return out.Flush()
	}

	type replayFile struct {
		Scenario scenario `json:"scenario"`
	}
	if cfg.Replay != "" {
		b, err := os.ReadFile(cfg.Replay)
		if err != nil {
			panic(err)
		}
		var r replayFile
		if err := json.Unmarshal(b, &r); err != nil {
			panic(err)
		}
		rn.scenario(r.Scenario, "replay")
		if err := flush(); err != nil {
			panic(err)
		}
		return
	}
	for _, raw := range hx.LoadCorpus(cfg.Corpus) {
		var r replayFile
		if json.Unmarshal(raw, &r) == nil && r.Scenario.Err != nil {
			rn.scenario(r.Scenario, "corpus")
		}
	}
	generate(rn, cfg)
	if err := flush(); err != nil {
		panic(err)
	}
}
