package main

import (
	"bytes"
	"context"
	"fmt"

	"cuelabs.dev/go/oci/ociregistry"
)

// A carrier is one way of making an Interface method of the outermost client fail because the
// innermost backend failed: the client call sequence plus the backend point that fails.
type carrier struct {
	Name   string // Coq constructor is "C" + Name
	Method string // HTTP method that carries the error response
	Point  string // where the innermost backend fails
	OpWrap bool   // some client method / handler on the path wraps the error with a text prefix
	// Only names the one chain configuration in which the carrier's request sequence exists
	// ("" = the carrier runs under every configuration).
	Only string
	// Head says at which levels the failing request is a HEAD although Method is not
	// (first = the level next to the backend, outer = the level the caller talks to);
	// Obs.C07.level_head.  nil = at no level (at every level when Method is HEAD).
	Head func(first, outer bool) bool
	// MaxHops, when > 0, limits the number of hops the carrier is driven through.
	MaxHops int
	// Big makes the backend serve a manifest above the client's in-memory threshold.
	Big bool
	// prep runs with the backend healthy and returns what run needs (an upload ID).
	prep func(ctx context.Context, r ociregistry.Interface) (string, error)
	run  func(ctx context.Context, r ociregistry.Interface, id string) error
}

// methodAt is the method of the request that carries the error at level lvl (0 = next to the
// backend) of a call through k levels.
func (cr *carrier) methodAt(lvl, k int) string {
	if cr.Head != nil && cr.Head(lvl == 0, lvl == k-1) {
		return "HEAD"
	}
	return cr.Method
}

// kind is "HEAD" (every level), "mixed" (some levels) or "body".
func (cr *carrier) kind() string {
	switch {
	case cr.Method == "HEAD":
		return "HEAD"
	case cr.Head != nil:
		return "mixed"
	}
	return "body"
}

func (cr *carrier) runsUnder(cfg string) bool { return cr.Only == "" || cr.Only == cfg }

func (cr *carrier) hops(n int) int {
	if cr.MaxHops > 0 && n > cr.MaxHops {
		return cr.MaxHops
	}
	return n
}

const repo = "foo/bar"

var manifestData = []byte(`{"schemaVersion":2}`)

func closeReader(rd ociregistry.BlobReader, err error) error {
	if err != nil {
		return err
	}
	rd.Close()
	return errNoError
}

func noErr(err error) error {
	if err != nil {
		return err
	}
	return errNoError
}

func startUpload(ctx context.Context, r ociregistry.Interface) (string, error) {
	w, err := r.PushBlobChunked(ctx, repo, 0)
	if err != nil {
		return "", fmt.Errorf("prep PushBlobChunked: %v", err)
	}
	id := w.ID()
	w.Close()
	return id, nil
}

func pushBlob(ctx context.Context, r ociregistry.Interface, _ string) error {
	_, err := r.PushBlob(ctx, repo, blobDesc, bytes.NewReader(blobData))
	return noErr(err)
}

// resume at offset 0 with a chunk size smaller than the write: Write flushes with a PATCH.
func patchWrite(ctx context.Context, r ociregistry.Interface, id string) error {
	w, err := r.PushBlobChunkedResume(ctx, repo, id, 0, 4)
	if err != nil {
		return fmt.Errorf("harness: resume failed locally: %v", err)
	}
	_, err = w.Write([]byte("0123456789"))
	return noErr(err)
}

// resume at offset 0, buffer a small write, Commit: one PUT carrying the data.
func commitWrite(ctx context.Context, r ociregistry.Interface, id string) error {
	w, err := r.PushBlobChunkedResume(ctx, repo, id, 0, 0)
	if err != nil {
		return fmt.Errorf("harness: resume failed locally: %v", err)
	}
	if _, err := w.Write(blobData); err != nil {
		return fmt.Errorf("harness: buffered write failed: %v", err)
	}
	_, err = w.Commit(blobDigest)
	return noErr(err)
}

// resume with offset -1 (the upload-status GET succeeds), buffer a small write, Commit: one PUT.
func infoCommit(ctx context.Context, r ociregistry.Interface, id string) error {
	w, err := r.PushBlobChunkedResume(ctx, repo, id, -1, 0)
	if err != nil {
		return fmt.Errorf("harness: upload-status request failed: %v", err)
	}
	if _, err := w.Write(blobData); err != nil {
		return fmt.Errorf("harness: buffered write failed: %v", err)
	}
	_, err = w.Commit(blobDigest)
	return noErr(err)
}

// resume with offset -1 and a small chunk size: Write flushes with a PATCH.
func infoPatchWrite(ctx context.Context, r ociregistry.Interface, id string) error {
	w, err := r.PushBlobChunkedResume(ctx, repo, id, -1, 4)
	if err != nil {
		return fmt.Errorf("harness: upload-status request failed: %v", err)
	}
	_, err = w.Write([]byte("0123456789"))
	return noErr(err)
}

func getTag(ctx context.Context, r ociregistry.Interface, _ string) error {
	return closeReader(r.GetTag(ctx, repo, "sometag"))
}

func getBlob(ctx context.Context, r ociregistry.Interface, _ string) error {
	return closeReader(r.GetBlob(ctx, repo, blobDigest))
}

func getBlobRange(ctx context.Context, r ociregistry.Interface, _ string) error {
	return closeReader(r.GetBlobRange(ctx, repo, blobDigest, 1, 4))
}

func headBelowOuter(first, outer bool) bool { return !outer }
func headAtFirst(first, outer bool) bool    { return first }

var carriers = []carrier{
	{Name: "GetBlob", Method: "GET", Point: "GetBlob", run: func(ctx context.Context, r ociregistry.Interface, _ string) error {
		return closeReader(r.GetBlob(ctx, repo, blobDigest))
	}},
	{Name: "GetBlobRange", Method: "GET", Point: "GetBlobRange", run: func(ctx context.Context, r ociregistry.Interface, _ string) error {
		return closeReader(r.GetBlobRange(ctx, repo, blobDigest, 1, 4))
	}},
	{Name: "GetManifest", Method: "GET", Point: "GetManifest", run: func(ctx context.Context, r ociregistry.Interface, _ string) error {
		return closeReader(r.GetManifest(ctx, repo, blobDigest))
	}},
	{Name: "GetTag", Method: "GET", Point: "GetTag", run: func(ctx context.Context, r ociregistry.Interface, _ string) error {
		return closeReader(r.GetTag(ctx, repo, "sometag"))
	}},
	{Name: "ResolveBlob", Method: "HEAD", Point: "ResolveBlob", run: func(ctx context.Context, r ociregistry.Interface, _ string) error {
		_, err := r.ResolveBlob(ctx, repo, blobDigest)
		return noErr(err)
	}},
	{Name: "ResolveManifest", Method: "HEAD", Point: "ResolveManifest", run: func(ctx context.Context, r ociregistry.Interface, _ string) error {
		_, err := r.ResolveManifest(ctx, repo, blobDigest)
		return noErr(err)
	}},
	{Name: "ResolveTag", Method: "HEAD", Point: "ResolveTag", run: func(ctx context.Context, r ociregistry.Interface, _ string) error {
		_, err := r.ResolveTag(ctx, repo, "sometag")
		return noErr(err)
	}},
	// PushBlob = POST (start) then PUT (resume, copy, commit on the server side)
	{Name: "PushBlobStart", Method: "POST", Point: "PushBlobChunked", run: pushBlob},
	{Name: "PushBlobResume", Method: "PUT", Point: "PushBlobChunkedResume", OpWrap: true, run: pushBlob},
	{Name: "PushBlobWrite", Method: "PUT", Point: "Write", OpWrap: true, run: pushBlob},
	{Name: "PushBlobCommit", Method: "PUT", Point: "Commit", OpWrap: true, run: pushBlob},
	{Name: "PushBlobChunked", Method: "POST", Point: "PushBlobChunked", run: func(ctx context.Context, r ociregistry.Interface, _ string) error {
		w, err := r.PushBlobChunked(ctx, repo, 0)
		if err != nil {
			return err
		}
		w.Close()
		return errNoError
	}},
	// PushBlobChunkedResume with offset -1: a GET on the upload location
	{Name: "ResumeInfo", Method: "GET", Point: "PushBlobChunkedResume", OpWrap: true, prep: startUpload,
		run: func(ctx context.Context, r ociregistry.Interface, id string) error {
			w, err := r.PushBlobChunkedResume(ctx, repo, id, -1, 0)
			if err != nil {
				return err
			}
			w.Close()
			return errNoError
		}},
	{Name: "PatchResume", Method: "PATCH", Point: "PushBlobChunkedResume", OpWrap: true, prep: startUpload, run: patchWrite},
	{Name: "PatchWrite", Method: "PATCH", Point: "Write", OpWrap: true, prep: startUpload, run: patchWrite},
	{Name: "PatchClose", Method: "PATCH", Point: "Close", OpWrap: true, prep: startUpload, run: patchWrite},
	{Name: "CommitResume", Method: "PUT", Point: "PushBlobChunkedResume", OpWrap: true, prep: startUpload, run: commitWrite},
	{Name: "CommitWrite", Method: "PUT", Point: "Write", OpWrap: true, prep: startUpload, run: commitWrite},
	{Name: "CommitCommit", Method: "PUT", Point: "Commit", OpWrap: true, prep: startUpload, run: commitWrite},
	{Name: "MountBlob", Method: "POST", Point: "MountBlob", run: func(ctx context.Context, r ociregistry.Interface, _ string) error {
		_, err := r.MountBlob(ctx, "foo/src", repo, blobDigest)
		return noErr(err)
	}},
	{Name: "PushManifest", Method: "PUT", Point: "PushManifest", run: func(ctx context.Context, r ociregistry.Interface, _ string) error {
		_, err := r.PushManifest(ctx, repo, "sometag", manifestData, "application/vnd.oci.image.manifest.v1+json")
		return noErr(err)
	}},
	{Name: "DeleteBlob", Method: "DELETE", Point: "DeleteBlob", run: func(ctx context.Context, r ociregistry.Interface, _ string) error {
		return noErr(r.DeleteBlob(ctx, repo, blobDigest))
	}},
	{Name: "DeleteManifest", Method: "DELETE", Point: "DeleteManifest", run: func(ctx context.Context, r ociregistry.Interface, _ string) error {
		return noErr(r.DeleteManifest(ctx, repo, blobDigest))
	}},
	{Name: "DeleteTag", Method: "DELETE", Point: "DeleteTag", run: func(ctx context.Context, r ociregistry.Interface, _ string) error {
		return noErr(r.DeleteTag(ctx, repo, "sometag"))
	}},
	{Name: "Repositories", Method: "GET", Point: "Repositories", run: func(ctx context.Context, r ociregistry.Interface, _ string) error {
		_, err := ociregistry.All(r.Repositories(ctx, ""))
		return noErr(err)
	}},
	{Name: "Tags", Method: "GET", Point: "Tags", run: func(ctx context.Context, r ociregistry.Interface, _ string) error {
		_, err := ociregistry.All(r.Tags(ctx, repo, ""))
		return noErr(err)
	}},
	{Name: "RepositoriesLater", Method: "GET", Point: "RepositoriesLater", run: func(ctx context.Context, r ociregistry.Interface, _ string) error {
		_, err := ociregistry.All(r.Repositories(ctx, ""))
		return noErr(err)
	}},
	{Name: "TagsLater", Method: "GET", Point: "TagsLater", run: func(ctx context.Context, r ociregistry.Interface, _ string) error {
		_, err := ociregistry.All(r.Tags(ctx, repo, ""))
		return noErr(err)
	}},
	{Name: "Referrers", Method: "GET", Point: "Referrers", run: func(ctx context.Context, r ociregistry.Interface, _ string) error {
		_, err := ociregistry.All(r.Referrers(ctx, repo, blobDigest, ""))
		return noErr(err)
	}},
	// the backend's iterator yields an item, then the error
	{Name: "RepositoriesMid", Method: "GET", Point: "RepositoriesMid", run: func(ctx context.Context, r ociregistry.Interface, _ string) error {
		_, err := ociregistry.All(r.Repositories(ctx, ""))
		return noErr(err)
	}},
	{Name: "TagsMid", Method: "GET", Point: "TagsMid", run: func(ctx context.Context, r ociregistry.Interface, _ string) error {
		_, err := ociregistry.All(r.Tags(ctx, repo, ""))
		return noErr(err)
	}},
	{Name: "ReferrersMid", Method: "GET", Point: "ReferrersMid", run: func(ctx context.Context, r ociregistry.Interface, _ string) error {
		_, err := ociregistry.All(r.Referrers(ctx, repo, blobDigest, ""))
		return noErr(err)
	}},
	// GetBlobRange(0, -1) is GetBlob for the client; GetBlobRange(1, -1) is an open-ended range
	{Name: "GetBlobRangeAll", Method: "GET", Point: "GetBlob", run: func(ctx context.Context, r ociregistry.Interface, _ string) error {
		return closeReader(r.GetBlobRange(ctx, repo, blobDigest, 0, -1))
	}},
	{Name: "GetBlobRangeOpen", Method: "GET", Point: "GetBlobRange", run: func(ctx context.Context, r ociregistry.Interface, _ string) error {
		return closeReader(r.GetBlobRange(ctx, repo, blobDigest, 1, -1))
	}},
	// the upload-status GET of PushBlobChunkedResume(-1) succeeds, the request after it fails
	{Name: "InfoCommit", Method: "PUT", Point: "Commit", OpWrap: true, prep: startUpload, run: infoCommit},
	{Name: "InfoPatchWrite", Method: "PATCH", Point: "Write", OpWrap: true, prep: startUpload, run: infoPatchWrite},

	// ---- request sequences that only the "quirks" server configuration provokes ----

	// GetTag of a manifest above the client's in-memory threshold from a server that omits the
	// digest header: the GET succeeds, the client's follow-up HEAD reaches ResolveTag, which fails.
	{Name: "GetTagLookup", Method: "GET", Point: "ResolveTag", Only: "quirks", Big: true, Head: headAtFirst, run: getTag},
	// GetBlob / GetBlobRange from a server that redirects blob downloads: the handler resolves
	// the blob first (a HEAD request at the levels below the outermost).
	{Name: "GetBlobResolve", Method: "GET", Point: "ResolveBlob", Only: "quirks", Head: headBelowOuter, run: getBlob},
	{Name: "GetBlobRangeResolve", Method: "GET", Point: "ResolveBlob", Only: "quirks", Head: headBelowOuter, run: getBlobRange},
	// ... the same through one hop only: no HEAD request involved, full identity expected
	{Name: "GetBlobResolve1", Method: "GET", Point: "ResolveBlob", Only: "quirks", MaxHops: 1, run: getBlob},
	{Name: "GetBlobRangeResolve1", Method: "GET", Point: "ResolveBlob", Only: "quirks", MaxHops: 1, run: getBlobRange},
}

func carrierByName(name string) *carrier {
	for i := range carriers {
		if carriers[i].Name == name {
			return &carriers[i]
		}
	}
	return nil
}
