package main

import (
	"bytes"
	"context"
	"fmt"

	"cuelabs.dev/go/oci/ociregistry"
)

// A carrier is one way of making an Interface method of the outermost client fail because the
// innermost backend failed: the client call sequence plus the backend point that fails.
type carrier struct {
	Name   string // Coq constructor is "C" + Name
	Method string // HTTP method that carries the error response
	Point  string // where the innermost backend fails
	OpWrap bool   // some client method / handler on the path wraps the error with a text prefix
	// prep runs with the backend healthy and returns what run needs (an upload ID).
	prep func(ctx context.Context, r ociregistry.Interface) (string, error)
	run  func(ctx context.Context, r ociregistry.Interface, id string) error
}

const repo = "foo/bar"

var manifestData = []byte(`{"schemaVersion":2}`)

func closeReader(rd ociregistry.BlobReader, err error) error {
	if err != nil {
		return err
	}
	rd.Close()
	return errNoError
}

func noErr(err error) error {
	if err != nil {
		return err
	}
	return errNoError
}

func startUpload(ctx context.Context, r ociregistry.Interface) (string, error) {
	w, err := r.PushBlobChunked(ctx, repo, 0)
	if err != nil {
		return "", fmt.Errorf("prep PushBlobChunked: %v", err)
	}
	id := w.ID()
	w.Close()
	return id, nil
}

func pushBlob(ctx context.Context, r ociregistry.Interface, _ string) error {
	_, err := r.PushBlob(ctx, repo, blobDesc, bytes.NewReader(blobData))
	return noErr(err)
}

// resume at offset 0 with a chunk size smaller than the write: Write flushes with a PATCH.
func patchWrite(ctx context.Context, r ociregistry.Interface, id string) error {
	w, err := r.PushBlobChunkedResume(ctx, repo, id, 0, 4)
	if err != nil {
		return fmt.Errorf("harness: resume failed locally: %v", err)
	}
	_, err = w.Write([]byte("0123456789"))
	return noErr(err)
}

// resume at offset 0, buffer a small write, Commit: one PUT carrying the data.
func commitWrite(ctx context.Context, r ociregistry.Interface, id string) error {
	w, err := r.PushBlobChunkedResume(ctx, repo, id, 0, 0)
	if err != nil {
		return fmt.Errorf("harness: resume failed locally: %v", err)
	}
	if _, err := w.Write(blobData); err != nil {
		return fmt.Errorf("harness: buffered write failed: %v", err)
	}
	_, err = w.Commit(blobDigest)
	return noErr(err)
}

var carriers = []carrier{
	{Name: "GetBlob", Method: "GET", Point: "GetBlob", run: func(ctx context.Context, r ociregistry.Interface, _ string) error {
		return closeReader(r.GetBlob(ctx, repo, blobDigest))
	}},
	{Name: "GetBlobRange", Method: "GET", Point: "GetBlobRange", run: func(ctx context.Context, r ociregistry.Interface, _ string) error {
		return closeReader(r.GetBlobRange(ctx, repo, blobDigest, 1, 4))
	}},
	{Name: "GetManifest", Method: "GET", Point: "GetManifest", run: func(ctx context.Context, r ociregistry.Interface, _ string) error {
		return closeReader(r.GetManifest(ctx, repo, blobDigest))
	}},
	{Name: "GetTag", Method: "GET", Point: "GetTag", run: func(ctx context.Context, r ociregistry.Interface, _ string) error {
		return closeReader(r.GetTag(ctx, repo, "sometag"))
	}},
	{Name: "ResolveBlob", Method: "HEAD", Point: "ResolveBlob", run: func(ctx context.Context, r ociregistry.Interface, _ string) error {
		_, err := r.ResolveBlob(ctx, repo, blobDigest)
		return noErr(err)
	}},
	{Name: "ResolveManifest", Method: "HEAD", Point: "ResolveManifest", run: func(ctx context.Context, r ociregistry.Interface, _ string) error {
		_, err := r.ResolveManifest(ctx, repo, blobDigest)
		return noErr(err)
	}},
	{Name: "ResolveTag", Method: "HEAD", Point: "ResolveTag", run: func(ctx context.Context, r ociregistry.Interface, _ string) error {
		_, err := r.ResolveTag(ctx, repo, "sometag")
		return noErr(err)
	}},
	// PushBlob = POST (start) then PUT (resume, copy, commit on the server side)
	{Name: "PushBlobStart", Method: "POST", Point: "PushBlobChunked", run: pushBlob},
	{Name: "PushBlobResume", Method: "PUT", Point: "PushBlobChunkedResume", OpWrap: true, run: pushBlob},
	{Name: "PushBlobWrite", Method: "PUT", Point: "Write", OpWrap: true, run: pushBlob},
	{Name: "PushBlobCommit", Method: "PUT", Point: "Commit", OpWrap: true, run: pushBlob},
	{Name: "PushBlobChunked", Method: "POST", Point: "PushBlobChunked", run: func(ctx context.Context, r ociregistry.Interface, _ string) error {
		w, err := r.PushBlobChunked(ctx, repo, 0)
		if err != nil {
			return err
		}
		w.Close()
		return errNoError
	}},
	// PushBlobChunkedResume with offset -1: a GET on the upload location
	{Name: "ResumeInfo", Method: "GET", Point: "PushBlobChunkedResume", OpWrap: true, prep: startUpload,
		run: func(ctx context.Context, r ociregistry.Interface, id string) error {
			w, err := r.PushBlobChunkedResume(ctx, repo, id, -1, 0)
			if err != nil {
				return err
			}
			w.Close()
			return errNoError
		}},
	{Name: "PatchResume", Method: "PATCH", Point: "PushBlobChunkedResume", OpWrap: true, prep: startUpload, run: patchWrite},
	{Name: "PatchWrite", Method: "PATCH", Point: "Write", OpWrap: true, prep: startUpload, run: patchWrite},
	{Name: "PatchClose", Method: "PATCH", Point: "Close", OpWrap: true, prep: startUpload, run: patchWrite},
	{Name: "CommitResume", Method: "PUT", Point: "PushBlobChunkedResume", OpWrap: true, prep: startUpload, run: commitWrite},
	{Name: "CommitWrite", Method: "PUT", Point: "Write", OpWrap: true, prep: startUpload, run: commitWrite},
	{Name: "CommitCommit", Method: "PUT", Point: "Commit", OpWrap: true, prep: startUpload, run: commitWrite},
	{Name: "MountBlob", Method: "POST", Point: "MountBlob", run: func(ctx context.Context, r ociregistry.Interface, _ string) error {
		_, err := r.MountBlob(ctx, "foo/src", repo, blobDigest)
		return noErr(err)
	}},
	{Name: "PushManifest", Method: "PUT", Point: "PushManifest", run: func(ctx context.Context, r ociregistry.Interface, _ string) error {
		_, err := r.PushManifest(ctx, repo, "sometag", manifestData, "application/vnd.oci.image.manifest.v1+json")
		return noErr(err)
	}},
	{Name: "DeleteBlob", Method: "DELETE", Point: "DeleteBlob", run: func(ctx context.Context, r ociregistry.Interface, _ string) error {
		return noErr(r.DeleteBlob(ctx, repo, blobDigest))
	}},
	{Name: "DeleteManifest", Method: "DELETE", Point: "DeleteManifest", run: func(ctx context.Context, r ociregistry.Interface, _ string) error {
		return noErr(r.DeleteManifest(ctx, repo, blobDigest))
	}},
	{Name: "DeleteTag", Method: "DELETE", Point: "DeleteTag", run: func(ctx context.Context, r ociregistry.Interface, _ string) error {
		return noErr(r.DeleteTag(ctx, repo, "sometag"))
	}},
	{Name: "Repositories", Method: "GET", Point: "Repositories", run: func(ctx context.Context, r ociregistry.Interface, _ string) error {
		_, err := ociregistry.All(r.Repositories(ctx, ""))
		return noErr(err)
	}},
	{Name: "Tags", Method: "GET", Point: "Tags", run: func(ctx context.Context, r ociregistry.Interface, _ string) error {
		_, err := ociregistry.All(r.Tags(ctx, repo, ""))
		return noErr(err)
	}},
	{Name: "RepositoriesLater", Method: "GET", Point: "RepositoriesLater", run: func(ctx context.Context, r ociregistry.Interface, _ string) error {
		_, err := ociregistry.All(r.Repositories(ctx, ""))
		return noErr(err)
	}},
	{Name: "TagsLater", Method: "GET", Point: "TagsLater", run: func(ctx context.Context, r ociregistry.Interface, _ string) error {
		_, err := ociregistry.All(r.Tags(ctx, repo, ""))
		return noErr(err)
	}},
	{Name: "Referrers", Method: "GET", Point: "Referrers", run: func(ctx context.Context, r ociregistry.Interface, _ string) error {
		_, err := ociregistry.All(r.Referrers(ctx, repo, blobDigest, ""))
		return noErr(err)
	}},
}

func carrierByName(name string) *carrier {
	for i := range carriers {
		if carriers[i].Name == name {
			return &carriers[i]
		}
	}
	return nil
}
