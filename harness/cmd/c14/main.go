// Harness for C14: operation histories through ocifilter.ReadOnly(mem), ocifilter.Immutable(mem)
// and ocimem.NewWithConfig(ImmutableTags), with snapshots of the underlying registry before and
// after, a walk from every tag through the manifests it references, and concurrent batches in
// immutable-tags mode.  Cases are terms of coq/Obs/C14.v's [case].
package main

import (
	"encoding/json"
	"fmt"
	"os"
	"path/filepath"
	"regexp"
	"sort"
	"strings"
	"sync"

	"cuelabs.dev/go/oci/ociregistry"
	"cuelabs.dev/go/oci/ociregistry/ocifilter"
	"cuelabs.dev/go/oci/ociregistry/ocimem"
	ocispec "github.com/opencontainers/image-spec/specs-go/v1"
	"verif/harness/hx"
	"verif/harness/memsim"
)

type input struct {
	Mech     string        `json:"mech"` // readonly | immutable | immtags
	UnderImm bool          `json:"under_imm,omitempty"`
	Setup    []memsim.Op   `json:"setup,omitempty"`
	Ops      []memsim.Op   `json:"ops,omitempty"`
	Threads  [][]memsim.Op `json:"threads,omitempty"`
}

func (in input) immCfg() bool { return in.Mech == "immtags" || in.UnderImm }

func build(in input) (under *ocimem.Registry, mech ociregistry.Interface) {
	under = ocimem.NewWithConfig(&ocimem.Config{ImmutableTags: in.immCfg()})
	switch in.Mech {
	case "readonly":
		mech = ocifilter.ReadOnly(under)
	case "immutable":
		mech = ocifilter.Immutable(under)
	case "immtags":
		mech = under
	default:
		panic("unknown mechanism " + in.Mech)
	}
	return
}

type probe struct {
	Parent int // -1 = none
	Op     memsim.Op
}

func isReadKind(k string) bool {
	switch k {
	case "GetBlob", "GetBlobRange", "GetManifest", "GetTag", "ResolveBlob", "ResolveManifest", "ResolveTag",
		"Repositories", "Tags", "Referrers":
		return true
	}
	return false
}

func isWriterKind(k string) bool { return strings.HasPrefix(k, "W") }

// universe of names a case mentions
type universe struct {
	repos map[string]bool
	tags  map[[2]string]bool
	digs  map[[2]string]bool
}

func (u *universe) op(o memsim.Op) {
	if o.Kind == "Repositories" || isWriterKind(o.Kind) {
		if o.Kind == "WCommit" {
			for r := range u.repos {
				u.digs[[2]string{r, o.Digest}] = true
			}
		}
		return
	}
	u.repos[o.Repo] = true
	if o.From != "" || o.Kind == "MountBlob" {
		u.repos[o.From] = true
		u.digs[[2]string{o.From, o.Digest}] = true
	}
	if o.Tag != "" {
		u.tags[[2]string{o.Repo, o.Tag}] = true
	}
	if o.Digest != "" {
		u.digs[[2]string{o.Repo, o.Digest}] = true
	}
	if o.Desc != nil {
		u.digs[[2]string{o.Repo, o.Desc.Digest}] = true
	}
	if o.Kind == "PushManifest" || o.Kind == "PushBlob" {
		u.digs[[2]string{o.Repo, memsim.Sha(o.Content)}] = true
	}
}

func sortedPairs(m map[[2]string]bool) [][2]string {
	var ps [][2]string
	for p := range m {
		ps = append(ps, p)
	}
	sort.Slice(ps, func(i, j int) bool {
		if ps[i][0] != ps[j][0] {
			return ps[i][0] < ps[j][0]
		}
		return ps[i][1] < ps[j][1]
	})
	return ps
}

// children of a manifest as a client would find them: (isManifest, digest)
func childrenOf(media string, data []byte) [][2]string {
	var out [][2]string
	switch media {
	case ocispec.MediaTypeImageManifest:
		var m ocispec.Manifest
		if json.Unmarshal(data, &m) != nil {
			return nil
		}
		for _, l := range m.Layers {
			out = append(out, [2]string{"b", string(l.Digest)})
		}
		out = append(out, [2]string{"b", string(m.Config.Digest)})
		if m.Subject != nil {
			out = append(out, [2]string{"m", string(m.Subject.Digest)})
		}
	case ocispec.MediaTypeImageIndex:
		var ix ocispec.Index
		if json.Unmarshal(data, &ix) != nil {
			return nil
		}
		for _, l := range ix.Manifests {
			out = append(out, [2]string{"m", string(l.Digest)})
		}
		if ix.Subject != nil {
			out = append(out, [2]string{"m", string(ix.Subject.Digest)})
		}
	}
	return out
}

// buildProbes runs the snapshot on the underlying registry and extends it by the walk from
// every tag; it returns the probe list and the results.
func buildProbes(in input, ex *memsim.Exec) ([]probe, []memsim.Result) {
	u := &universe{repos: map[string]bool{}, tags: map[[2]string]bool{}, digs: map[[2]string]bool{}}
	for _, o := range in.Setup {
		u.op(o)
	}
	for _, o := range in.Ops {
		u.op(o)
	}
	for _, th := range in.Threads {
		for _, o := range th {
			u.op(o)
		}
	}
	var ps []probe
	var rs []memsim.Result
	add := func(parent int, o memsim.Op) (int, memsim.Result) {
		r := ex.Run(o)
		ps = append(ps, probe{parent, o})
		rs = append(rs, r)
		return len(ps) - 1, r
	}
	add(-1, memsim.Op{Kind: "Repositories"})
	var repos []string
	for r := range u.repos {
		repos = append(repos, r)
	}
	sort.Strings(repos)
	for _, r := range repos {
		add(-1, memsim.Op{Kind: "Tags", Repo: r})
	}
	for _, p := range sortedPairs(u.digs) {
		add(-1, memsim.Op{Kind: "GetBlob", Repo: p[0], Digest: p[1]})
		add(-1, memsim.Op{Kind: "GetManifest", Repo: p[0], Digest: p[1]})
	}
	type qe struct {
		idx int
		res memsim.Result
	}
	for _, p := range sortedPairs(u.tags) {
		add(-1, memsim.Op{Kind: "ResolveTag", Repo: p[0], Tag: p[1]})
		i, r := add(-1, memsim.Op{Kind: "GetTag", Repo: p[0], Tag: p[1]})
		// walk (breadth first) from this tag
		seen := map[[2]string]bool{}
		queue := []qe{{i, r}}
		for len(queue) > 0 && len(ps) < 400 {
			q := queue[0]
			queue = queue[1:]
			if q.res.Kind != "read" {
				continue
			}
			for _, ch := range childrenOf(q.res.Desc.Media, q.res.Data) {
				if seen[ch] {
					continue
				}
				seen[ch] = true
				if ch[0] == "b" {
					add(q.idx, memsim.Op{Kind: "GetBlob", Repo: p[0], Digest: ch[1]})
				} else {
					ci, cr := add(q.idx, memsim.Op{Kind: "GetManifest", Repo: p[0], Digest: ch[1]})
					queue = append(queue, qe{ci, cr})
				}
			}
		}
	}
	return ps, rs
}

var litRe = regexp.MustCompile(`\(p \d+ \[[0-9%uint63; ]*\]\)`)

// internLiterals binds every byte-string literal that occurs more than once in a case term to a
// local name (let b7 := ... in), so that Coq reads each content once.
func internLiterals(coq string) string {
	count := map[string]int{}
	for _, m := range litRe.FindAllString(coq, -1) {
		count[m]++
	}
	names := map[string]string{}
	var order []string
	body := litRe.ReplaceAllStringFunc(coq, func(m string) string {
		if count[m] < 2 || len(m) < 40 {
			return m
		}
		n, ok := names[m]
		if !ok {
			n = fmt.Sprintf("b%d_", len(names))
			names[m] = n
			order = append(order, m)
		}
		return n
	})
	var sb strings.Builder
	sb.WriteString("(")
	for _, m := range order {
		sb.WriteString("let " + names[m] + " := " + m + " in ")
	}
	sb.WriteString(body + ")")
	return sb.String()
}

func coqEvents(ops []memsim.Op, rs []memsim.Result) string {
	items := make([]string, len(ops))
	for i := range ops {
		items[i] = "(" + ops[i].Coq() + ", " + rs[i].Coq() + ")"
	}
	return hx.List(items)
}

func coqResults(rs []memsim.Result) string {
	items := make([]string, len(rs))
	for i := range rs {
		items[i] = rs[i].Coq()
	}
	return hx.List(items)
}

func coqOps(ops []memsim.Op) string {
	items := make([]string, len(ops))
	for i := range ops {
		items[i] = ops[i].Coq()
	}
	return hx.List(items)
}

type step struct {
	Op  memsim.Op     `json:"op"`
	Res memsim.Result `json:"res"`
}

func steps(ops []memsim.Op, rs []memsim.Result) []step {
	out := make([]step, len(ops))
	for i := range ops {
		r := rs[i]
		if len(r.Data) > 64 {
			r.Data = r.Data[:64]
		}
		out[i] = step{ops[i], r}
	}
	return out
}

// runCase executes one input on fresh registries and emits the case.
func runCase(out *hx.Out, in input, origin string) {
	under, mech := build(in)
	exU := memsim.NewExec(under, true)
	exM := exU
	if in.Mech != "immtags" {
		exM = memsim.NewExec(mech, true)
	}
	or := memsim.NewOracles()
	written := map[int][]byte{}
	observe := func(o memsim.Op, r memsim.Result) {
		or.Observe(o)
		if r.Kind == "read" {
			or.Content(r.Data)
		}
	}
	var setupRes []memsim.Result
	for _, o := range in.Setup {
		if o.Kind == "WCommit" {
			or.Content(written[o.W])
		}
		r := exU.Run(o)
		if o.Kind == "WWrite" && r.Kind == "n" {
			written[o.W] = append(append([]byte{}, written[o.W]...), o.Content[:r.N]...)
		}
		observe(o, r)
		setupRes = append(setupRes, r)
	}
	probes, before := buildProbes(in, exU)
	for i, p := range probes {
		observe(p.Op, before[i])
	}
	var opsRes []memsim.Result
	var direct []string
	for _, o := range in.Ops {
		if o.Kind == "WCommit" {
			or.Content(written[o.W])
		}
		r := exM.Run(o)
		if o.Kind == "WWrite" && r.Kind == "n" {
			written[o.W] = append(append([]byte{}, written[o.W]...), o.Content[:r.N]...)
		}
		observe(o, r)
		opsRes = append(opsRes, r)
		if in.Mech == "readonly" {
			if isReadKind(o.Kind) {
				d := exU.Run(o)
				observe(o, d)
				direct = append(direct, "(Some ("+d.Coq()+"))")
			} else {
				direct = append(direct, "None")
			}
		}
		out.Count("op:" + o.Kind)
		if r.Kind == "err" {
			out.Count("errcode:" + r.Code)
		}
	}
	// concurrent batch
	thrRes := make([][]memsim.Result, len(in.Threads))
	if len(in.Threads) > 0 {
		var wg sync.WaitGroup
		start := make(chan struct{})
		for i, th := range in.Threads {
			wg.Add(1)
			go func(i int, th []memsim.Op) {
				defer wg.Done()
				ex := memsim.NewExec(mech, true)
				<-start
				rs := make([]memsim.Result, len(th))
				for j, o := range th {
					rs[j] = ex.Run(o)
				}
				thrRes[i] = rs
			}(i, th)
		}
		close(start)
		wg.Wait()
		for i, th := range in.Threads {
			for j, o := range th {
				observe(o, thrRes[i][j])
				out.Count("conc-op:" + o.Kind)
			}
		}
	}
	after := make([]memsim.Result, len(probes))
	for i, p := range probes {
		after[i] = exU.Run(p.Op)
		observe(p.Op, after[i])
	}
	pcoq := make([]string, len(probes))
	pops := make([]memsim.Op, len(probes))
	for i, p := range probes {
		par := "None"
		if p.Parent >= 0 {
			par = fmt.Sprintf("(Some %d%%N)", p.Parent)
		}
		pcoq[i] = fmt.Sprintf("{| p_parent := %s; p_op := %s |}", par, p.Op.Coq())
		pops[i] = p.Op
	}
	thr := make([]string, len(in.Threads))
	for i := range in.Threads {
		thr[i] = coqEvents(in.Threads[i], thrRes[i])
	}
	mechCoq := map[string]string{"readonly": "MReadOnly", "immutable": "MImmutable", "immtags": "MImmTags"}[in.Mech]
	coq := fmt.Sprintf("{| c_mech := %s; c_under_imm := %s; c_orc := %s; c_setup := %s; c_setup_obs := %s; "+
		"c_probes := %s; c_before := %s; c_ops := %s; c_obs := %s; c_direct := %s; c_threads := %s; c_after := %s |}",
		mechCoq, hx.Bool(in.UnderImm), or.Coq(), coqOps(in.Setup), coqResults(setupRes),
		hx.List(pcoq), coqResults(before), coqOps(in.Ops), coqResults(opsRes), hx.List(direct), hx.List(thr), coqResults(after))
	thrSteps := make([][]step, len(in.Threads))
	for i := range in.Threads {
		thrSteps[i] = steps(in.Threads[i], thrRes[i])
	}
	changed := 0
	for i := range before {
		if before[i].Coq() != after[i].Coq() {
			changed++
		}
	}
	class := in.Mech + "/" + origin
	if out.Add(hx.Case{Coq: internLiterals(coq),
		Desc: map[string]any{"input": in, "origin": origin, "setup_trace": steps(in.Setup, setupRes),
			"trace": steps(in.Ops, opsRes), "threads_trace": thrSteps,
			"probes_changed": changed, "probes": len(probes)},
		Tags: map[string]any{"class": class, "mech": in.Mech}}) {
		out.Count("mech:" + in.Mech)
		out.Count("origin:" + origin)
		out.Count(fmt.Sprintf("len:%d", (len(in.Setup)+len(in.Ops)+9)/10*10))
		if len(in.Threads) > 0 {
			out.Count(fmt.Sprintf("threads:%d", len(in.Threads)))
		}
		if changed > 0 {
			out.Count("snapshot-changed:" + in.Mech)
		}
	}
}

func main() {
	cfg := hx.ParseFlags()
	out := hx.NewOut(cfg, "Obs.C14")
	out.ShardMax = 24
	if cfg.Replay != "" {
		b, err := os.ReadFile(cfg.Replay)
		if err != nil {
			panic(err)
		}
		var r struct {
			Input input `json:"input"`
		}
		if err := json.Unmarshal(b, &r); err != nil {
			panic(err)
		}
		runCase(out, r.Input, "replay")
		if err := out.Flush(); err != nil {
			panic(err)
		}
		return
	}
	if dir := os.Getenv("C14_WRITE_CORPUS"); dir != "" {
		for name, in := range scripted() {
			if strings.HasPrefix(name, "corpus_") {
				b, _ := json.Marshal(map[string]any{"input": in})
				if err := os.WriteFile(filepath.Join(dir, strings.TrimPrefix(name, "corpus_")+".json"), b, 0o644); err != nil {
					panic(err)
				}
			}
		}
	}
	for _, raw := range hx.LoadCorpus(cfg.Corpus) {
		var r struct {
			Input input `json:"input"`
		}
		if json.Unmarshal(raw, &r) == nil && r.Input.Mech != "" {
			runCase(out, r.Input, "corpus")
		}
	}
	sc := scripted()
	var names []string
	for n := range sc {
		names = append(names, n)
	}
	sort.Strings(names)
	for _, n := range names {
		runCase(out, sc[n], "scripted")
	}
	rnd := cfg.Rand()
	n := 420
	if cfg.Thorough() {
		n = 5000
	}
	for i := 0; i < n; i++ {
		runCase(out, randomInput(rnd, i), "random")
	}
	nc := 120
	if cfg.Thorough() {
		nc = 1500
	}
	for i := 0; i < nc; i++ {
		runCase(out, concInput(rnd, i), "concurrent")
	}
	if err := out.Flush(); err != nil {
		panic(err)
	}
}
