// Harness for C14: operation histories through ocifilter.ReadOnly(x), ocifilter.Immutable(x) - x
// being the in-memory registry handed over under several dynamic types (wrap.go) - and
// ocimem.NewWithConfig(ImmutableTags), with snapshots of the underlying registry before and
// after, a walk from every tag through the manifests it references, and concurrent batches in
// immutable-tags mode (gen.go: concInput, duelInput; operations of one goroutine aimed at the span
// of another's through calibrated delays; aim.go: pushes, chunked commits and mounts under the
// digest of what a tag protects with every kind of body and size, and tags of every shape the
// grammar allows; shape.go: graphs in which the walk from the tags meets a digest more than once -
// the same bytes held as manifest and as blob, shared children, diamonds, subject and entry).
// Cases are terms of coq/Obs/C14.v's [case].
package main

import (
	"encoding/json"
	"fmt"
	"os"
	"path/filepath"
	"sort"
	"strings"
	"sync"
	"time"

	"cuelabs.dev/go/oci/ociregistry"
	"cuelabs.dev/go/oci/ociregistry/ocifilter"
	"cuelabs.dev/go/oci/ociregistry/ocimem"
	"github.com/opencontainers/go-digest"
	ocispec "github.com/opencontainers/image-spec/specs-go/v1"
	"verif/harness/hx"
	"verif/harness/memsim"
)

type input struct {
	Mech     string        `json:"mech"` // readonly | immutable | immtags
	Wrap     string        `json:"wrap,omitempty"` // how the registry is handed to the wrapper (wrap.go)
	UnderImm bool          `json:"under_imm,omitempty"`
	Setup    []memsim.Op   `json:"setup,omitempty"`
	Ops      []memsim.Op   `json:"ops,omitempty"`
	Threads  [][]memsim.Op `json:"threads,omitempty"`
	// Gaps[i][j]: how long goroutine i waits before its j-th operation, as a fraction of the
	// longest operation of the batch (measured on a twin registry just before the batch runs).
	// Absent = every goroutine runs flat out.
	Gaps [][]float64 `json:"gaps,omitempty"`
	// Rivals: what another client of the underlying registry does, directly on it, right after the
	// forwarding value between wrapper and registry (wrap.go: spy) has served its After-th call
	// of the history (mech "immutable" with a wrapping only).
	Rivals []rival `json:"rivals,omitempty"`
}

type rival struct {
	After int       `json:"after"`
	Op    memsim.Op `json:"op"`
}

func (in input) immCfg() bool { return in.Mech == "immtags" || in.UnderImm }

// newRegistry constructs the in-memory registry the way a caller with a Config variable of its
// own does.  What is handed to a constructor stays the caller's: right after NewWithConfig has
// returned the variable is overwritten with the opposite configuration and used to construct a
// second registry, which gets some content of its own and is dropped.  The mode of the first
// registry is what it was constructed with - there is no call that changes it -, and nothing the
// other registry is told shows in it.  (The zero configuration is passed as nil every other time:
// documented to be the same.)
func newRegistry(immutableTags, nilForZero bool) *ocimem.Registry {
	var reg *ocimem.Registry
	cfg := &ocimem.Config{ImmutableTags: immutableTags}
	if !immutableTags && nilForZero {
		reg = ocimem.NewWithConfig(nil)
	} else {
		reg = ocimem.NewWithConfig(cfg)
	}
	*cfg = ocimem.Config{ImmutableTags: !immutableTags}
	other := memsim.NewExec(ocimem.NewWithConfig(cfg), true)
	img := imageBytes(config, nil, layer1)
	for _, o := range []memsim.Op{pushBlob("r1", layer1), pushBlob("r1", config), pushMan("r1", "v1", img, mtImage),
		pushMan("r1", "latest", img, mtImage), delTag("r1", "v1"), delBlob("r1", layer1)} {
		other.Run(o)
	}
	*cfg = ocimem.Config{ImmutableTags: !immutableTags}
	return reg
}

func build(in input) (under *ocimem.Registry, mech ociregistry.Interface, sp *spy) {
	under = newRegistry(in.immCfg(), len(in.Ops)%2 == 0)
	var x ociregistry.Interface
	switch in.Mech {
	case "readonly":
		x, sp = wrapAs(in.Wrap, under)
		mech = ocifilter.ReadOnly(x)
	case "immutable":
		x, sp = wrapAs(in.Wrap, under)
		mech = ocifilter.Immutable(x)
	case "immtags":
		mech = under
	default:
		panic("unknown mechanism " + in.Mech)
	}
	if len(in.Rivals) > 0 {
		if sp == nil || in.Mech != "immutable" {
			panic("rivals need the Immutable wrapper over a forwarding value")
		}
		for _, rv := range in.Rivals {
			sp.rivals[rv.After] = append(sp.rivals[rv.After], rv.Op)
		}
	}
	return
}

// canonIn: the canonical name (memsim) of an upload id the registry handed out to executor ex
func canonIn(ex *memsim.Exec) func(string) string {
	return func(real string) string {
		for i, w := range ex.Writers {
			if w.ID() == real {
				return ex.WriterCanonID(i)
			}
		}
		return real
	}
}

type probe struct {
	Parent int // -1 = none
	Op     memsim.Op
}

func isReadKind(k string) bool {
	switch k {
	case "GetBlob", "GetBlobRange", "GetManifest", "GetTag", "ResolveBlob", "ResolveManifest", "ResolveTag",
		"Repositories", "Tags", "Referrers":
		return true
	}
	return false
}

func isWriterKind(k string) bool { return strings.HasPrefix(k, "W") }

// universe of names a case mentions
type universe struct {
	repos map[string]bool
	tags  map[[2]string]bool
	digs  map[[2]string]bool
}

func (u *universe) op(o memsim.Op) {
	if o.Kind == "Repositories" || isWriterKind(o.Kind) {
		if o.Kind == "WCommit" {
			for r := range u.repos {
				u.digs[[2]string{r, o.Digest}] = true
			}
		}
		return
	}
	u.repos[o.Repo] = true
	if o.From != "" || o.Kind == "MountBlob" {
		u.repos[o.From] = true
		u.digs[[2]string{o.From, o.Digest}] = true
	}
	if o.Tag != "" {
		u.tags[[2]string{o.Repo, o.Tag}] = true
	}
	if o.Digest != "" {
		u.digs[[2]string{o.Repo, o.Digest}] = true
	}
	if o.Desc != nil {
		u.digs[[2]string{o.Repo, o.Desc.Digest}] = true
	}
	if o.Kind == "PushManifest" || o.Kind == "PushBlob" {
		u.digs[[2]string{o.Repo, memsim.Sha(o.Content)}] = true
	}
	if o.Kind == "PushManifest" {
		// what the pushed bytes name directly (whatever media type they are pushed with): a
		// snapshot must be able to tell whether a tag's manifest has its references in place
		for _, media := range []string{ocispec.MediaTypeImageManifest, ocispec.MediaTypeImageIndex} {
			for i, ch := range childrenOf(media, o.Content) {
				if i >= 12 {
					break
				}
				if digest.Digest(ch[1]).Validate() == nil {
					u.digs[[2]string{o.Repo, ch[1]}] = true
				}
			}
		}
	}
}

func sortedPairs(m map[[2]string]bool) [][2]string {
	var ps [][2]string
	for p := range m {
		ps = append(ps, p)
	}
	sort.Slice(ps, func(i, j int) bool {
		if ps[i][0] != ps[j][0] {
			return ps[i][0] < ps[j][0]
		}
		return ps[i][1] < ps[j][1]
	})
	return ps
}

// children of a manifest as a client would find them: (isManifest, digest)
func childrenOf(media string, data []byte) [][2]string {
	var out [][2]string
	switch media {
	case ocispec.MediaTypeImageManifest:
		var m ocispec.Manifest
		if json.Unmarshal(data, &m) != nil {
			return nil
		}
		for _, l := range m.Layers {
			out = append(out, [2]string{"b", string(l.Digest)})
		}
		out = append(out, [2]string{"b", string(m.Config.Digest)})
		if m.Subject != nil {
			out = append(out, [2]string{"m", string(m.Subject.Digest)})
		}
	case ocispec.MediaTypeImageIndex:
		var ix ocispec.Index
		if json.Unmarshal(data, &ix) != nil {
			return nil
		}
		for _, l := range ix.Manifests {
			out = append(out, [2]string{"m", string(l.Digest)})
		}
		if ix.Subject != nil {
			out = append(out, [2]string{"m", string(ix.Subject.Digest)})
		}
	}
	return out
}

// buildProbes runs the snapshot on the underlying registry and extends it by the walk from
// every tag; it returns the probe list and the results.
func buildProbes(in input, ex *memsim.Exec) ([]probe, []memsim.Result) {
	u := &universe{repos: map[string]bool{}, tags: map[[2]string]bool{}, digs: map[[2]string]bool{}}
	for _, o := range in.Setup {
		u.op(o)
	}
	for _, o := range in.Ops {
		u.op(o)
	}
	for _, th := range in.Threads {
		for _, o := range th {
			u.op(o)
		}
	}
	for _, rv := range in.Rivals {
		u.op(rv.Op)
	}
	var ps []probe
	var rs []memsim.Result
	add := func(parent int, o memsim.Op) (int, memsim.Result) {
		r := ex.Run(o)
		ps = append(ps, probe{parent, o})
		rs = append(rs, r)
		return len(ps) - 1, r
	}
	add(-1, memsim.Op{Kind: "Repositories"})
	var repos []string
	for r := range u.repos {
		repos = append(repos, r)
	}
	sort.Strings(repos)
	for _, r := range repos {
		add(-1, memsim.Op{Kind: "Tags", Repo: r})
	}
	for _, p := range sortedPairs(u.digs) {
		add(-1, memsim.Op{Kind: "GetBlob", Repo: p[0], Digest: p[1]})
		add(-1, memsim.Op{Kind: "GetManifest", Repo: p[0], Digest: p[1]})
	}
	type qe struct {
		idx int
		res memsim.Result
	}
	for _, p := range sortedPairs(u.tags) {
		add(-1, memsim.Op{Kind: "ResolveTag", Repo: p[0], Tag: p[1]})
		i, r := add(-1, memsim.Op{Kind: "GetTag", Repo: p[0], Tag: p[1]})
		// walk (breadth first) from this tag
		seen := map[[2]string]bool{}
		queue := []qe{{i, r}}
		for len(queue) > 0 && len(ps) < 400 {
			q := queue[0]
			queue = queue[1:]
			if q.res.Kind != "read" {
				continue
			}
			for _, ch := range childrenOf(q.res.Desc.Media, q.res.Data) {
				if seen[ch] {
					continue
				}
				seen[ch] = true
				if ch[0] == "b" {
					add(q.idx, memsim.Op{Kind: "GetBlob", Repo: p[0], Digest: ch[1]})
				} else {
					ci, cr := add(q.idx, memsim.Op{Kind: "GetManifest", Repo: p[0], Digest: ch[1]})
					queue = append(queue, qe{ci, cr})
				}
			}
		}
	}
	return ps, rs
}

// nextLiteral finds the next byte-string literal "(p <len> [<words>])" (hx.B) at or after from
// and returns its bounds; ok = false when there is none.  (A hand-written scanner: the regular
// expression this replaces took three quarters of the harness's run time.)
func nextLiteral(s string, from int) (start, end int, ok bool) {
	for {
		i := strings.Index(s[from:], "(p ")
		if i < 0 {
			return 0, 0, false
		}
		start = from + i
		j := start + 3
		k := j
		for k < len(s) && s[k] >= '0' && s[k] <= '9' {
			k++
		}
		if k == j || k+1 >= len(s) || s[k] != ' ' || s[k+1] != '[' {
			from = start + 3
			continue
		}
		k += 2
		for k < len(s) && strings.IndexByte("0123456789%uint63; ", s[k]) >= 0 {
			k++
		}
		if k+1 < len(s) && s[k] == ']' && s[k+1] == ')' {
			return start, k + 2, true
		}
		from = start + 3
	}
}

// internLiterals binds every byte-string literal that occurs more than once in a case term to a
// local name (let b7 := ... in), so that Coq reads each content once.
func internLiterals(coq string) string {
	count := map[string]int{}
	for from := 0; ; {
		a, b, ok := nextLiteral(coq, from)
		if !ok {
			break
		}
		count[coq[a:b]]++
		from = b
	}
	names := map[string]string{}
	var order []string
	var body strings.Builder
	from := 0
	for {
		a, b, ok := nextLiteral(coq, from)
		if !ok {
			break
		}
		body.WriteString(coq[from:a])
		m := coq[a:b]
		if count[m] < 2 || len(m) < 40 {
			body.WriteString(m)
		} else {
			n, seen := names[m]
			if !seen {
				n = fmt.Sprintf("b%d_", len(names))
				names[m] = n
				order = append(order, m)
			}
			body.WriteString(n)
		}
		from = b
	}
	body.WriteString(coq[from:])
	var sb strings.Builder
	sb.WriteString("(")
	for _, m := range order {
		sb.WriteString("let " + names[m] + " := " + m + " in ")
	}
	sb.WriteString(body.String() + ")")
	return sb.String()
}

func coqEvents(ops []memsim.Op, rs []memsim.Result) string {
	items := make([]string, len(ops))
	for i := range ops {
		items[i] = "(" + ops[i].Coq() + ", " + rs[i].Coq() + ")"
	}
	return hx.List(items)
}

func coqResults(rs []memsim.Result) string {
	items := make([]string, len(rs))
	for i := range rs {
		items[i] = rs[i].Coq()
	}
	return hx.List(items)
}

func coqOps(ops []memsim.Op) string {
	items := make([]string, len(ops))
	for i := range ops {
		items[i] = ops[i].Coq()
	}
	return hx.List(items)
}

type step struct {
	Op  memsim.Op     `json:"op"`
	Res memsim.Result `json:"res"`
}

func steps(ops []memsim.Op, rs []memsim.Result) []step {
	out := make([]step, len(ops))
	for i := range ops {
		r := rs[i]
		if len(r.Data) > 64 {
			r.Data = r.Data[:64]
		}
		out[i] = step{ops[i], r}
	}
	return out
}

// callKinds: the method names of the calls that reached the registry, per operation (readable only)
func callKinds(trace [][]memsim.Op) [][]string {
	out := make([][]string, len(trace))
	for i, t := range trace {
		out[i] = []string{}
		for _, o := range t {
			out[i] = append(out[i], o.Kind)
		}
	}
	return out
}

func spin(d time.Duration) {
	t0 := time.Now()
	for time.Since(t0) < d {
	}
}

func bucket(n int) string {
	switch {
	case n < 10:
		return "<10"
	case n < 30:
		return "10-29"
	case n < 100:
		return "30-99"
	case n < 300:
		return "100-299"
	case n < 1000:
		return "300-999"
	}
	return ">=1000"
}

// calibrate brings a twin registry to the state in which the batch starts and runs the
// goroutines' operations on it one after the other; it returns the duration of the longest one.
func calibrate(in input) time.Duration {
	under, mech, _ := build(in)
	exU := memsim.NewExec(under, true)
	exM := exU
	if in.Mech != "immtags" {
		exM = memsim.NewExec(mech, true)
	}
	for _, o := range in.Setup {
		exU.Run(o)
	}
	for _, o := range in.Ops {
		exM.Run(o)
	}
	var longest time.Duration
	for _, th := range in.Threads {
		ex := memsim.NewExec(mech, true)
		for _, o := range th {
			t0 := time.Now()
			ex.Run(o)
			if d := time.Since(t0); d > longest {
				longest = d
			}
		}
	}
	if longest > 5*time.Millisecond {
		longest = 5 * time.Millisecond
	}
	return longest
}

// runCase executes one input on fresh registries and emits the case.
func runCase(out *hx.Out, in input, origin string) {
	under, mech, sp := build(in)
	exU := memsim.NewExec(under, true)
	exM := exU
	if in.Mech != "immtags" {
		exM = memsim.NewExec(mech, true)
	}
	if sp != nil {
		sp.canonID = canonIn(exM)
	}
	or := memsim.NewOracles()
	written := map[int][]byte{}
	observe := func(o memsim.Op, r memsim.Result) {
		or.Observe(o)
		if r.Kind == "read" {
			or.Content(r.Data)
		}
	}
	var setupRes []memsim.Result
	for _, o := range in.Setup {
		if o.Kind == "WCommit" {
			or.Content(written[o.W])
		}
		r := exU.Run(o)
		if o.Kind == "WWrite" && r.Kind == "n" {
			written[o.W] = append(append([]byte{}, written[o.W]...), o.Content[:r.N]...)
		}
		observe(o, r)
		setupRes = append(setupRes, r)
	}
	probes, before := buildProbes(in, exU)
	for i, p := range probes {
		observe(p.Op, before[i])
	}
	for _, rv := range in.Rivals {
		or.Observe(rv.Op)
	}
	var opsRes []memsim.Result
	var direct []string
	var trace [][]memsim.Op
	for _, o := range in.Ops {
		if o.Kind == "WCommit" {
			or.Content(written[o.W])
		}
		nf := 0
		if sp != nil {
			sp.take()
			nf = len(sp.fired)
		}
		r := exM.Run(o)
		if sp != nil {
			trace = append(trace, sp.take())
			if len(sp.fired) > nf {
				out.Count("rival:ops-with-rival")
				if o.Kind == "PushManifest" && o.Tag != "" && r.Kind == "err" && r.Code == "DENIED" {
					out.Count("rival:tagged-push-denied")
				}
			}
		}
		if o.Kind == "WWrite" && r.Kind == "n" {
			written[o.W] = append(append([]byte{}, written[o.W]...), o.Content[:r.N]...)
		}
		observe(o, r)
		opsRes = append(opsRes, r)
		if in.Mech == "readonly" {
			if isReadKind(o.Kind) {
				d := exU.Run(o)
				observe(o, d)
				direct = append(direct, "(Some ("+d.Coq()+"))")
			} else {
				direct = append(direct, "None")
			}
		}
		out.Count("op:" + o.Kind)
		if r.Kind == "err" {
			out.Count("errcode:" + r.Code)
		}
	}
	// concurrent batch
	thrRes := make([][]memsim.Result, len(in.Threads))
	if len(in.Threads) > 0 {
		// With gaps: the unit is the longest single operation of the batch, measured on a twin
		// registry brought to the same state.  Starting an operation at a random point inside
		// the span of another goroutine's operation is what makes a window inside that
		// operation (a lock released and re-taken, a check separated from its action) visible;
		// goroutines released together almost always run their first operations one after the
		// other.
		var unit time.Duration
		if len(in.Gaps) > 0 {
			unit = calibrate(in)
			out.Count(fmt.Sprintf("conc-unit-us:%s", bucket(int(unit/time.Microsecond))))
		}
		var wg sync.WaitGroup
		start := make(chan struct{})
		for i, th := range in.Threads {
			wg.Add(1)
			go func(i int, th []memsim.Op) {
				defer wg.Done()
				ex := memsim.NewExec(mech, true)
				rs := make([]memsim.Result, len(th))
				<-start
				for j, o := range th {
					if i < len(in.Gaps) && j < len(in.Gaps[i]) && in.Gaps[i][j] > 0 {
						spin(time.Duration(in.Gaps[i][j] * float64(unit)))
					}
					rs[j] = ex.Run(o)
				}
				thrRes[i] = rs
			}(i, th)
		}
		close(start)
		wg.Wait()
		for i, th := range in.Threads {
			for j, o := range th {
				observe(o, thrRes[i][j])
				out.Count("conc-op:" + o.Kind)
			}
		}
	}
	after := make([]memsim.Result, len(probes))
	for i, p := range probes {
		after[i] = exU.Run(p.Op)
		observe(p.Op, after[i])
	}
	pcoq := make([]string, len(probes))
	pops := make([]memsim.Op, len(probes))
	for i, p := range probes {
		par := "None"
		if p.Parent >= 0 {
			par = fmt.Sprintf("(Some %d%%N)", p.Parent)
		}
		pcoq[i] = fmt.Sprintf("{| p_parent := %s; p_op := %s |}", par, p.Op.Coq())
		pops[i] = p.Op
	}
	thr := make([]string, len(in.Threads))
	for i := range in.Threads {
		thr[i] = coqEvents(in.Threads[i], thrRes[i])
	}
	mechCoq := map[string]string{"readonly": "MReadOnly", "immutable": "MImmutable", "immtags": "MImmTags"}[in.Mech]
	rivCoq := make([]string, len(in.Rivals))
	for i, rv := range in.Rivals {
		rivCoq[i] = fmt.Sprintf("(%d%%N, %s)", rv.After, rv.Op.Coq())
	}
	traceCoq := "None"
	var fired []rivalStep
	if sp != nil {
		ts := make([]string, len(trace))
		for i := range trace {
			ts[i] = coqOps(trace[i])
		}
		traceCoq = "(Some " + hx.List(ts) + ")"
		fired = sp.fired
		for _, f := range fired {
			out.Count("rival-op:" + f.Op.Kind + "/" + f.Res.Kind)
		}
	}
	coq := fmt.Sprintf("{| c_mech := %s; c_wrap := %s; c_under_imm := %s; c_orc := %s; c_setup := %s; c_setup_obs := %s; "+
		"c_probes := %s; c_before := %s; c_rivals := %s; c_ops := %s; c_obs := %s; c_trace := %s; c_direct := %s; c_threads := %s; c_after := %s |}",
		mechCoq, wrapCoq[in.Wrap], hx.Bool(in.UnderImm), or.Coq(), coqOps(in.Setup), coqResults(setupRes),
		hx.List(pcoq), coqResults(before), hx.List(rivCoq), coqOps(in.Ops), coqResults(opsRes), traceCoq, hx.List(direct), hx.List(thr), coqResults(after))
	thrSteps := make([][]step, len(in.Threads))
	for i := range in.Threads {
		thrSteps[i] = steps(in.Threads[i], thrRes[i])
	}
	changed := 0
	for i := range before {
		if before[i].Coq() != after[i].Coq() {
			changed++
		}
	}
	class := in.Mech + "/" + origin
	if in.Wrap != "" {
		class = in.Mech + "-over-" + in.Wrap + "/" + origin
	}
	if out.Add(hx.Case{Coq: internLiterals(coq),
		Desc: map[string]any{"input": in, "origin": origin, "setup_trace": steps(in.Setup, setupRes),
			"trace": steps(in.Ops, opsRes), "threads_trace": thrSteps, "rival_trace": fired, "backend_calls": callKinds(trace),
			"probes_changed": changed, "probes": len(probes)},
		Tags: map[string]any{"class": class, "mech": in.Mech}}) {
		out.Count("mech:" + in.Mech)
		if in.Mech != "immtags" {
			out.Count("wrap:" + in.Mech + "/" + wrapCoq[in.Wrap])
		}
		out.Count("origin:" + origin)
		out.Count(fmt.Sprintf("len:%d", (len(in.Setup)+len(in.Ops)+9)/10*10))
		if len(in.Threads) > 0 {
			out.Count(fmt.Sprintf("threads:%d", len(in.Threads)))
		}
		if changed > 0 {
			out.Count("snapshot-changed:" + in.Mech)
		}
		if len(in.Rivals) > 0 {
			out.Count("with-rival:" + in.Mech + "/" + wrapCoq[in.Wrap])
		}
		if sp != nil {
			out.Count("traced:" + in.Mech)
		}
	}
}

func main() {
	cfg := hx.ParseFlags()
	out := hx.NewOut(cfg, "Obs.C14")
	out.ShardMax = 24
	if cfg.Replay != "" {
		b, err := os.ReadFile(cfg.Replay)
		if err != nil {
			panic(err)
		}
		var r struct {
			Input input `json:"input"`
		}
		if err := json.Unmarshal(b, &r); err != nil {
			panic(err)
		}
		runCase(out, r.Input, "replay")
		if err := out.Flush(); err != nil {
			panic(err)
		}
		return
	}
	if dir := os.Getenv("C14_WRITE_CORPUS"); dir != "" {
		for name, in := range scripted() {
			if strings.HasPrefix(name, "corpus_") {
				b, _ := json.Marshal(map[string]any{"input": in})
				if err := os.WriteFile(filepath.Join(dir, strings.TrimPrefix(name, "corpus_")+".json"), b, 0o644); err != nil {
					panic(err)
				}
			}
		}
	}
	for _, raw := range hx.LoadCorpus(cfg.Corpus) {
		var r struct {
			Input input `json:"input"`
		}
		if json.Unmarshal(raw, &r) == nil && r.Input.Mech != "" {
			runCase(out, r.Input, "corpus")
		}
	}
	sc := scripted()
	var names []string
	for n := range sc {
		names = append(names, n)
	}
	sort.Strings(names)
	type job struct {
		in     input
		origin string
	}
	var seq, conc []job
	for _, n := range names {
		seq = append(seq, job{sc[n], "scripted"})
	}
	rnd := cfg.Rand()
	n := 380
	if cfg.Thorough() {
		n = 5000
	}
	for i := 0; i < n; i++ {
		seq = append(seq, job{randomInput(rnd, i), "random"})
	}
	nc, nd := 100, 48
	if cfg.Thorough() {
		nc, nd = 1200, 700
	}
	for i := 0; i < nc; i++ {
		conc = append(conc, job{concInput(rnd, i), "concurrent"})
	}
	for i := 0; i < nd; i++ {
		conc = append(conc, job{duelInput(rnd, i), "duel"})
	}
	// the concurrent cases cost the most to evaluate (a search for a linearization): spread them
	// evenly over the case files
	rnd.Shuffle(len(conc), func(i, j int) { conc[i], conc[j] = conc[j], conc[i] })
	every := len(seq)/len(conc) + 1
	for len(seq) > 0 || len(conc) > 0 {
		k := every
		if k > len(seq) {
			k = len(seq)
		}
		for _, j := range seq[:k] {
			runCase(out, j.in, j.origin)
		}
		seq = seq[k:]
		if len(conc) > 0 {
			runCase(out, conc[0].in, conc[0].origin)
			conc = conc[1:]
		}
	}
	if err := out.Flush(); err != nil {
		panic(err)
	}
}
