package main

import (
	"bytes"
	"context"
	"io"

	"cuelabs.dev/go/oci/ociregistry"
	"cuelabs.dev/go/oci/ociregistry/ocifilter"
	"verif/harness/memsim"
)

// The registry a wrapper is given can be any ociregistry.Interface.  The wrappers of C14 are
// specified for all of them, so the harness hands the in-memory registry over under several
// dynamic types, each of which forwards every call unchanged (coq/Obs/C14.v: [wrapping]):
//
//	""        the *ocimem.Registry itself
//	"funcs"   a *ociregistry.Funcs whose every member is set and forwards (the documented way to
//	          implement Interface: logging / metrics / forwarding layers look like this)
//	"embed"   a struct that embeds such a *Funcs as an ociregistry.Interface
//	"select"  ocifilter.Select(that *Funcs, accept everything): a pointer to a struct that embeds a nil *Funcs
//
// The forwarding *Funcs is a spy (below): it records the calls that reach the registry.
var wrapKinds = []string{"", "funcs", "embed", "select"}

var wrapCoq = map[string]string{"": "WDirect", "funcs": "WFuncs", "embed": "WEmbed", "select": "WSelect"}

// spy is the forwarding value between a wrapper and the registry.  It forwards every call
// unchanged and keeps a list of the calls it served (coq/Obs/C14.v: [c_trace]).  It can also act
// for a rival client of the same registry: right after it has served its n-th call it performs
// the operations scheduled for n directly on the registry ([rival_step]) - somebody else's push
// landing between two calls of the wrapper.
type spy struct {
	under  ociregistry.Interface
	calls  []memsim.Op         // calls served since the last take
	count  int                 // calls served so far
	rivals map[int][]memsim.Op // what the rival does right after call n
	exR    *memsim.Exec        // the rival's executor: directly on the registry
	fired  []rivalStep
	// the upload ids the wrapper's user sees are canonical (memsim); the spy sees the real ones
	canonID func(real string) string
}

type rivalStep struct {
	After int           `json:"after"`
	Op    memsim.Op     `json:"op"`
	Res   memsim.Result `json:"res"`
}

func (s *spy) served(o memsim.Op) {
	s.calls = append(s.calls, o)
	n := s.count
	s.count++
	for _, ro := range s.rivals[n] {
		res := s.exR.Run(ro)
		if len(res.Data) > 64 {
			res.Data = res.Data[:64]
		}
		s.fired = append(s.fired, rivalStep{n, ro, res})
	}
}

func (s *spy) take() []memsim.Op {
	c := s.calls
	s.calls = nil
	return c
}

func newSpy(r ociregistry.Interface) *spy {
	return &spy{under: r, rivals: map[int][]memsim.Op{}, exR: memsim.NewExec(r, true)}
}

func wrapAs(kind string, r ociregistry.Interface) (ociregistry.Interface, *spy) {
	if kind == "" {
		return r, nil
	}
	sp := newSpy(r)
	f := sp.funcs()
	switch kind {
	case "funcs":
		return f, sp
	case "embed":
		return struct{ ociregistry.Interface }{f}, sp
	case "select":
		return ocifilter.Select(f, func(string) bool { return true }), sp
	}
	panic("unknown wrapping " + kind)
}

func opDesc(d ociregistry.Descriptor) *memsim.Desc {
	return &memsim.Desc{Media: d.MediaType, Digest: string(d.Digest), Size: d.Size}
}

func (s *spy) funcs() *ociregistry.Funcs {
	r := s.under
	return &ociregistry.Funcs{
		// NewError is only consulted for nil members; there are none
		NewError: func(ctx context.Context, methodName, repo string) error {
			panic("forwarding Funcs: NewError called for " + methodName)
		},
		GetBlob_: func(ctx context.Context, repo string, digest ociregistry.Digest) (ociregistry.BlobReader, error) {
			rd, err := r.GetBlob(ctx, repo, digest)
			s.served(memsim.Op{Kind: "GetBlob", Repo: repo, Digest: string(digest)})
			return rd, err
		},
		GetBlobRange_: func(ctx context.Context, repo string, digest ociregistry.Digest, o0, o1 int64) (ociregistry.BlobReader, error) {
			rd, err := r.GetBlobRange(ctx, repo, digest, o0, o1)
			s.served(memsim.Op{Kind: "GetBlobRange", Repo: repo, Digest: string(digest), O0: o0, O1: o1})
			return rd, err
		},
		GetManifest_: func(ctx context.Context, repo string, digest ociregistry.Digest) (ociregistry.BlobReader, error) {
			rd, err := r.GetManifest(ctx, repo, digest)
			s.served(memsim.Op{Kind: "GetManifest", Repo: repo, Digest: string(digest)})
			return rd, err
		},
		GetTag_: func(ctx context.Context, repo string, tagName string) (ociregistry.BlobReader, error) {
			rd, err := r.GetTag(ctx, repo, tagName)
			s.served(memsim.Op{Kind: "GetTag", Repo: repo, Tag: tagName})
			return rd, err
		},
		ResolveBlob_: func(ctx context.Context, repo string, digest ociregistry.Digest) (ociregistry.Descriptor, error) {
			d, err := r.ResolveBlob(ctx, repo, digest)
			s.served(memsim.Op{Kind: "ResolveBlob", Repo: repo, Digest: string(digest)})
			return d, err
		},
		ResolveManifest_: func(ctx context.Context, repo string, digest ociregistry.Digest) (ociregistry.Descriptor, error) {
			d, err := r.ResolveManifest(ctx, repo, digest)
			s.served(memsim.Op{Kind: "ResolveManifest", Repo: repo, Digest: string(digest)})
			return d, err
		},
		ResolveTag_: func(ctx context.Context, repo string, tagName string) (ociregistry.Descriptor, error) {
			d, err := r.ResolveTag(ctx, repo, tagName)
			s.served(memsim.Op{Kind: "ResolveTag", Repo: repo, Tag: tagName})
			return d, err
		},
		PushBlob_: func(ctx context.Context, repo string, desc ociregistry.Descriptor, rd io.Reader) (ociregistry.Descriptor, error) {
			data, rerr := io.ReadAll(rd)
			if rerr != nil {
				panic("forwarding Funcs: reading the blob handed to PushBlob: " + rerr.Error())
			}
			d, err := r.PushBlob(ctx, repo, desc, bytes.NewReader(append([]byte{}, data...)))
			s.served(memsim.Op{Kind: "PushBlob", Repo: repo, Desc: opDesc(desc), Content: data})
			return d, err
		},
		PushBlobChunked_: func(ctx context.Context, repo string, chunkSize int) (ociregistry.BlobWriter, error) {
			w, err := r.PushBlobChunked(ctx, repo, chunkSize)
			s.served(memsim.Op{Kind: "PushBlobChunked", Repo: repo, Hint: int64(chunkSize)})
			return w, err
		},
		PushBlobChunkedResume_: func(ctx context.Context, repo, id string, offset int64, chunkSize int) (ociregistry.BlobWriter, error) {
			w, err := r.PushBlobChunkedResume(ctx, repo, id, offset, chunkSize)
			if s.canonID != nil {
				id = s.canonID(id)
			}
			s.served(memsim.Op{Kind: "PushBlobChunkedResume", Repo: repo, ID: id, Off: offset, Hint: int64(chunkSize)})
			return w, err
		},
		MountBlob_: func(ctx context.Context, fromRepo, toRepo string, digest ociregistry.Digest) (ociregistry.Descriptor, error) {
			d, err := r.MountBlob(ctx, fromRepo, toRepo, digest)
			s.served(memsim.Op{Kind: "MountBlob", From: fromRepo, Repo: toRepo, Digest: string(digest)})
			return d, err
		},
		PushManifest_: func(ctx context.Context, repo string, tag string, contents []byte, mediaType string) (ociregistry.Descriptor, error) {
			seen := append([]byte{}, contents...)
			d, err := r.PushManifest(ctx, repo, tag, contents, mediaType)
			s.served(memsim.Op{Kind: "PushManifest", Repo: repo, Tag: tag, Content: seen, Media: mediaType})
			return d, err
		},
		DeleteBlob_: func(ctx context.Context, repo string, digest ociregistry.Digest) error {
			err := r.DeleteBlob(ctx, repo, digest)
			s.served(memsim.Op{Kind: "DeleteBlob", Repo: repo, Digest: string(digest)})
			return err
		},
		DeleteManifest_: func(ctx context.Context, repo string, digest ociregistry.Digest) error {
			err := r.DeleteManifest(ctx, repo, digest)
			s.served(memsim.Op{Kind: "DeleteManifest", Repo: repo, Digest: string(digest)})
			return err
		},
		DeleteTag_: func(ctx context.Context, repo string, name string) error {
			err := r.DeleteTag(ctx, repo, name)
			s.served(memsim.Op{Kind: "DeleteTag", Repo: repo, Tag: name})
			return err
		},
		Repositories_: func(ctx context.Context, startAfter string) ociregistry.Seq[string] {
			seq := r.Repositories(ctx, startAfter)
			s.served(memsim.Op{Kind: "Repositories", Start: startAfter})
			return seq
		},
		Tags_: func(ctx context.Context, repo string, startAfter string) ociregistry.Seq[string] {
			seq := r.Tags(ctx, repo, startAfter)
			s.served(memsim.Op{Kind: "Tags", Repo: repo, Start: startAfter})
			return seq
		},
		Referrers_: func(ctx context.Context, repo string, digest ociregistry.Digest, artifactType string) ociregistry.Seq[ociregistry.Descriptor] {
			seq := r.Referrers(ctx, repo, digest, artifactType)
			s.served(memsim.Op{Kind: "Referrers", Repo: repo, Digest: string(digest), Art: artifactType})
			return seq
		},
	}
}
