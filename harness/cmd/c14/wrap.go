package main

import (
	"context"
	"io"

	"cuelabs.dev/go/oci/ociregistry"
	"cuelabs.dev/go/oci/ociregistry/ocifilter"
)

// The registry a wrapper is given can be any ociregistry.Interface.  The wrappers of C14 are
// specified for all of them, so the harness hands the in-memory registry over under several
// dynamic types, each of which forwards every call unchanged (coq/Obs/C14.v: [wrapping]):
//
//	""        the *ocimem.Registry itself
//	"funcs"   a *ociregistry.Funcs whose every member is set and forwards (the documented way to
//	          implement Interface: logging / metrics / forwarding layers look like this)
//	"embed"   a struct that embeds the registry as an ociregistry.Interface
//	"select"  ocifilter.Select(r, accept everything): a pointer to a struct that embeds a nil *Funcs
var wrapKinds = []string{"", "funcs", "embed", "select"}

var wrapCoq = map[string]string{"": "WDirect", "funcs": "WFuncs", "embed": "WEmbed", "select": "WSelect"}

func wrapAs(kind string, r ociregistry.Interface) ociregistry.Interface {
	switch kind {
	case "":
		return r
	case "funcs":
		return forwardingFuncs(r)
	case "embed":
		return struct{ ociregistry.Interface }{r}
	case "select":
		return ocifilter.Select(r, func(string) bool { return true })
	}
	panic("unknown wrapping " + kind)
}

func forwardingFuncs(r ociregistry.Interface) *ociregistry.Funcs {
	return &ociregistry.Funcs{
		// NewError is only consulted for nil members; there are none
		NewError: func(ctx context.Context, methodName, repo string) error {
			panic("forwardingFuncs: NewError called for " + methodName)
		},
		GetBlob_: func(ctx context.Context, repo string, digest ociregistry.Digest) (ociregistry.BlobReader, error) {
			return r.GetBlob(ctx, repo, digest)
		},
		GetBlobRange_: func(ctx context.Context, repo string, digest ociregistry.Digest, o0, o1 int64) (ociregistry.BlobReader, error) {
			return r.GetBlobRange(ctx, repo, digest, o0, o1)
		},
		GetManifest_: func(ctx context.Context, repo string, digest ociregistry.Digest) (ociregistry.BlobReader, error) {
			return r.GetManifest(ctx, repo, digest)
		},
		GetTag_: func(ctx context.Context, repo string, tagName string) (ociregistry.BlobReader, error) {
			return r.GetTag(ctx, repo, tagName)
		},
		ResolveBlob_: func(ctx context.Context, repo string, digest ociregistry.Digest) (ociregistry.Descriptor, error) {
			return r.ResolveBlob(ctx, repo, digest)
		},
		ResolveManifest_: func(ctx context.Context, repo string, digest ociregistry.Digest) (ociregistry.Descriptor, error) {
			return r.ResolveManifest(ctx, repo, digest)
		},
		ResolveTag_: func(ctx context.Context, repo string, tagName string) (ociregistry.Descriptor, error) {
			return r.ResolveTag(ctx, repo, tagName)
		},
		PushBlob_: func(ctx context.Context, repo string, desc ociregistry.Descriptor, rd io.Reader) (ociregistry.Descriptor, error) {
			return r.PushBlob(ctx, repo, desc, rd)
		},
		PushBlobChunked_: func(ctx context.Context, repo string, chunkSize int) (ociregistry.BlobWriter, error) {
			return r.PushBlobChunked(ctx, repo, chunkSize)
		},
		PushBlobChunkedResume_: func(ctx context.Context, repo, id string, offset int64, chunkSize int) (ociregistry.BlobWriter, error) {
			return r.PushBlobChunkedResume(ctx, repo, id, offset, chunkSize)
		},
		MountBlob_: func(ctx context.Context, fromRepo, toRepo string, digest ociregistry.Digest) (ociregistry.Descriptor, error) {
			return r.MountBlob(ctx, fromRepo, toRepo, digest)
		},
		PushManifest_: func(ctx context.Context, repo string, tag string, contents []byte, mediaType string) (ociregistry.Descriptor, error) {
			return r.PushManifest(ctx, repo, tag, contents, mediaType)
		},
		DeleteBlob_: func(ctx context.Context, repo string, digest ociregistry.Digest) error {
			return r.DeleteBlob(ctx, repo, digest)
		},
		DeleteManifest_: func(ctx context.Context, repo string, digest ociregistry.Digest) error {
			return r.DeleteManifest(ctx, repo, digest)
		},
		DeleteTag_: func(ctx context.Context, repo string, name string) error {
			return r.DeleteTag(ctx, repo, name)
		},
		Repositories_: func(ctx context.Context, startAfter string) ociregistry.Seq[string] {
			return r.Repositories(ctx, startAfter)
		},
		Tags_: func(ctx context.Context, repo string, startAfter string) ociregistry.Seq[string] {
			return r.Tags(ctx, repo, startAfter)
		},
		Referrers_: func(ctx context.Context, repo string, digest ociregistry.Digest, artifactType string) ociregistry.Seq[ociregistry.Descriptor] {
			return r.Referrers(ctx, repo, digest, artifactType)
		},
	}
}
