package main

import (
	"encoding/json"
	"fmt"
	"sort"

	"github.com/opencontainers/go-digest"
	ocispec "github.com/opencontainers/image-spec/specs-go/v1"
	"verif/harness/memsim"
)

// ---- graphs in which the walk from the tags meets a digest more than once ----

// What a tag reaches is a graph, not a tree, and a digest is not a kind.  The same digest can be
// met by the walk from the tags
//
//   - in two roles: the bytes of an image manifest are stored in the repository as a manifest AND
//     as a plain blob (an image that carries another image's manifest as a layer or as its config),
//     and something tagged names that digest once as a layer / config and once as an index entry
//     or a subject;
//   - by two paths: two entries of an index share a layer, a config or a child; an index lists the
//     same child twice; an image lists the same layer twice, or its config among its layers; a
//     manifest is the subject of one entry and an entry itself; two tags reach the same child;
//   - at two depths: directly from the tag and again below a nested index.
//
// Whatever the walk does to visit each thing once, every one of these meetings must leave all
// that the manifest behind the digest names protected: "this digest was seen" is never a reason
// not to look at it as a manifest, unless it was looked at AS A MANIFEST before.

func imageOf(cfg ocispec.Descriptor, subject *ocispec.Descriptor, layers ...ocispec.Descriptor) []byte {
	m := ocispec.Manifest{MediaType: mtImage, Config: cfg, Subject: subject, Layers: layers}
	m.SchemaVersion = 2
	b, _ := json.Marshal(m)
	return b
}

func blobDesc(c []byte) ocispec.Descriptor { return descOf("application/layer", c) }

type sharedShape struct {
	name string
	// store: everything but the tagging, in an order the registry accepts
	store []memsim.Op
	// tagging: the tagged pushes (and one observation of each tag)
	tagging []memsim.Op
	// blobs / manifests that the tags reach (all must survive), in the order they are attacked
	blobs, mans [][]byte
	// digests held in both stores
	dual [][]byte
}

func sharedShapes() []sharedShape {
	layerN := []byte("the layer of the inner image 0123456789")
	cfgN := []byte(`{"os":"inner"}`)
	cfgO := []byte(`{"os":"outer"}`)
	other := []byte("a layer of the outer image")
	// the inner image N: a manifest, and the same bytes as a blob
	N := imageOf(descOf(ocispec.MediaTypeImageConfig, cfgN), nil, blobDesc(layerN))
	dN := descOf(mtImage, N)
	// outer images that carry N's bytes as a layer / as their config
	outerL := imageOf(descOf(ocispec.MediaTypeImageConfig, cfgO), nil, blobDesc(N))
	outerL2 := imageOf(descOf(ocispec.MediaTypeImageConfig, cfgO), nil, blobDesc(other), blobDesc(N))
	outerC := imageOf(descOf(ocispec.MediaTypeImageConfig, N), nil, blobDesc(other))
	outerS := imageOf(descOf(ocispec.MediaTypeImageConfig, cfgO), &dN, blobDesc(N)) // layer first, then subject
	base := []memsim.Op{pushBlob("r1", layerN), pushBlob("r1", cfgN), pushBlob("r1", cfgO), pushBlob("r1", other),
		pushMan("r1", "", N, mtImage), pushBlob("r1", N)}
	// the same with the blob stored before the manifest
	baseBlobFirst := []memsim.Op{pushBlob("r1", layerN), pushBlob("r1", cfgN), pushBlob("r1", cfgO), pushBlob("r1", other),
		pushBlob("r1", N), pushMan("r1", "", N, mtImage)}
	with := func(b []memsim.Op, ops ...memsim.Op) []memsim.Op { return append(append([]memsim.Op{}, b...), ops...) }
	tagged := func(tag string, c []byte, media string) []memsim.Op {
		return []memsim.Op{pushMan("r1", tag, c, media), getTag("r1", tag)}
	}
	var out []sharedShape
	add := func(s sharedShape) { out = append(out, s) }

	// two roles
	ixBM := indexBytes(nil, descOf(mtImage, outerL), dN)
	add(sharedShape{"dual_index_blob_then_manifest", with(base, pushMan("r1", "", outerL, mtImage)), tagged("v1", ixBM, mtIndex),
		[][]byte{layerN, cfgN, N, cfgO}, [][]byte{N, outerL, ixBM}, [][]byte{N}})
	ixMB := indexBytes(nil, dN, descOf(mtImage, outerL))
	add(sharedShape{"dual_index_manifest_then_blob", with(baseBlobFirst, pushMan("r1", "", outerL, mtImage)), tagged("v1", ixMB, mtIndex),
		[][]byte{layerN, cfgN, N, cfgO}, [][]byte{N, outerL, ixMB}, [][]byte{N}})
	ixB2M := indexBytes(nil, descOf(mtImage, outerL2), dN)
	add(sharedShape{"dual_index_second_layer_then_manifest", with(base, pushMan("r1", "", outerL2, mtImage)), tagged("v1", ixB2M, mtIndex),
		[][]byte{cfgN, layerN, N, other}, [][]byte{N, outerL2, ixB2M}, [][]byte{N}})
	ixCM := indexBytes(nil, descOf(mtImage, outerC), dN)
	add(sharedShape{"dual_index_config_then_manifest", with(baseBlobFirst, pushMan("r1", "", outerC, mtImage)), tagged("v1", ixCM, mtIndex),
		[][]byte{layerN, cfgN, N, other}, [][]byte{N, outerC, ixCM}, [][]byte{N}})
	add(sharedShape{"dual_image_layer_then_subject", base, tagged("v1", outerS, mtImage),
		[][]byte{layerN, cfgN, N, cfgO}, [][]byte{N, outerS}, [][]byte{N}})
	// the subject of a tagged index whose entry carries the digest as a layer
	ixSubj := indexBytes(&dN, descOf(mtImage, outerL))
	add(sharedShape{"dual_index_entry_layer_then_subject", with(base, pushMan("r1", "", outerL, mtImage)), tagged("v1", ixSubj, mtIndex),
		[][]byte{layerN, cfgN, N}, [][]byte{N, outerL, ixSubj}, [][]byte{N}})
	// one level further down: the blob role below a nested index, the manifest role at the top, and the reverse
	ixIn := indexBytes(nil, descOf(mtImage, outerL))
	ixDeepB := indexBytes(nil, descOf(mtIndex, ixIn), dN)
	add(sharedShape{"dual_nested_blob_deep", with(base, pushMan("r1", "", outerL, mtImage), pushMan("r1", "", ixIn, mtIndex)), tagged("v1", ixDeepB, mtIndex),
		[][]byte{layerN, cfgN, N}, [][]byte{N, outerL, ixIn, ixDeepB}, [][]byte{N}})
	ixInN := indexBytes(nil, dN)
	ixDeepM := indexBytes(nil, descOf(mtImage, outerL), descOf(mtIndex, ixInN))
	add(sharedShape{"dual_nested_manifest_deep", with(baseBlobFirst, pushMan("r1", "", outerL, mtImage), pushMan("r1", "", ixInN, mtIndex)), tagged("v1", ixDeepM, mtIndex),
		[][]byte{cfgN, layerN, N}, [][]byte{N, ixInN, outerL, ixDeepM}, [][]byte{N}})
	// two tags (the registry visits them in no particular order)
	add(sharedShape{"dual_two_tags", base, append(tagged("v1", outerL, mtImage), tagged("v2", N, mtImage)...),
		[][]byte{layerN, cfgN, N, cfgO}, [][]byte{N, outerL}, [][]byte{N}})
	add(sharedShape{"dual_two_tags_index", with(base, pushMan("r1", "", outerC, mtImage)),
		append(tagged("a", indexBytes(nil, descOf(mtImage, outerC)), mtIndex), tagged("b", indexBytes(nil, dN), mtIndex)...),
		[][]byte{layerN, cfgN, N, other}, [][]byte{N, outerC}, [][]byte{N}})
	// an index stored as a blob too: an image has the index's bytes as a layer, a tagged index lists both
	ixN := indexBytes(nil, dN)
	carrier := imageOf(descOf(ocispec.MediaTypeImageConfig, cfgO), nil, blobDesc(ixN))
	ixTop := indexBytes(nil, descOf(mtImage, carrier), descOf(mtIndex, ixN))
	add(sharedShape{"dual_index_as_blob", with(base, pushMan("r1", "", ixN, mtIndex), pushBlob("r1", ixN), pushMan("r1", "", carrier, mtImage)), tagged("v1", ixTop, mtIndex),
		[][]byte{layerN, cfgN, ixN}, [][]byte{N, ixN, carrier, ixTop}, [][]byte{ixN, N}})
	// the digest held in both stores, named in one role only
	add(sharedShape{"dual_named_as_manifest_only", base, tagged("v1", ixInN, mtIndex),
		[][]byte{layerN, cfgN}, [][]byte{N, ixInN}, [][]byte{N}})
	add(sharedShape{"dual_named_as_blob_only", base, tagged("v1", outerL, mtImage),
		[][]byte{N, cfgO}, [][]byte{outerL}, [][]byte{N}})

	// two paths
	shared := []byte("a layer two images share")
	cfgA, cfgB := []byte(`{"arch":"a"}`), []byte(`{"arch":"b"}`)
	la, lb := []byte("only in image a"), []byte("only in image b")
	imgA := imageOf(descOf(ocispec.MediaTypeImageConfig, cfgA), nil, blobDesc(shared), blobDesc(la))
	imgB := imageOf(descOf(ocispec.MediaTypeImageConfig, cfgB), nil, blobDesc(shared), blobDesc(lb))
	imgB2 := imageOf(descOf(ocispec.MediaTypeImageConfig, cfgA), nil, blobDesc(lb)) // shares the config with a
	blobs2 := []memsim.Op{pushBlob("r1", shared), pushBlob("r1", cfgA), pushBlob("r1", cfgB), pushBlob("r1", la), pushBlob("r1", lb)}
	ixAB := indexBytes(nil, descOf(mtImage, imgA), descOf(mtImage, imgB))
	add(sharedShape{"shared_layer", with(blobs2, pushMan("r1", "", imgA, mtImage), pushMan("r1", "", imgB, mtImage)), tagged("v1", ixAB, mtIndex),
		[][]byte{lb, cfgB, shared, la, cfgA}, [][]byte{imgB, imgA, ixAB}, nil})
	ixAB2 := indexBytes(nil, descOf(mtImage, imgA), descOf(mtImage, imgB2))
	add(sharedShape{"shared_config", with(blobs2, pushMan("r1", "", imgA, mtImage), pushMan("r1", "", imgB2, mtImage)), tagged("v1", ixAB2, mtIndex),
		[][]byte{lb, cfgA, shared, la}, [][]byte{imgB2, imgA, ixAB2}, nil})
	// the same child twice: with the same descriptor, and with another media type / platform the second time
	second := descOf(mtFoo, imgA)
	second.Platform = &ocispec.Platform{Architecture: "arm64", OS: "linux"}
	ixTwice := indexBytes(nil, descOf(mtImage, imgA), descOf(mtImage, imgA), second, descOf(mtImage, imgB))
	add(sharedShape{"child_twice", with(blobs2, pushMan("r1", "", imgA, mtImage), pushMan("r1", "", imgB, mtImage)), tagged("v1", ixTwice, mtIndex),
		[][]byte{lb, cfgB, la, shared, cfgA}, [][]byte{imgB, imgA, ixTwice}, nil})
	// an image that lists a layer twice, and its config among its layers
	imgRep := imageOf(descOf(ocispec.MediaTypeImageConfig, cfgA), nil, blobDesc(la), blobDesc(la), blobDesc(cfgA), blobDesc(lb))
	add(sharedShape{"layer_twice_config_as_layer", blobs2, tagged("v1", imgRep, mtImage),
		[][]byte{lb, la, cfgA}, [][]byte{imgRep}, nil})
	// a diamond of indexes: both arms lead to image a, one of them further to image b
	arm1 := indexBytes(nil, descOf(mtImage, imgA))
	arm2 := indexBytes(nil, descOf(mtImage, imgA), descOf(mtImage, imgB))
	top := indexBytes(nil, descOf(mtIndex, arm1), descOf(mtIndex, arm2))
	add(sharedShape{"diamond", with(blobs2, pushMan("r1", "", imgA, mtImage), pushMan("r1", "", imgB, mtImage), pushMan("r1", "", arm1, mtIndex), pushMan("r1", "", arm2, mtIndex)),
		tagged("v1", top, mtIndex), [][]byte{lb, cfgB, la, shared, cfgA}, [][]byte{imgB, imgA, arm2, arm1, top}, nil})
	// the same child at two depths: below a nested index first, then directly (and the reverse)
	deepFirst := indexBytes(nil, descOf(mtIndex, arm1), descOf(mtImage, imgA), descOf(mtImage, imgB))
	add(sharedShape{"two_depths_deep_first", with(blobs2, pushMan("r1", "", imgA, mtImage), pushMan("r1", "", imgB, mtImage), pushMan("r1", "", arm1, mtIndex)),
		tagged("v1", deepFirst, mtIndex), [][]byte{lb, la, cfgA, shared}, [][]byte{imgB, imgA, arm1, deepFirst}, nil})
	shallowFirst := indexBytes(nil, descOf(mtImage, imgA), descOf(mtIndex, arm2))
	add(sharedShape{"two_depths_shallow_first", with(blobs2, pushMan("r1", "", imgA, mtImage), pushMan("r1", "", imgB, mtImage), pushMan("r1", "", arm2, mtIndex)),
		tagged("v1", shallowFirst, mtIndex), [][]byte{lb, cfgB, la, shared}, [][]byte{imgB, imgA, arm2, shallowFirst}, nil})
	// subject and entry: image b's subject is image a and the index lists b, then a; an index whose
	// own subject is one of its entries; the subject named first as an entry of a nested index
	dA := descOf(mtImage, imgA)
	refB := imageOf(descOf(ocispec.MediaTypeImageConfig, cfgB), &dA, blobDesc(lb))
	ixSE := indexBytes(nil, descOf(mtImage, refB), dA)
	add(sharedShape{"subject_then_entry", with(blobs2, pushMan("r1", "", imgA, mtImage), pushMan("r1", "", refB, mtImage)), tagged("v1", ixSE, mtIndex),
		[][]byte{la, shared, cfgA, lb}, [][]byte{imgA, refB, ixSE}, nil})
	ixES := indexBytes(&dA, dA, descOf(mtImage, refB))
	add(sharedShape{"entry_then_subject", with(blobs2, pushMan("r1", "", imgA, mtImage), pushMan("r1", "", refB, mtImage)), tagged("v1", ixES, mtIndex),
		[][]byte{la, shared, cfgA, lb}, [][]byte{imgA, refB, ixES}, nil})
	// the subject stored only after the referrer was tagged, and reached by another path too
	add(sharedShape{"subject_late_and_entry", with(blobs2, pushMan("r1", "t0", refB, mtImage), pushMan("r1", "", imgA, mtImage)), tagged("v1", ixSE, mtIndex),
		[][]byte{la, shared, cfgA, lb}, [][]byte{imgA, refB, ixSE}, nil})
	// two tags with a common child, one of them through an index
	add(sharedShape{"two_tags_common_child", with(blobs2, pushMan("r1", "", imgA, mtImage), pushMan("r1", "", imgB, mtImage)),
		append(append(tagged("v1", imgA, mtImage), tagged("v2", ixAB, mtIndex)...), tagged("v3", arm1, mtIndex)...),
		[][]byte{la, shared, cfgA, lb, cfgB}, [][]byte{imgA, imgB, ixAB, arm1}, nil})
	return out
}

func sharedScenarios() map[string]input {
	out := map[string]input{}
	cat := func(parts ...[]memsim.Op) []memsim.Op {
		var all []memsim.Op
		for _, p := range parts {
			all = append(all, p...)
		}
		return all
	}
	for n, s := range sharedShapes() {
		// every blob and every manifest the tags reach is attacked, each in both stores (a
		// delete that is refused changes nothing, so each attack meets the complete graph),
		// then read
		var attack, reads []memsim.Op
		for _, b := range s.blobs {
			attack = append(attack, delBlob("r1", b))
			reads = append(reads, getBlob("r1", b))
		}
		for _, m := range s.mans {
			attack = append(attack, delMan("r1", m))
			reads = append(reads, getMan("r1", m))
		}
		for _, d := range s.dual {
			attack = append(attack, delBlob("r1", d), delMan("r1", d))
		}
		var tags []memsim.Op
		for _, o := range s.tagging {
			if o.Kind == "GetTag" {
				tags = append(tags, o, delTag("r1", o.Tag))
			}
		}
		// the same attacks the other way round: the manifests first
		var rev []memsim.Op
		for i := len(attack) - 1; i >= 0; i-- {
			rev = append(rev, attack[i])
		}
		name := "shared_" + s.name
		out[name+"_immtags"] = input{Mech: "immtags", Setup: cat(s.store, s.tagging), Ops: cat(attack, reads, tags)}
		if len(s.dual) > 0 || n%2 == 0 {
			out[name+"_immtags_rev"] = input{Mech: "immtags", Setup: cat(s.store, s.tagging), Ops: cat(rev, reads, tags)}
		}
		out[name+"_immtags_late"] = input{Mech: "immtags", Setup: s.store, Ops: cat(s.tagging, attack, reads, tags)}
		// through the Immutable wrapper over immutable tags / over the plain registry
		w := wrapKinds[n%4]
		out[name+"_immutable"] = input{Mech: "immutable", Wrap: w, UnderImm: n%2 == 0, Setup: cat(s.store, s.tagging), Ops: cat(attack, reads, tags)}
		if n%3 == 0 {
			out[name+"_immutable_whole"] = input{Mech: "immutable", Wrap: wrapKinds[(n+1)%4], UnderImm: n%2 == 1, Ops: cat(s.store, s.tagging, rev, reads, tags)}
		}
		// one attack per history, for the blobs: whatever an earlier (wrongly successful) delete
		// would have changed, this one meets the graph as it was stored
		for i, b := range s.blobs {
			if i >= 2 || (len(s.dual) == 0 && i >= 1) {
				break
			}
			out[fmt.Sprintf("%s_immtags_single%d", name, i)] = input{Mech: "immtags", Setup: cat(s.store, s.tagging),
				Ops: []memsim.Op{delBlob("r1", b), getBlob("r1", b)}}
		}
	}
	// a digest in the wrong store: an image names as a layer / config what the repository holds as a
	// manifest only, an index names as an entry what it holds as a blob only.  Each push must be
	// refused: what a tag's manifest names directly is in place (in the store it is named for)
	// at every moment.
	{
		layer := []byte("some layer")
		cfg := []byte(`{"os":"x"}`)
		img := imageOf(descOf(ocispec.MediaTypeImageConfig, cfg), nil, blobDesc(layer))
		imgBlobOnly := imageOf(descOf(ocispec.MediaTypeImageConfig, cfg), nil, blobDesc(layer), blobDesc(cfg)) // stored as a blob, never as a manifest
		wrongLayer := imageOf(descOf(ocispec.MediaTypeImageConfig, cfg), nil, blobDesc(img))
		wrongCfg := imageOf(descOf(ocispec.MediaTypeImageConfig, img), nil, blobDesc(layer))
		wrongEntry := indexBytes(nil, descOf(mtImage, imgBlobOnly))
		wrongEntry2 := indexBytes(nil, descOf(mtImage, img), descOf(mtImage, layer))
		store := []memsim.Op{pushBlob("r1", layer), pushBlob("r1", cfg), pushMan("r1", "", img, mtImage), pushBlob("r1", imgBlobOnly)}
		ops := []memsim.Op{pushMan("r1", "w1", wrongLayer, mtImage), pushMan("r1", "w2", wrongCfg, mtImage), pushMan("r1", "w3", wrongEntry, mtIndex),
			pushMan("r1", "w4", wrongEntry2, mtIndex), pushMan("r1", "", wrongLayer, mtImage), pushMan("r1", "", wrongEntry, mtIndex),
			getTag("r1", "w1"), getTag("r1", "w2"), getTag("r1", "w3"), getTag("r1", "w4"),
			// the other store is filled in afterwards: now they are fine, and protected
			pushBlob("r1", img), pushMan("r1", "", imgBlobOnly, mtImage),
			pushMan("r1", "w1", wrongLayer, mtImage), pushMan("r1", "w3", wrongEntry, mtIndex), getTag("r1", "w1"), getTag("r1", "w3"),
			delBlob("r1", img), delMan("r1", img), delBlob("r1", imgBlobOnly), delMan("r1", imgBlobOnly), delBlob("r1", layer), delBlob("r1", cfg),
			getBlob("r1", img), getMan("r1", imgBlobOnly), getBlob("r1", layer)}
		out["shared_wrong_store_immtags"] = input{Mech: "immtags", Setup: store, Ops: ops}
		out["shared_wrong_store_immutable"] = input{Mech: "immutable", Wrap: "funcs", UnderImm: true, Setup: store, Ops: ops}
		out["shared_wrong_store_immutable_plain"] = input{Mech: "immutable", Wrap: "embed", Setup: store, Ops: ops}
	}
	// the minimal history for the corpus
	for _, s := range sharedShapes() {
		if s.name == "dual_index_blob_then_manifest" {
			out["corpus_manifest_also_stored_as_blob"] = input{Mech: "immtags", Setup: cat(s.store, s.tagging),
				Ops: []memsim.Op{delBlob("r1", s.blobs[0]), getBlob("r1", s.blobs[0]), getTag("r1", "v1")}}
		}
	}
	return out
}

// ---- the same in the random histories ----

// victim: something a plotted graph keeps below a tag (what the deletes of a history aim at)
type victim struct {
	digest   string
	manifest bool
}

// dualPush: the bytes of a manifest the repository holds are pushed as a blob too, and a small
// plot follows (queued; the rest of the history goes on around and after it): an image that
// carries those bytes as a layer or as its config, and something tagged that reaches the digest in
// both roles - an index listing the carrier and the manifest in either order, the carrier with the
// manifest as its subject, or two tags.  What the manifest names is remembered as the deletes'
// preferred target.
func (t *tracker) dualPush(repo string) (memsim.Op, bool) {
	ms := t.mans[repo]
	if len(ms) == 0 {
		return memsim.Op{}, false
	}
	m := ms[t.r.Intn(len(ms))]
	for i := 0; i < 3 && len(childrenOf(m.media, m.content)) == 0; i++ {
		m = ms[t.r.Intn(len(ms))]
	}
	media := m.media
	if media == "" {
		media = mtFoo
	}
	mDesc := ocispec.Descriptor{MediaType: media, Digest: digest.Digest(m.digest), Size: int64(len(m.content))}
	carried := blobDesc(m.content)
	_, plain := t.knownBlobs(repo)
	cfg := carried
	layers := []ocispec.Descriptor{carried}
	if len(plain) > 0 && t.r.Intn(4) != 0 {
		cfg = plain[t.r.Intn(len(plain))]
		if t.r.Intn(2) == 0 {
			layers = []ocispec.Descriptor{plain[t.r.Intn(len(plain))], carried}
		}
	} else if len(plain) > 0 {
		layers = []ocispec.Descriptor{plain[t.r.Intn(len(plain))]}
	}
	cfg.MediaType = ocispec.MediaTypeImageConfig
	t.plots++
	tag := fmt.Sprintf("plot%d", t.plots)
	switch t.r.Intn(5) {
	case 0, 1:
		outer := imageOf(cfg, nil, layers...)
		t.queue = append(t.queue, pushMan(repo, "", outer, mtImage), pushMan(repo, tag, indexBytes(nil, descOf(mtImage, outer), mDesc), mtIndex))
	case 2:
		outer := imageOf(cfg, nil, layers...)
		t.queue = append(t.queue, pushMan(repo, "", outer, mtImage), pushMan(repo, tag, indexBytes(nil, mDesc, descOf(mtImage, outer)), mtIndex))
	case 3:
		t.queue = append(t.queue, pushMan(repo, tag, imageOf(cfg, &mDesc, layers...), mtImage))
	default:
		t.queue = append(t.queue, pushMan(repo, tag, imageOf(cfg, nil, layers...), mtImage), pushMan(repo, tag+"b", m.content, m.media))
	}
	t.queue = append(t.queue, getTag(repo, tag))
	for i, ch := range childrenOf(m.media, m.content) {
		if i < 4 && digest.Digest(ch[1]).Validate() == nil {
			t.victims[repo] = append(t.victims[repo], victim{ch[1], ch[0] == "m"})
		}
	}
	return pushBlob(repo, m.content), true
}

// aimAtVictim: a delete of something a plotted graph keeps below a tag
func (t *tracker) aimAtVictim(repo string) (memsim.Op, bool) {
	vs := t.victims[repo]
	if len(vs) == 0 {
		return memsim.Op{}, false
	}
	v := vs[t.r.Intn(len(vs))]
	if v.manifest {
		return memsim.Op{Kind: "DeleteManifest", Repo: repo, Digest: v.digest}, true
	}
	return memsim.Op{Kind: "DeleteBlob", Repo: repo, Digest: v.digest}, true
}

// knownBlobs: the blobs of the repository whose content this history knows, dual ones first
func (t *tracker) knownBlobs(repo string) (dual, plain []ocispec.Descriptor) {
	isMan := map[string]bool{}
	for _, m := range t.mans[repo] {
		isMan[m.digest] = true
	}
	seen := map[string]bool{}
	bl := append([]string{}, t.g.Blobs[repo]...)
	sort.Strings(bl)
	for _, d := range bl {
		c, ok := t.blobs[d]
		if !ok || seen[d] {
			continue
		}
		seen[d] = true
		desc := ocispec.Descriptor{MediaType: "application/layer", Digest: digest.Digest(d), Size: int64(len(c))}
		if isMan[d] {
			dual = append(dual, desc)
		} else {
			plain = append(plain, desc)
		}
	}
	return
}

// sharing: a manifest over what the repository holds in which digests recur - an image whose
// layers repeat, include its config, include the bytes of a stored manifest, and whose subject is
// a stored manifest (the one it carries as a layer, often); an index whose entries repeat and
// whose subject is one of its entries or the subject of one
func (t *tracker) sharing(repo, tag string) (memsim.Op, bool) {
	ms := t.mans[repo]
	dual, plain := t.knownBlobs(repo)
	all := append(append([]ocispec.Descriptor{}, dual...), plain...)
	manDesc := func(m manRec) ocispec.Descriptor {
		media := m.media
		if media == "" {
			media = mtFoo
		}
		return ocispec.Descriptor{MediaType: media, Digest: digest.Digest(m.digest), Size: int64(len(m.content))}
	}
	if t.r.Intn(2) == 0 && len(all) > 0 {
		pick := func() ocispec.Descriptor {
			if len(dual) > 0 && t.r.Intn(2) == 0 {
				return dual[t.r.Intn(len(dual))]
			}
			return all[t.r.Intn(len(all))]
		}
		cfg := all[t.r.Intn(len(all))]
		if t.r.Intn(4) == 0 {
			cfg = pick()
		}
		cfg.MediaType = ocispec.MediaTypeImageConfig
		var layers []ocispec.Descriptor
		for i := 0; i < 1+t.r.Intn(3); i++ {
			layers = append(layers, pick())
		}
		if t.r.Intn(4) == 0 {
			layers = append(layers, layers[0])
		}
		if t.r.Intn(6) == 0 {
			layers = append(layers, cfg)
		}
		var subject *ocispec.Descriptor
		if len(ms) > 0 && t.r.Intn(2) == 0 {
			s := manDesc(ms[t.r.Intn(len(ms))])
			for _, m := range ms { // the manifest a layer carries, for preference
				for _, l := range layers {
					if string(l.Digest) == m.digest && t.r.Intn(2) == 0 {
						s = manDesc(m)
					}
				}
			}
			subject = &s
		}
		return pushMan(repo, tag, imageOf(cfg, subject, layers...), mtImage), true
	}
	if len(ms) == 0 {
		return memsim.Op{}, false
	}
	var ch []ocispec.Descriptor
	for i := 0; i < 2+t.r.Intn(3); i++ {
		ch = append(ch, manDesc(ms[t.r.Intn(len(ms))]))
	}
	if t.r.Intn(3) == 0 {
		ch = append(ch, ch[0])
	}
	// manifests that are held as blobs too go last: what carries them as a layer comes first
	isDual := map[string]bool{}
	for _, d := range dual {
		isDual[string(d.Digest)] = true
	}
	if t.r.Intn(2) == 0 {
		sort.SliceStable(ch, func(i, j int) bool { return !isDual[string(ch[i].Digest)] && isDual[string(ch[j].Digest)] })
	}
	var subject *ocispec.Descriptor
	if t.r.Intn(3) == 0 {
		s := ch[t.r.Intn(len(ch))]
		subject = &s
	}
	return pushMan(repo, tag, indexBytes(subject, ch...), mtIndex), true
}
