package main

import (
	"encoding/json"
	"fmt"
	"math/rand"
	"strings"

	"github.com/opencontainers/go-digest"
	ocispec "github.com/opencontainers/image-spec/specs-go/v1"
	"verif/harness/memsim"
)

const (
	mtImage = ocispec.MediaTypeImageManifest
	mtIndex = ocispec.MediaTypeImageIndex
	mtFoo   = "application/vnd.foo"
)

func descOf(media string, c []byte) ocispec.Descriptor {
	return ocispec.Descriptor{MediaType: media, Digest: digest.Digest(memsim.Sha(c)), Size: int64(len(c))}
}

func pushBlob(repo string, c []byte) memsim.Op {
	return memsim.Op{Kind: "PushBlob", Repo: repo, Content: c,
		Desc: &memsim.Desc{Media: "application/octet-stream", Digest: memsim.Sha(c), Size: int64(len(c))}}
}

func imageBytes(config []byte, subject *ocispec.Descriptor, layers ...[]byte) []byte {
	m := ocispec.Manifest{MediaType: mtImage, Config: descOf(ocispec.MediaTypeImageConfig, config), Subject: subject}
	m.SchemaVersion = 2
	for _, l := range layers {
		m.Layers = append(m.Layers, descOf("application/layer", l))
	}
	b, _ := json.Marshal(m)
	return b
}

func indexBytes(subject *ocispec.Descriptor, children ...ocispec.Descriptor) []byte {
	ix := ocispec.Index{MediaType: mtIndex, Manifests: children, Subject: subject}
	ix.SchemaVersion = 2
	b, _ := json.Marshal(ix)
	return b
}

func pushMan(repo, tag string, c []byte, media string) memsim.Op {
	return memsim.Op{Kind: "PushManifest", Repo: repo, Tag: tag, Content: c, Media: media}
}
func delBlob(repo string, c []byte) memsim.Op {
	return memsim.Op{Kind: "DeleteBlob", Repo: repo, Digest: memsim.Sha(c)}
}
func delMan(repo string, c []byte) memsim.Op {
	return memsim.Op{Kind: "DeleteManifest", Repo: repo, Digest: memsim.Sha(c)}
}
func delTag(repo, tag string) memsim.Op { return memsim.Op{Kind: "DeleteTag", Repo: repo, Tag: tag} }
func getTag(repo, tag string) memsim.Op { return memsim.Op{Kind: "GetTag", Repo: repo, Tag: tag} }
func resTag(repo, tag string) memsim.Op { return memsim.Op{Kind: "ResolveTag", Repo: repo, Tag: tag} }
func getMan(repo string, c []byte) memsim.Op {
	return memsim.Op{Kind: "GetManifest", Repo: repo, Digest: memsim.Sha(c)}
}
func getBlob(repo string, c []byte) memsim.Op {
	return memsim.Op{Kind: "GetBlob", Repo: repo, Digest: memsim.Sha(c)}
}

var (
	layer1 = []byte("layer-one")
	layer2 = []byte("layer-two-\x00\xff")
	config = []byte("{}")
)

// scenario: a state-building part and an adversarial part
type scenario struct {
	build  []memsim.Op
	attack []memsim.Op
}

func scenarios() map[string]scenario {
	sc := map[string]scenario{}
	imgA := imageBytes(config, nil, layer1)
	imgB := imageBytes(config, nil, layer2)
	base := []memsim.Op{pushBlob("r1", layer1), pushBlob("r1", layer2), pushBlob("r1", config)}
	with := func(ops ...memsim.Op) []memsim.Op { return append(append([]memsim.Op{}, base...), ops...) }

	// the index entry names another media type than the child was stored with
	// (before fix 3fe7715 refersTo walked the child as that type and found no layers)
	ixWrong := indexBytes(nil, ocispec.Descriptor{MediaType: mtFoo, Digest: digest.Digest(memsim.Sha(imgA)), Size: int64(len(imgA))})
	sc["corpus_refersto_entry_media_type"] = scenario{
		build:  with(pushMan("r1", "", imgA, mtImage), pushMan("r1", "t1", ixWrong, mtIndex)),
		attack: []memsim.Op{delBlob("r1", layer1), delBlob("r1", config), delMan("r1", imgA), getTag("r1", "t1"), getBlob("r1", layer1)},
	}
	ixWrong2 := indexBytes(nil, ocispec.Descriptor{MediaType: mtIndex, Digest: digest.Digest(memsim.Sha(imgA)), Size: int64(len(imgA))})
	sc["corpus_refersto_entry_index_type"] = scenario{
		build:  with(pushMan("r1", "", imgA, mtImage), pushMan("r1", "t1", ixWrong2, mtIndex)),
		attack: []memsim.Op{delBlob("r1", layer1), delMan("r1", imgA), getTag("r1", "t1")},
	}
	// the bytes of a tagged manifest pushed again under another media type
	sc["corpus_media_type_overwrite_image"] = scenario{
		build: with(pushMan("r1", "t1", imgA, mtImage)),
		attack: []memsim.Op{pushMan("r1", "", imgA, mtFoo), delBlob("r1", layer1), pushMan("r1", "t2", imgA, mtFoo),
			delBlob("r1", config), pushMan("r1", "t1", imgA, mtImage), getTag("r1", "t1")},
	}
	ixA := indexBytes(nil, descOf(mtImage, imgA))
	sc["corpus_media_type_overwrite_index"] = scenario{
		build:  with(pushMan("r1", "", imgA, mtImage), pushMan("r1", "t1", ixA, mtIndex)),
		attack: []memsim.Op{pushMan("r1", "", ixA, "text/plain"), delMan("r1", imgA), delBlob("r1", layer1), getTag("r1", "t1")},
	}
	// descriptors with the optional members of the image-spec descriptor (urls, annotations,
	// platform, embedded data): they refer to their blobs like any other descriptor
	{
		m := ocispec.Manifest{MediaType: mtImage, Config: descOf(ocispec.MediaTypeImageConfig, config)}
		m.SchemaVersion = 2
		l1 := descOf("application/vnd.oci.image.layer.nondistributable.v1.tar", layer1)
		l1.URLs = []string{"https://example.com/layer-one"}
		l2 := descOf("application/layer", layer2)
		l2.Annotations = map[string]string{"org.example.k": "v"}
		l2.Data = layer2
		m.Layers = []ocispec.Descriptor{l1, l2}
		m.Config.URLs = []string{"https://example.com/config"}
		imgU, _ := json.Marshal(m)
		child := descOf(mtImage, imgU)
		child.Platform = &ocispec.Platform{Architecture: "arm64", OS: "linux"}
		child.URLs = []string{"https://example.com/child"}
		ixU := indexBytes(nil, child)
		sc["optional_descriptor_members"] = scenario{
			build: with(pushMan("r1", "", imgU, mtImage), pushMan("r1", "t1", ixU, mtIndex), pushMan("r1", "t2", imgU, mtImage)),
			attack: []memsim.Op{delBlob("r1", layer1), delBlob("r1", layer2), delBlob("r1", config), delMan("r1", imgU),
				getBlob("r1", layer1), getBlob("r1", layer2), getTag("r1", "t1"), getTag("r1", "t2")},
		}
	}
	// re-tagging
	sc["retag"] = scenario{
		build: with(pushMan("r1", "t1", imgA, mtImage), pushMan("r1", "", imgB, mtImage)),
		attack: []memsim.Op{resTag("r1", "t1"), pushMan("r1", "t1", imgB, mtImage), pushMan("r1", "t1", imgA, mtImage),
			pushMan("r1", "t1", imgA, mtFoo), delTag("r1", "t1"), resTag("r1", "t1"), getTag("r1", "t1"),
			delMan("r1", imgA), getTag("r1", "t1"), pushMan("r1", "t2", imgB, mtImage), pushMan("r1", "t2", imgA, mtImage), resTag("r1", "t2")},
	}
	// nested indexes
	ix1 := indexBytes(nil, descOf(mtImage, imgA))
	ix2 := indexBytes(nil, descOf(mtIndex, ix1), descOf(mtImage, imgB))
	sc["nested_index"] = scenario{
		build: with(pushMan("r1", "", imgA, mtImage), pushMan("r1", "", imgB, mtImage), pushMan("r1", "", ix1, mtIndex), pushMan("r1", "latest", ix2, mtIndex)),
		attack: []memsim.Op{delBlob("r1", layer1), delBlob("r1", layer2), delBlob("r1", config), delMan("r1", imgA), delMan("r1", imgB),
			delMan("r1", ix1), delMan("r1", ix2), delTag("r1", "latest"), getTag("r1", "latest")},
	}
	// subject edges: a tagged referrer protects its (stored) subject
	subj := descOf(mtImage, imgA)
	refr := imageBytes(config, &subj, layer2)
	sc["subject"] = scenario{
		build:  with(pushMan("r1", "", imgA, mtImage), pushMan("r1", "t1", refr, mtImage)),
		attack: []memsim.Op{delMan("r1", imgA), delBlob("r1", layer1), delBlob("r1", layer2), {Kind: "Referrers", Repo: "r1", Digest: memsim.Sha(imgA)}},
	}
	// dangling subject stored later, then attacked
	sc["subject_late"] = scenario{
		build:  with(pushMan("r1", "t1", refr, mtImage)),
		attack: []memsim.Op{pushMan("r1", "", imgA, mtImage), delMan("r1", imgA), delBlob("r1", layer1)},
	}
	// a child whose layer was deleted before the index was tagged (nothing to keep for that layer)
	sc["incomplete_at_tagging"] = scenario{
		build:  with(pushMan("r1", "", imgA, mtImage), delBlob("r1", layer1), pushMan("r1", "t1", ix1, mtIndex)),
		attack: []memsim.Op{getTag("r1", "t1"), getBlob("r1", layer1), delMan("r1", imgA), pushBlob("r1", layer1), delBlob("r1", layer1)},
	}
	// mounts and chunked uploads
	sc["mount_chunked"] = scenario{
		build: []memsim.Op{pushBlob("r2", layer1), {Kind: "MountBlob", From: "r2", Repo: "r1", Digest: memsim.Sha(layer1)},
			{Kind: "PushBlobChunked", Repo: "r1"}, {Kind: "WWrite", W: 0, Content: config}, {Kind: "WCommit", W: 0, Digest: memsim.Sha(config)},
			pushMan("r1", "t1", imgA, mtImage)},
		attack: []memsim.Op{delBlob("r2", layer1), delBlob("r1", layer1), delBlob("r1", config), getBlob("r1", layer1),
			{Kind: "PushBlobChunked", Repo: "r1"}, {Kind: "WWrite", W: 1, Content: layer1}, {Kind: "WCommit", W: 1, Digest: memsim.Sha(layer1)},
			{Kind: "MountBlob", From: "r1", Repo: "a/b", Digest: memsim.Sha(layer1)}, delBlob("a/b", layer1), getTag("r1", "t1")},
	}
	// every mutating method once, and every read (ReadOnly: all unsupported / all forwarded)
	sc["all_methods"] = scenario{
		build: with(pushMan("r1", "t1", imgA, mtImage)),
		attack: []memsim.Op{pushBlob("r1", []byte("new")), {Kind: "PushBlobChunked", Repo: "r1"}, {Kind: "PushBlobChunkedResume", Repo: "r1", ID: "x"},
			{Kind: "MountBlob", From: "r1", Repo: "r2", Digest: memsim.Sha(layer1)}, pushMan("r1", "", imgB, mtImage), pushMan("r1", "t9", imgA, mtImage),
			delBlob("r1", layer2), delMan("r1", imgA), delTag("r1", "t1"), {Kind: "WWrite", W: 0, Content: []byte("x")}, {Kind: "WCommit", W: 0, Digest: memsim.Sha([]byte("x"))},
			getBlob("r1", layer1), {Kind: "GetBlobRange", Repo: "r1", Digest: memsim.Sha(layer1), O0: 1, O1: 3}, getMan("r1", imgA), getTag("r1", "t1"),
			{Kind: "ResolveBlob", Repo: "r1", Digest: memsim.Sha(layer1)}, {Kind: "ResolveManifest", Repo: "r1", Digest: memsim.Sha(imgA)}, resTag("r1", "t1"),
			{Kind: "Repositories"}, {Kind: "Tags", Repo: "r1"}, {Kind: "Referrers", Repo: "r1", Digest: memsim.Sha(imgA)},
			getBlob("nosuch", layer1), {Kind: "Tags", Repo: "nosuch"}},
	}
	// a tag whose manifest is gone underneath (possible only below the Immutable wrapper)
	sc["tag_without_manifest"] = scenario{
		build:  with(pushMan("r1", "t1", imgA, mtImage), delMan("r1", imgA)),
		attack: []memsim.Op{resTag("r1", "t1"), getTag("r1", "t1"), pushMan("r1", "t1", imgB, mtImage), pushMan("r1", "t1", imgA, mtImage), getTag("r1", "t1"), resTag("r1", "t1")},
	}
	return sc
}

func hasUploads(ops []memsim.Op) bool {
	for _, o := range ops {
		if isWriterKind(o.Kind) || o.Kind == "PushBlobChunked" || o.Kind == "PushBlobChunkedResume" {
			return true
		}
	}
	return false
}

// scripted returns every scenario through the three mechanisms.
func scripted() map[string]input {
	out := map[string]input{}
	for name, s := range scenarios() {
		out[name] = input{Mech: "immtags", Setup: s.build, Ops: s.attack}
		if len(name) > 7 && name[:7] == "corpus_" {
			continue
		}
		if hasUploads(s.build) {
			continue // writer numbering of the wrapper's executor starts after the setup's
		}
		for _, ui := range []bool{false, true} {
			sfx := ""
			if ui {
				sfx = "_underimm"
			}
			out[name+"_immutable"+sfx] = input{Mech: "immutable", UnderImm: ui, Setup: s.build, Ops: s.attack}
			out[name+"_readonly"+sfx] = input{Mech: "readonly", UnderImm: ui, Setup: s.build, Ops: s.attack}
		}
		out[name+"_whole_immutable"] = input{Mech: "immutable", Ops: append(append([]memsim.Op{}, s.build...), s.attack...)}
		// the wrappers are specified over ANY wrapped registry: the same histories with the
		// registry handed over under other dynamic types (wrap.go)
		for _, w := range wrapKinds[1:] {
			out[name+"_immutable_"+w] = input{Mech: "immutable", Wrap: w, Setup: s.build, Ops: s.attack}
			out[name+"_readonly_"+w] = input{Mech: "readonly", Wrap: w, UnderImm: w == "embed", Setup: s.build, Ops: s.attack}
		}
		out[name+"_whole_immutable_funcs"] = input{Mech: "immutable", Wrap: "funcs", UnderImm: true, Ops: append(append([]memsim.Op{}, s.build...), s.attack...)}
	}
	// the corpus scenarios also through the wrappers (no uploads in them)
	for name, s := range scenarios() {
		if len(name) > 7 && name[:7] == "corpus_" {
			out[name[7:]+"_immutable"] = input{Mech: "immutable", Setup: s.build, Ops: s.attack}
			out[name[7:]+"_whole_immutable_underimm"] = input{Mech: "immutable", UnderImm: true, Ops: append(append([]memsim.Op{}, s.build...), s.attack...)}
		}
	}
	for name, in := range raceScenarios() {
		out[name] = in
	}
	for name, in := range sessionScenarios() {
		out[name] = in
	}
	for name, in := range aimedScenarios() {
		out[name] = in
	}
	for name, in := range tagShapeScenarios() {
		out[name] = in
	}
	for name, in := range sharedScenarios() {
		out[name] = in
	}
	for name, in := range deepScenarios() {
		out[name] = in
	}
	for name, in := range crossScenarios() {
		out[name] = in
	}
	return out
}

// ---- the registry under the Immutable wrapper is somebody else's as well ----

// callsBefore runs the input with its rivals and returns how many calls had reached the registry
// behind the wrapper when operation i of the history began.
func callsBefore(in input, i int) int {
	under, mech, sp := build(in)
	exU := memsim.NewExec(under, true)
	exM := memsim.NewExec(mech, true)
	for _, o := range in.Setup {
		exU.Run(o)
	}
	for _, o := range in.Ops[:i] {
		exM.Run(o)
	}
	return sp.count
}

// raceScenarios: Immutable's tagged push is resolve, push, resolve on the registry behind it.  A
// rival's push of the same tag lands after the first, the second or the third of these calls (or
// after the single call of a later read); the rival pushes other content or the same; the content
// the wrapper's user pushes is new, stored untagged, or what an observed tag already points at;
// the registry underneath runs with or without immutable tags.  Whatever the outcome for the
// contested tag, nothing may be deleted and every other tag must stay what it was seen to be.
func raceScenarios() map[string]input {
	out := map[string]input{}
	ours := imageBytes(config, nil, layer1)
	theirs := imageBytes(config, nil, layer2)
	base := []memsim.Op{pushBlob("r1", layer1), pushBlob("r1", layer2), pushBlob("r1", config)}
	n := 0
	for _, underImm := range []bool{false, true} {
		for pos := 0; pos < 4; pos++ {
			for _, same := range []bool{false, true} {
				for held := 0; held < 3; held++ { // our content: new / stored untagged / tagged and observed
					wrap := wrapKinds[1+n%3]
					n++
					in := input{Mech: "immutable", Wrap: wrap, UnderImm: underImm}
					in.Setup = append([]memsim.Op{}, base...)
					switch held {
					case 1:
						in.Setup = append(in.Setup, pushMan("r1", "", ours, mtImage))
					case 2:
						in.Setup = append(in.Setup, pushMan("r1", "v1", ours, mtImage))
					}
					in.Ops = []memsim.Op{resTag("r1", "v1"), getTag("r1", "v1"),
						pushMan("r1", "latest", ours, mtImage),
						resTag("r1", "latest"), getTag("r1", "latest"), resTag("r1", "v1"), getTag("r1", "v1"), getMan("r1", ours), getMan("r1", theirs),
						pushMan("r1", "latest", ours, mtImage), pushMan("r1", "latest", theirs, mtImage), pushMan("r1", "v1", ours, mtImage),
						delMan("r1", ours), delMan("r1", theirs), delTag("r1", "latest"), getTag("r1", "v1")}
					rc := theirs
					if same {
						rc = ours
					}
					in.Rivals = []rival{{After: callsBefore(in, 2) + pos, Op: pushMan("r1", "latest", rc, mtImage)}}
					out[fmt.Sprintf("race_%s_%v_pos%d_same%v_held%d", wrap, underImm, pos, same, held)] = in
				}
			}
		}
	}
	return out
}

// ---- an upload session used again after its commit ----

// sessionScenarios: a layer (or the config) of a tagged image was stored by a chunked upload.
// After the commit the writer is cancelled or closed (the documented deferred clean-up), the
// session is opened again by its id at some offset, and written to.  Whatever the registry makes
// of those calls, the tagged image's blob must stay what it is.  In immutable-tags mode the
// upload, the commit and the tagging are part of the setup (the snapshot before sees the blob
// from the tag); through the Immutable wrapper the whole history goes through the wrapper.
func sessionScenarios() map[string]input {
	out := map[string]input{}
	blob := []byte("layer-stored-by-a-chunked-upload-0123456789")
	evil := []byte("EVIL-EVIL-EVIL-EVIL-EVIL-EVIL-EVIL-EVIL-EVIL-EVIL-EVIL-EVIL")
	n := 0
	for _, asConfig := range []bool{false, true} {
		img := imageBytes(config, nil, blob)
		other := pushBlob("r1", config)
		if asConfig {
			img = imageBytes(blob, nil, layer1)
			other = pushBlob("r1", layer1)
		}
		for _, after := range []string{"WCancel", "WClose", "", "both"} {
			for _, off := range []int64{0, -1, int64(len(blob))} {
				for _, wlen := range []int{5, len(blob), len(evil)} {
					upload := []memsim.Op{{Kind: "PushBlobChunked", Repo: "r1"}, {Kind: "WWrite", W: 0, Content: blob},
						{Kind: "WCommit", W: 0, Digest: memsim.Sha(blob)}}
					var cleanup []memsim.Op
					switch after {
					case "WCancel", "WClose":
						cleanup = []memsim.Op{{Kind: after, W: 0}}
					case "both":
						cleanup = []memsim.Op{{Kind: "WCancel", W: 0}, {Kind: "WClose", W: 0}}
					}
					tagIt := []memsim.Op{other, pushMan("r1", "v1", img, mtImage), getTag("r1", "v1")}
					// ocimem hands out the session's own writer on resume: the executor knows it as writer 0 again
					reuse := []memsim.Op{{Kind: "PushBlobChunkedResume", Repo: "r1", ID: "#0", Off: off},
						{Kind: "WWrite", W: 0, Content: evil[:wlen]}, getBlob("r1", blob),
						{Kind: "WCommit", W: 0, Digest: memsim.Sha(evil[:wlen])}, getBlob("r1", blob), getTag("r1", "v1"),
						{Kind: "ResolveBlob", Repo: "r1", Digest: memsim.Sha(blob)}, delBlob("r1", blob)}
					cat := func(parts ...[]memsim.Op) []memsim.Op {
						var all []memsim.Op
						for _, p := range parts {
							all = append(all, p...)
						}
						return all
					}
					name := fmt.Sprintf("session_cfg%v_%s_off%d_w%d", asConfig, after, off, wlen)
					// the clean-up before or after the tagging, in the setup or in the history
					switch n % 3 {
					case 0:
						out[name+"_immtags"] = input{Mech: "immtags", Setup: cat(upload, tagIt), Ops: cat(cleanup, reuse)}
					case 1:
						out[name+"_immtags"] = input{Mech: "immtags", Setup: cat(upload, cleanup, tagIt), Ops: reuse}
					default:
						out[name+"_immtags"] = input{Mech: "immtags", Setup: upload, Ops: cat(tagIt, cleanup, reuse)}
					}
					if n%2 == 0 {
						out[name+"_immutable"] = input{Mech: "immutable", Wrap: wrapKinds[n%4], UnderImm: n%3 == 0,
							Ops: cat(upload, cleanup, tagIt, reuse)}
					}
					n++
				}
			}
		}
	}
	return out
}

// ---- random histories ----

type manRec struct {
	digest, media string
	content       []byte
}

type tracker struct {
	g    *memsim.Gen
	r    *rand.Rand
	mans map[string][]manRec
	// content of every blob a push stored, by digest (for pushes aimed at it)
	blobs map[string][]byte
	// operations scripted ahead by the tracker itself, and the commit that is to follow the
	// chunked upload it has just asked for
	queue []memsim.Op
	aim   *aimPlan
	// tags of this history that look like something else (aim.go: lookalikeTags)
	shaped []string
	// what the plotted graphs of this history keep below their tags (shape.go)
	victims map[string][]victim
	plots   int
}

type aimPlan struct {
	digest string
	body   []byte
	write  bool
}

func (t *tracker) update(o memsim.Op, res memsim.Result, ex *memsim.Exec) {
	t.g.Update(o, res, ex)
	if o.Kind == "PushManifest" && res.Kind == "desc" {
		t.mans[o.Repo] = append(t.mans[o.Repo], manRec{res.Desc.Digest, o.Media, o.Content})
	}
	if o.Kind == "PushBlob" && res.Kind == "desc" && memsim.Sha(o.Content) == res.Desc.Digest {
		t.blobs[res.Desc.Digest] = o.Content
	}
	if o.Kind == "PushBlobChunked" && t.aim != nil {
		if res.Kind == "writer" {
			if t.aim.write {
				t.queue = append(t.queue, memsim.Op{Kind: "WWrite", W: res.W, Content: t.aim.body})
			}
			t.queue = append(t.queue, memsim.Op{Kind: "WCommit", W: res.W, Digest: t.aim.digest})
		}
		t.aim = nil
	}
}

// aimedBody: what arrives under the digest of content x instead of x
func (t *tracker) aimedBody(x []byte) []byte {
	switch k := t.r.Intn(6); {
	case k < 2 || len(x) == 0:
		return []byte{}
	case k == 2:
		return x[:len(x)-1]
	case k == 3:
		return x[:1]
	case k == 4:
		return append(append([]byte{}, x...), 0)
	}
	return []byte("other")
}

// aimed: a push under the digest of something the repository holds - a blob, or a manifest -
// with a body that is not that content, and a size of every kind
func (t *tracker) aimed(repo string) (memsim.Op, bool) {
	var d string
	var x []byte
	ms := t.mans[repo]
	bl := t.g.Blobs[repo]
	switch {
	case len(bl) > 0 && (len(ms) == 0 || t.r.Intn(4) != 0):
		d = bl[t.r.Intn(len(bl))]
		x = t.blobs[d] // nil when the blob came by a chunked upload or a mount
		if x == nil {
			x = []byte("??????")
		}
	case len(ms) > 0:
		m := ms[t.r.Intn(len(ms))]
		d, x = m.digest, m.content
	default:
		return memsim.Op{}, false
	}
	b := t.aimedBody(x)
	switch k := t.r.Intn(10); {
	case k < 7:
		size := []int64{int64(len(x)), int64(len(x)), -1, 0, int64(len(x)) + 1, int64(len(b)), 1}[t.r.Intn(7)]
		return memsim.Op{Kind: "PushBlob", Repo: repo, Content: b, Desc: &memsim.Desc{Media: "application/octet-stream", Digest: d, Size: size}}, true
	case k < 9:
		if t.g.NoUploads {
			return memsim.Op{}, false
		}
		t.aim = &aimPlan{digest: d, body: b, write: len(b) > 0 || t.r.Intn(2) == 0}
		return memsim.Op{Kind: "PushBlobChunked", Repo: repo}, true
	}
	from := t.g.Repos[t.r.Intn(len(t.g.Repos))]
	return memsim.Op{Kind: "MountBlob", From: from, Repo: repo, Digest: d}, true
}

func (t *tracker) liveRepo() string {
	var live []string
	for _, r := range t.g.Repos {
		if len(t.mans[r]) > 0 {
			live = append(live, r)
		}
	}
	if len(live) == 0 {
		return t.g.Repos[t.r.Intn(len(t.g.Repos))]
	}
	return live[t.r.Intn(len(live))]
}

func (t *tracker) otherMedia(m string) string {
	for {
		c := []string{mtImage, mtIndex, mtFoo, "text/plain"}[t.r.Intn(4)]
		if c != m {
			return c
		}
	}
}

// targeted: operations aimed at what the property protects
func (t *tracker) targeted() (memsim.Op, bool) {
	repo := t.liveRepo()
	ms := t.mans[repo]
	tags := t.g.TagsSet[repo]
	if len(ms) == 0 {
		return memsim.Op{}, false
	}
	m := ms[t.r.Intn(len(ms))]
	tag := t.g.Tags[t.r.Intn(len(t.g.Tags))]
	if len(tags) > 0 && t.r.Intn(4) != 0 {
		tag = tags[t.r.Intn(len(tags))]
	} else if t.r.Intn(4) == 0 {
		// a tag that looks like something else; one time in three the referrers tag
		// (<algorithm>-<hex>) of a manifest the repository holds
		if t.r.Intn(3) == 0 {
			tag = strings.Replace(ms[t.r.Intn(len(ms))].digest, ":", "-", 1)
		} else {
			tag = t.shaped[t.r.Intn(len(t.shaped))]
		}
	}
	switch t.r.Intn(19) {
	case 12, 13, 14:
		return t.aimed(repo)
	case 15, 18: // the bytes of a stored manifest as a blob too (shape.go)
		return t.dualPush(repo)
	case 16, 17: // a manifest in which digests recur, by role or by path (shape.go)
		tg := ""
		if t.r.Intn(2) == 0 {
			tg = tag
		}
		return t.sharing(repo, tg)
	case 0, 1: // (re)tag with a known manifest
		return pushMan(repo, tag, m.content, m.media), true
	case 2: // same bytes, other media type, tagged
		return pushMan(repo, tag, m.content, t.otherMedia(m.media)), true
	case 3: // same bytes, other media type, untagged
		return pushMan(repo, "", m.content, t.otherMedia(m.media)), true
	case 4, 5:
		return memsim.Op{Kind: "DeleteManifest", Repo: repo, Digest: m.digest}, true
	case 6, 7:
		if t.r.Intn(3) != 0 {
			if o, ok := t.aimAtVictim(repo); ok {
				return o, true
			}
		}
		if bl := t.g.Blobs[repo]; len(bl) > 0 {
			return memsim.Op{Kind: "DeleteBlob", Repo: repo, Digest: bl[t.r.Intn(len(bl))]}, true
		}
		return memsim.Op{}, false
	case 8:
		return delTag(repo, tag), true
	case 9:
		return getTag(repo, tag), true
	case 10:
		return resTag(repo, tag), true
	default: // an index over known manifests, nested
		var ch []ocispec.Descriptor
		for i := 0; i < 1+t.r.Intn(2); i++ {
			c := ms[t.r.Intn(len(ms))]
			media := c.media
			if t.r.Intn(4) == 0 {
				media = t.otherMedia(media)
			}
			if media == "" {
				media = mtFoo
			}
			ch = append(ch, ocispec.Descriptor{MediaType: media, Digest: digest.Digest(c.digest), Size: int64(len(c.content))})
		}
		tg := ""
		if t.r.Intn(2) == 0 {
			tg = tag
		}
		return pushMan(repo, tg, indexBytes(nil, ch...), mtIndex), true
	}
}

func (t *tracker) next(targetedPct int) memsim.Op {
	if len(t.queue) > 0 {
		o := t.queue[0]
		t.queue = t.queue[1:]
		return o
	}
	if t.r.Intn(100) < targetedPct {
		if o, ok := t.targeted(); ok {
			return o
		}
	}
	return t.g.Next()
}

func randomInput(rnd *rand.Rand, i int) input {
	in := input{}
	switch p := rnd.Intn(20); {
	case p < 9:
		in.Mech = "immtags"
	case p < 16:
		in.Mech = "immutable"
		in.UnderImm = rnd.Intn(4) == 0
	default:
		in.Mech = "readonly"
		in.UnderImm = rnd.Intn(3) == 0
	}
	if in.Mech != "immtags" && rnd.Intn(2) == 0 {
		in.Wrap = wrapKinds[1+rnd.Intn(len(wrapKinds)-1)]
	}
	g := memsim.NewGen(rnd, i%7 == 6)
	t := &tracker{g: g, r: rnd, mans: map[string][]manRec{}, blobs: map[string][]byte{}, victims: map[string][]victim{}}
	t.shaped = lookalikeTags(memsim.Sha(g.Contents[rnd.Intn(len(g.Contents))]))
	if rnd.Intn(2) == 0 {
		// half of the histories: two of the history's own tags (the ones every operation draws
		// from) are of that kind
		g.Tags = append(g.Tags, t.shaped[0], t.shaped[rnd.Intn(len(t.shaped))])
	}
	under, mech, sp := build(in)
	exU := memsim.NewExec(under, true)
	exM := exU
	if in.Mech != "immtags" {
		exM = memsim.NewExec(mech, true)
		g.NoUploads = true // setup of a wrapper case: writer numbering starts with the wrapper's history
	}
	// half of the Immutable histories over a forwarding value: the registry has a second client
	rivalry := in.Mech == "immutable" && sp != nil && rnd.Intn(2) == 0
	ns := 4 + rnd.Intn(18)
	if in.Mech == "immutable" && rnd.Intn(3) == 0 {
		ns = 0 // the whole history through the wrapper
	}
	for j := 0; j < ns; j++ {
		o := t.next(25)
		r := exU.Run(o)
		t.update(o, r, exU)
		in.Setup = append(in.Setup, o)
	}
	g.NoUploads = false
	no := 5 + rnd.Intn(26)
	for j := 0; j < no; j++ {
		o := t.next(45)
		nf := 0
		if rivalry {
			nf = len(sp.fired)
			for _, rv := range t.rivalsFor(o, sp.count, j) {
				in.Rivals = append(in.Rivals, rv)
				sp.rivals[rv.After] = append(sp.rivals[rv.After], rv.Op)
			}
		}
		r := exM.Run(o)
		t.update(o, r, exM)
		if rivalry {
			for _, f := range sp.fired[nf:] {
				t.update(f.Op, f.Res, sp.exR)
			}
		}
		in.Ops = append(in.Ops, o)
	}
	// a rival scheduled after a call that never came does nothing: drop it
	var kept []rival
	for _, rv := range in.Rivals {
		if sp != nil && rv.After < sp.count {
			kept = append(kept, rv)
		}
	}
	in.Rivals = kept
	return in
}

// variant: the same manifest with one more annotation (it names the same blobs, so the registry
// accepts it whenever it accepts the original); nil when the content is no JSON object
func variant(content []byte, note string) []byte {
	var m map[string]any
	if json.Unmarshal(content, &m) != nil || m == nil {
		return nil
	}
	ann, _ := m["annotations"].(map[string]any)
	if ann == nil {
		ann = map[string]any{}
	}
	ann["org.example.rival"] = note
	m["annotations"] = ann
	b, err := json.Marshal(m)
	if err != nil {
		return nil
	}
	return b
}

// rivalsFor: what the second client does while operation o (the j-th of the history, beginning
// when base calls have reached the registry) is under way.  Mostly aimed at a tagged push: after
// the wrapper's first resolve, after its push, after its second resolve.
func (t *tracker) rivalsFor(o memsim.Op, base, j int) []rival {
	note := fmt.Sprintf("rival-%d", j)
	if o.Kind == "PushManifest" && o.Tag != "" && t.r.Intn(4) != 0 {
		at := base + []int{1, 1, 1, 0, 2}[t.r.Intn(5)]
		var ro memsim.Op
		switch k := t.r.Intn(10); {
		case k < 5: // the same tag, other content
			c := variant(o.Content, note)
			if ms := t.mans[o.Repo]; c == nil || (len(ms) > 0 && t.r.Intn(3) == 0) {
				if len(ms) == 0 {
					return nil
				}
				m := ms[t.r.Intn(len(ms))]
				ro = pushMan(o.Repo, o.Tag, m.content, m.media)
			} else {
				ro = pushMan(o.Repo, o.Tag, c, o.Media)
			}
		case k < 7: // the same tag, the same content
			ro = pushMan(o.Repo, o.Tag, o.Content, o.Media)
		case k < 8: // a tag of the rival's own
			c := variant(o.Content, note)
			if c == nil {
				return nil
			}
			ro = pushMan(o.Repo, "rv-"+note, c, o.Media)
		case k < 9: // untagged
			c := variant(o.Content, note)
			if c == nil {
				return nil
			}
			ro = pushMan(o.Repo, "", c, o.Media)
		default:
			ro = pushBlob(o.Repo, []byte(note))
		}
		return []rival{{After: at, Op: ro}}
	}
	if t.r.Intn(10) == 0 { // any other moment
		repo := t.liveRepo()
		switch ms := t.mans[repo]; {
		case len(ms) > 0 && t.r.Intn(2) == 0:
			m := ms[t.r.Intn(len(ms))]
			tag := "rv-" + note
			if tags := t.g.TagsSet[repo]; len(tags) > 0 && t.r.Intn(3) == 0 {
				tag = tags[t.r.Intn(len(tags))] // re-tagging under the wrapper's feet: that tag is the rival's from now on
			}
			return []rival{{After: base, Op: pushMan(repo, tag, m.content, m.media)}}
		default:
			return []rival{{After: base, Op: pushBlob(repo, []byte(note))}}
		}
	}
	return nil
}

// concInput: a sequential build, then goroutines racing on the same few tags and digests
func concInput(rnd *rand.Rand, i int) input {
	in := input{Mech: "immtags"}
	repo := "r1"
	l1 := []byte{byte('a' + rnd.Intn(3))}
	l2 := []byte("L2")
	imgA := imageBytes(config, nil, l1)
	imgB := imageBytes(config, nil, l2)
	ixA := indexBytes(nil, descOf(mtImage, imgA))
	ixAB := indexBytes(nil, descOf(mtImage, imgA), descOf(mtImage, imgB))
	in.Setup = []memsim.Op{pushBlob(repo, l1), pushBlob(repo, l2), pushBlob(repo, config),
		pushMan(repo, "", imgA, mtImage), pushMan(repo, "", imgB, mtImage)}
	if rnd.Intn(2) == 0 {
		in.Setup = append(in.Setup, pushMan(repo, "", ixA, mtIndex))
	}
	if rnd.Intn(3) == 0 {
		in.Setup = append(in.Setup, pushMan(repo, "t2", imgB, mtImage))
	}
	mans := []manRec{{memsim.Sha(imgA), mtImage, imgA}, {memsim.Sha(imgB), mtImage, imgB}, {memsim.Sha(ixA), mtIndex, ixA}, {memsim.Sha(ixAB), mtIndex, ixAB}}
	blobs := [][]byte{l1, l2, config}
	tags := []string{"t1", "t2"}
	nt := 2 + rnd.Intn(2)
	for k := 0; k < nt; k++ {
		var th []memsim.Op
		n := 2 + rnd.Intn(2)
		for j := 0; j < n; j++ {
			m := mans[rnd.Intn(len(mans))]
			tag := tags[rnd.Intn(len(tags))]
			switch rnd.Intn(10) {
			case 0, 1, 2:
				th = append(th, pushMan(repo, tag, m.content, m.media))
			case 3:
				th = append(th, memsim.Op{Kind: "DeleteManifest", Repo: repo, Digest: m.digest})
			case 4:
				th = append(th, delBlob(repo, blobs[rnd.Intn(len(blobs))]))
			case 5:
				th = append(th, delTag(repo, tag))
			case 6:
				th = append(th, resTag(repo, tag))
			case 7:
				th = append(th, getTag(repo, tag))
			case 8:
				th = append(th, pushMan(repo, "", m.content, []string{m.media, mtFoo}[rnd.Intn(2)]))
			default:
				th = append(th, memsim.Op{Kind: "GetManifest", Repo: repo, Digest: m.digest})
			}
		}
		in.Threads = append(in.Threads, th)
	}
	if rnd.Intn(2) == 0 {
		for _, th := range in.Threads {
			g := make([]float64, len(th))
			for j := range g {
				if rnd.Intn(2) == 0 {
					g[j] = rnd.Float64()
				}
			}
			in.Gaps = append(in.Gaps, g)
		}
	}
	return in
}

// ---- duels: an operation and the one that must not be let through in the middle of it ----

// annotatedImage: an image manifest over the given layers, made distinct by an annotation
func annotatedImage(note string, cfg []byte, layers ...[]byte) []byte {
	return paddedImage(note, 0, cfg, layers...)
}

// paddedImage: the same with a second annotation of the given length (a manifest with a long
// description; decoding it takes proportionally longer)
func paddedImage(note string, pad int, cfg []byte, layers ...[]byte) []byte {
	m := ocispec.Manifest{MediaType: mtImage, Config: descOf(ocispec.MediaTypeImageConfig, cfg)}
	m.SchemaVersion = 2
	for _, l := range layers {
		m.Layers = append(m.Layers, descOf("application/layer", l))
	}
	m.Annotations = map[string]string{"org.example.note": note}
	if pad > 0 {
		m.Annotations["org.opencontainers.image.description"] = strings.Repeat("lorem ipsum ", pad/12+1)[:pad]
	}
	b, _ := json.Marshal(m)
	return b
}

func paddedIndex(pad int, children ...ocispec.Descriptor) []byte {
	ix := ocispec.Index{MediaType: mtIndex, Manifests: children}
	ix.SchemaVersion = 2
	if pad > 0 {
		ix.Annotations = map[string]string{"org.opencontainers.image.description": strings.Repeat("lorem ipsum ", pad/12+1)[:pad]}
	}
	b, _ := json.Marshal(ix)
	return b
}

// duelInput: in immutable-tags mode a delete is "walk the tags, then remove" and a tagged push is
// "look at the tag and at what the manifest names, then store": each must be one step.  The
// repository gets some ballast (tagged images: the walk of a delete visits them all), then one
// goroutine deletes a victim that nothing tagged names yet while another pushes, under a fresh
// tag, a manifest that names the victim directly (a layer, the config, an index entry) - or two
// goroutines push different manifests under the same fresh tag.  The second goroutine starts at a
// random point of the span of the first one's operation (input.Gaps); a few more operations on the
// same names follow.  Whatever the outcome, it must be the outcome of SOME order of the operations.
func duelInput(rnd *rand.Rand, i int) input {
	in := input{Mech: "immtags"}
	repo := "r1"
	pad := []byte("pad")
	victimBlob := []byte{'v', byte('a' + rnd.Intn(3))}
	in.Setup = []memsim.Op{pushBlob(repo, config), pushBlob(repo, pad), pushBlob(repo, victimBlob)}
	// ballast: a few tagged images with long descriptions (what matters is how long the walk
	// over the tags takes, and that is the time to decode what they point at)
	ballast := 2 + rnd.Intn(4)
	padLen := []int{1500, 3000, 6000}[rnd.Intn(3)]
	for k := 0; k < ballast; k++ {
		in.Setup = append(in.Setup, pushMan(repo, fmt.Sprintf("s%d", k), paddedImage(fmt.Sprintf("ballast-%d", k), padLen, config, pad), mtImage))
	}
	tag := "n1"
	// the pushed manifests carry a long description half of the time: then it is the push whose
	// span (decoding and checking what the manifest names) is long enough to aim at
	apad := []int{0, 0, 1500, 6000}[rnd.Intn(4)]
	var first, second memsim.Op // the two duellists
	var extras []memsim.Op      // what the tails draw from
	switch k := rnd.Intn(10); {
	case k < 3: // a layer
		adopter := paddedImage("adopter", apad, config, pad, victimBlob)
		first, second = delBlob(repo, victimBlob), pushMan(repo, tag, adopter, mtImage)
		extras = []memsim.Op{getBlob(repo, victimBlob), delBlob(repo, victimBlob), getMan(repo, adopter), delMan(repo, adopter)}
	case k < 5: // the config
		adopter := paddedImage("adopter", apad, victimBlob, pad)
		first, second = delBlob(repo, victimBlob), pushMan(repo, tag, adopter, mtImage)
		extras = []memsim.Op{getBlob(repo, victimBlob), delBlob(repo, victimBlob), pushMan(repo, "", adopter, mtImage), delMan(repo, adopter)}
	case k < 8: // an index entry
		victim := annotatedImage("victim", config, pad)
		in.Setup = append(in.Setup, pushMan(repo, "", victim, mtImage))
		adopter := paddedIndex(apad, descOf(mtImage, victim))
		first, second = delMan(repo, victim), pushMan(repo, tag, adopter, mtIndex)
		extras = []memsim.Op{getMan(repo, victim), delMan(repo, victim), delMan(repo, adopter), pushMan(repo, "", victim, mtImage), delBlob(repo, pad)}
	default: // two contents for one fresh tag
		p := paddedImage("p", apad, config, pad)
		q := paddedImage("q", apad, config, pad, victimBlob)
		first, second = pushMan(repo, tag, p, mtImage), pushMan(repo, tag, q, mtImage)
		extras = []memsim.Op{pushMan(repo, tag, p, mtImage), pushMan(repo, tag, q, mtImage), delBlob(repo, victimBlob), delMan(repo, p), delMan(repo, q)}
	}
	extras = append(extras, getTag(repo, tag), resTag(repo, tag), delTag(repo, tag), second, first)
	tail := func(n int) []memsim.Op {
		var t []memsim.Op
		for j := 0; j < n; j++ {
			t = append(t, extras[rnd.Intn(len(extras))])
		}
		return t
	}
	if rnd.Intn(2) == 0 { // either operation may be the one with a window in it
		first, second = second, first
	}
	a := append([]memsim.Op{first}, tail(rnd.Intn(3))...)
	b := append([]memsim.Op{second}, tail(rnd.Intn(3))...)
	in.Threads = [][]memsim.Op{a, b}
	if rnd.Intn(3) == 0 {
		in.Threads = append(in.Threads, tail(1+rnd.Intn(2)))
	}
	for ti, th := range in.Threads {
		g := make([]float64, len(th))
		for j := range g {
			switch {
			case j == 0 && ti == 0:
				if rnd.Intn(3) == 0 {
					g[j] = 0.4 * rnd.Float64()
				}
			case j == 0:
				g[j] = 1.1 * rnd.Float64()
			case rnd.Intn(2) == 0:
				g[j] = 0.6 * rnd.Float64()
			}
		}
		in.Gaps = append(in.Gaps, g)
	}
	if rnd.Intn(2) == 0 { // which goroutine is created first should not matter
		in.Threads[0], in.Threads[1] = in.Threads[1], in.Threads[0]
		in.Gaps[0], in.Gaps[1] = in.Gaps[1], in.Gaps[0]
	}
	return in
}
