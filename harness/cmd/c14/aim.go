package main

import (
	"crypto/sha512"
	"encoding/hex"
	"fmt"
	"sort"
	"strings"

	"verif/harness/memsim"
)

// ---- pushes aimed at what a tag protects ----

// What immutability protects is addressed by digest, and a digest can be named by anybody: in a
// PushBlob descriptor, in the commit of a chunked upload, in a mount.  Whatever arrives under the
// digest of a tagged image's layer, of its config, of a child manifest or of the tagged manifest
// itself - nothing at all, a truncated copy, something else, the genuine content with a wrong
// size - the registry may accept only what hashes to that digest, and what the tag reaches must
// afterwards read as it did.

type aimTarget struct {
	name    string
	content []byte
	blob    bool // stored as a blob (otherwise as a manifest)
}

// bodies for a push under the digest of target content x
func aimBodies(x, other []byte) map[string][]byte {
	return map[string][]byte{
		"empty":     {},
		"first":     x[:1],
		"truncated": x[:len(x)-1],
		"longer":    append(append([]byte{}, x...), '\n'),
		"evil":      []byte("EVIL-EVIL-EVIL-EVIL"),
		"swapped":   other, // another content the repository holds
	}
}

// sizes a descriptor may claim for content x when the body sent is b
func aimSizes(x, b []byte) []int64 {
	cands := []int64{int64(len(x)), 0, -1, int64(len(x)) + 1, int64(len(b)), int64(len(x)) - 1, 1 << 40}
	var out []int64
	seen := map[int64]bool{}
	for _, s := range cands {
		if !seen[s] {
			seen[s] = true
			out = append(out, s)
		}
	}
	return out
}

func aimedScenarios() map[string]input {
	out := map[string]input{}
	layer := []byte("layer-that-a-tagged-image-depends-on-0123456789")
	cfg := []byte(`{"architecture":"amd64","os":"linux"}`)
	spare := []byte("some-other-blob-of-the-same-repository")
	img := imageBytes(cfg, nil, layer)
	ix := indexBytes(nil, descOf(mtImage, img))
	// tag v1 -> index -> image -> layer, config; tag v2 -> the image
	blobs := []memsim.Op{pushBlob("r1", layer), pushBlob("r1", cfg), pushBlob("r1", spare), pushBlob("r2", spare)}
	tagging := []memsim.Op{pushMan("r1", "", img, mtImage), pushMan("r1", "v1", ix, mtIndex), pushMan("r1", "v2", img, mtImage),
		getTag("r1", "v1"), getTag("r1", "v2")}
	targets := []aimTarget{{"layer", layer, true}, {"config", cfg, true}, {"child", img, false}, {"tagged", ix, false}}
	cat := func(parts ...[]memsim.Op) []memsim.Op {
		var all []memsim.Op
		for _, p := range parts {
			all = append(all, p...)
		}
		return all
	}
	reads := func(t aimTarget) []memsim.Op {
		d := memsim.Sha(t.content)
		rs := []memsim.Op{{Kind: "GetBlob", Repo: "r1", Digest: d}, {Kind: "ResolveBlob", Repo: "r1", Digest: d}}
		if !t.blob {
			rs = append(rs, memsim.Op{Kind: "GetManifest", Repo: "r1", Digest: d}, memsim.Op{Kind: "ResolveManifest", Repo: "r1", Digest: d})
		}
		return append(rs, getTag("r1", "v1"), getTag("r1", "v2"))
	}
	n := 0
	emit := func(name string, attack []memsim.Op) {
		// in immutable-tags mode: the image tagged before the first snapshot (what the walk from
		// the tags reaches must be kept), or tagged in the history (then the last snapshot must
		// still be closed and read true); through the Immutable wrapper: over both
		// configurations, the registry handed over under the four dynamic types in turn
		switch n % 2 {
		case 0:
			out[name+"_immtags"] = input{Mech: "immtags", Setup: cat(blobs, tagging), Ops: attack}
		default:
			out[name+"_immtags_late"] = input{Mech: "immtags", Setup: blobs, Ops: cat(tagging, attack)}
		}
		w := wrapKinds[n%4]
		if n%3 != 0 {
			out[name+"_immutable"] = input{Mech: "immutable", Wrap: w, UnderImm: n%4 >= 2, Setup: cat(blobs, tagging), Ops: attack}
		} else {
			out[name+"_immutable_whole"] = input{Mech: "immutable", Wrap: w, UnderImm: n%4 >= 2, Ops: cat(blobs, tagging, attack)}
		}
		n++
	}
	for _, t := range targets {
		d := memsim.Sha(t.content)
		bodies := aimBodies(t.content, spare)
		var names []string
		for k := range bodies {
			names = append(names, k)
		}
		sort.Strings(names)
		for _, bn := range names {
			b := bodies[bn]
			// PushBlob: the genuine content again first (that one may succeed and changes
			// nothing), then this body under every size a descriptor can claim
			attack := []memsim.Op{}
			if t.blob {
				attack = append(attack, pushBlob("r1", t.content))
			}
			for i, sz := range aimSizes(t.content, b) {
				media := "application/octet-stream"
				if i%5 == 4 {
					media = "application/vnd.oci.image.layer.v1.tar"
				}
				attack = append(attack, memsim.Op{Kind: "PushBlob", Repo: "r1", Content: b,
					Desc: &memsim.Desc{Media: media, Digest: d, Size: sz}})
				if i == 1 {
					attack = append(attack, reads(t)[0])
				}
			}
			attack = append(attack, reads(t)...)
			attack = append(attack, memsim.Op{Kind: "DeleteBlob", Repo: "r1", Digest: d})
			emit("aim_"+t.name+"_pushblob_"+bn, attack)
		}
		// the genuine content under a size that is not its own
		{
			var attack []memsim.Op
			for _, sz := range aimSizes(t.content, t.content)[1:] {
				attack = append(attack, memsim.Op{Kind: "PushBlob", Repo: "r1", Content: t.content,
					Desc: &memsim.Desc{Media: "application/octet-stream", Digest: d, Size: sz}})
			}
			attack = append(attack, reads(t)...)
			attack = append(attack, memsim.Op{Kind: "DeleteBlob", Repo: "r1", Digest: d})
			emit("aim_"+t.name+"_pushblob_genuine_sizes", attack)
		}
		// chunked uploads committed under the target's digest: nothing written, an empty write,
		// each body; one session each (a failed commit ends its session), then the sessions
		// opened again and committed once more
		{
			var attack []memsim.Op
			w := 0
			session := func(body []byte, write bool) {
				attack = append(attack, memsim.Op{Kind: "PushBlobChunked", Repo: "r1"})
				if write {
					attack = append(attack, memsim.Op{Kind: "WWrite", W: w, Content: body})
				}
				attack = append(attack, memsim.Op{Kind: "WCommit", W: w, Digest: d})
				w++
			}
			session(nil, false)
			session([]byte{}, true)
			for _, bn := range names {
				session(bodies[bn], true)
			}
			attack = append(attack, reads(t)[0])
			// a session opened at an offset before its end, committed under the target's digest
			attack = append(attack, memsim.Op{Kind: "PushBlobChunked", Repo: "r1"}, memsim.Op{Kind: "WWrite", W: w, Content: t.content},
				memsim.Op{Kind: "PushBlobChunkedResume", Repo: "r1", ID: fmt.Sprintf("#%d", w), Off: 0},
				memsim.Op{Kind: "WCommit", W: w, Digest: d})
			w++
			attack = append(attack, memsim.Op{Kind: "PushBlobChunked", Repo: "r1"}, memsim.Op{Kind: "WWrite", W: w, Content: t.content},
				memsim.Op{Kind: "PushBlobChunkedResume", Repo: "r1", ID: fmt.Sprintf("#%d", w), Off: 1},
				memsim.Op{Kind: "WWrite", W: w, Content: []byte("X")},
				memsim.Op{Kind: "WCommit", W: w, Digest: d})
			attack = append(attack, reads(t)...)
			attack = append(attack, memsim.Op{Kind: "DeleteBlob", Repo: "r1", Digest: d})
			emit("aim_"+t.name+"_chunked", attack)
		}
		// mounts under the target's digest: from a repository that does not hold it, from one
		// that holds other content, from the repository itself, from one that does not exist; and
		// the target mounted elsewhere and attacked there (the tags of r1 do not protect r2's
		// copy, but r1's must not notice)
		{
			attack := []memsim.Op{
				{Kind: "MountBlob", From: "r2", Repo: "r1", Digest: d},
				{Kind: "MountBlob", From: "nosuch", Repo: "r1", Digest: d},
				{Kind: "MountBlob", From: "r1", Repo: "r1", Digest: d},
				{Kind: "MountBlob", From: "r1", Repo: "r2", Digest: d},
				{Kind: "PushBlob", Repo: "r2", Content: []byte{}, Desc: &memsim.Desc{Media: "application/octet-stream", Digest: d, Size: int64(len(t.content))}},
				{Kind: "DeleteBlob", Repo: "r2", Digest: d},
				{Kind: "MountBlob", From: "r2", Repo: "r1", Digest: d},
				{Kind: "MountBlob", From: "r2", Repo: "r1", Digest: memsim.Sha(spare)},
			}
			attack = append(attack, reads(t)...)
			attack = append(attack, memsim.Op{Kind: "DeleteBlob", Repo: "r1", Digest: d})
			emit("aim_"+t.name+"_mount", attack)
		}
	}
	// manifests: under an observed tag nothing, a truncated copy, the copy with a byte appended;
	// untagged too (other digests, so they are merely stored or refused)
	{
		var attack []memsim.Op
		for _, tag := range []string{"v1", "v2", ""} {
			for _, c := range [][]byte{{}, ix[:len(ix)-1], img[:len(img)-1], append(append([]byte{}, img...), ' '), []byte("null"), []byte("{}")} {
				for _, media := range []string{mtImage, mtIndex} {
					attack = append(attack, pushMan("r1", tag, c, media))
				}
			}
		}
		attack = append(attack, reads(targets[2])...)
		attack = append(attack, reads(targets[3])...)
		attack = append(attack, delMan("r1", img), delMan("r1", ix), delTag("r1", "v1"))
		emit("aim_manifests", attack)
	}
	// the minimal history for the corpus: an empty body under the digest of a tagged image's layer
	out["corpus_empty_push_under_tagged_layer"] = input{Mech: "immtags",
		Setup: []memsim.Op{pushBlob("r1", layer), pushBlob("r1", cfg), pushMan("r1", "v2", img, mtImage)},
		Ops: []memsim.Op{
			{Kind: "PushBlob", Repo: "r1", Content: []byte{}, Desc: &memsim.Desc{Media: "application/octet-stream", Digest: memsim.Sha(layer), Size: int64(len(layer))}},
			{Kind: "PushBlob", Repo: "r1", Content: []byte{}, Desc: &memsim.Desc{Media: "application/octet-stream", Digest: memsim.Sha(layer), Size: -1}},
			getBlob("r1", layer), getTag("r1", "v2"), delBlob("r1", layer)}}
	return out
}

// ---- every tag, whatever it looks like ----

func hexOf(d string) string { return d[strings.IndexByte(d, ':')+1:] }

func sha384Hex(c []byte) string {
	h := sha512.Sum384(c)
	return hex.EncodeToString(h[:])
}

// lookalikeTags: names the tag grammar ([a-zA-Z0-9_][a-zA-Z0-9._-]{0,127}) allows and that look
// like something else: the referrers tag schema of the distribution specification
// (<algorithm>-<encoded>, a digest with '-' for ':') for the digests given, near misses of it, the
// words of the API's URL space, a repository's name, the longest tag, the shortest, a leading
// underscore.  A tag is a tag: every one of them is as immutable as "v1".
func lookalikeTags(digests ...string) []string {
	var out []string
	for _, d := range digests {
		out = append(out, strings.Replace(d, ":", "-", 1))
	}
	d0 := digests[0]
	h := hexOf(d0)
	out = append(out,
		"sha256-"+hexOf(memsim.Sha(nil)),
		"sha384-"+sha384Hex([]byte("x")),   // another registered algorithm (103 bytes: still a tag)
		"sha256-"+strings.ToUpper(h),       // no digest: upper-case hex
		"sha256-"+h[:63],                   // no digest: short
		"sha256_"+h, "sha256."+h, "sha256--"+h, // other separators
		"SHA256-"+h,
		"sha256-"+h+".sig", "sha256-"+h+".att", // the cosign schema
		"sha256", "sha256-", "sha512-"+h,
		"latest", "_", "_x", "__", "0", "1.0.0-rc.1", "UPPER-lower_0.9", "a..b", "x-", "x.",
		strings.Repeat("t", 128), strings.Repeat("Ab0._-zZ", 16), strings.Repeat("9", 127),
		"blobs", "manifests", "tags", "list", "uploads", "referrers", "_catalog", "v2", "r1", "null", "true",
	)
	seen := map[string]bool{}
	var uniq []string
	for _, t := range out {
		if !seen[t] {
			seen[t] = true
			uniq = append(uniq, t)
		}
	}
	return uniq
}

func tagShapeScenarios() map[string]input {
	out := map[string]input{}
	imgA := imageBytes(config, nil, layer1)
	imgB := imageBytes(config, nil, layer2)
	base := []memsim.Op{pushBlob("r1", layer1), pushBlob("r1", layer2), pushBlob("r1", config)}
	cat := func(parts ...[]memsim.Op) []memsim.Op {
		var all []memsim.Op
		for _, p := range parts {
			all = append(all, p...)
		}
		return all
	}
	tags := lookalikeTags(memsim.Sha(imgA), memsim.Sha(imgB), memsim.Sha(layer1))
	for i, tag := range tags {
		first := []memsim.Op{pushMan("r1", tag, imgA, mtImage)}
		attack := []memsim.Op{resTag("r1", tag), getTag("r1", tag),
			pushMan("r1", tag, imgA, mtImage), pushMan("r1", tag, imgB, mtImage), pushMan("r1", tag, imgA, mtFoo),
			pushMan("r1", "", imgB, mtImage), pushMan("r1", tag, imgB, mtImage),
			delTag("r1", tag), resTag("r1", tag), delMan("r1", imgA), delBlob("r1", layer1), delBlob("r1", config),
			resTag("r1", tag), getTag("r1", tag), getBlob("r1", layer1), {Kind: "Tags", Repo: "r1"}}
		name := fmt.Sprintf("tagshape_%02d", i)
		if i%2 == 0 {
			out[name+"_immtags"] = input{Mech: "immtags", Setup: cat(base, first), Ops: attack}
		} else {
			out[name+"_immtags_late"] = input{Mech: "immtags", Setup: base, Ops: cat(first, attack)}
		}
		// through the Immutable wrapper, the tag bound before the wrapper came (the snapshot
		// sees it) or through it; over both configurations; the four dynamic types in turn
		out[name+"_immutable"] = input{Mech: "immutable", Wrap: wrapKinds[i%4], UnderImm: i%8 >= 4, Setup: cat(base, first), Ops: attack}
		out[name+"_immutable_whole"] = input{Mech: "immutable", Wrap: wrapKinds[(i+1)%4], UnderImm: i%8 < 4 && i%3 == 0, Ops: cat(base, first, attack)}
		if i%3 == 0 {
			out[name+"_readonly"] = input{Mech: "readonly", Wrap: wrapKinds[(i+2)%4], Setup: cat(base, first), Ops: attack}
		}
	}
	// the referrers tag schema used as meant: a manifest with a subject is pushed, and the index
	// of the subject's referrers is kept under the tag <alg>-<hex of the subject's digest>; a
	// second referrer arrives and the client "updates" that index.  Under immutability the
	// update is a tag move like any other.
	subj := descOf(mtImage, imgA)
	ref1 := imageBytes(config, &subj, layer1)
	ref2 := imageBytes(config, &subj, layer2)
	fallback := strings.Replace(memsim.Sha(imgA), ":", "-", 1)
	ix1 := indexBytes(nil, descOf(mtImage, ref1))
	ix2 := indexBytes(nil, descOf(mtImage, ref1), descOf(mtImage, ref2))
	build := cat(base, []memsim.Op{pushMan("r1", "v1", imgA, mtImage), pushMan("r1", "", ref1, mtImage), pushMan("r1", fallback, ix1, mtIndex)})
	attack := []memsim.Op{getTag("r1", fallback), pushMan("r1", "", ref2, mtImage), pushMan("r1", fallback, ix2, mtIndex),
		resTag("r1", fallback), getTag("r1", fallback), delTag("r1", fallback), delMan("r1", ix1), delMan("r1", ref1),
		pushMan("r1", fallback, ix1, mtIndex), {Kind: "Referrers", Repo: "r1", Digest: memsim.Sha(imgA)},
		resTag("r1", fallback), getTag("r1", "v1")}
	out["referrers_schema_immtags"] = input{Mech: "immtags", Setup: build, Ops: attack}
	out["referrers_schema_immtags_late"] = input{Mech: "immtags", Ops: cat(build, attack)}
	for i, w := range wrapKinds {
		out["referrers_schema_immutable_"+w] = input{Mech: "immutable", Wrap: w, UnderImm: i%2 == 1, Setup: build, Ops: attack}
		out["referrers_schema_immutable_whole_"+w] = input{Mech: "immutable", Wrap: w, UnderImm: i%2 == 0, Ops: cat(build, attack)}
	}
	out["referrers_schema_readonly"] = input{Mech: "readonly", Wrap: "funcs", Setup: build, Ops: attack}
	// the minimal history for the corpus
	out["corpus_referrers_shaped_tag_through_immutable"] = input{Mech: "immutable",
		Setup: cat(base, []memsim.Op{pushMan("r1", fallback, imgA, mtImage)}),
		Ops:   []memsim.Op{resTag("r1", fallback), pushMan("r1", fallback, imgB, mtImage), resTag("r1", fallback), getTag("r1", fallback)}}
	return out
}
