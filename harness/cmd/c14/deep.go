package main

import (
	"encoding/json"
	"fmt"

	ocispec "github.com/opencontainers/image-spec/specs-go/v1"
	"verif/harness/memsim"
)

// ---- what a tag reaches far away: deep chains, wide indexes, many tags ----

// "Everything a tagged manifest transitively references" has no bound in it: not on the number of
// manifests between the tag and the content, not on the number of entries of an index, not on the
// number of tags of a repository.  PushManifest checks direct references only, so a chain of any
// length is built bottom-up from legal pushes.  A walk that gives up silently after n levels, n
// manifests or n tags treats the rest as unreferenced.
//
// linkKinds: how one manifest of the chain names the one below it.
var linkKinds = []string{"entry", "ixsubject", "imgsubject", "mixed", "second"}

// chain builds depth manifests above the image bottom; it returns the pushes (bottom-up, the last
// one is the top, not pushed here) and every manifest of the chain, top last.
func chain(kind string, depth int, salt string, bottom []byte, cfg, filler []byte, side []byte) (mans [][]byte, medias []string) {
	cur, curMedia := bottom, mtImage
	for lvl := 1; lvl <= depth; lvl++ {
		d := descOf(curMedia, cur)
		k := kind
		if kind == "mixed" {
			k = []string{"entry", "imgsubject", "ixsubject", "second"}[lvl%4]
		}
		var next []byte
		nextMedia := mtIndex
		switch k {
		case "entry":
			ix := ocispec.Index{MediaType: mtIndex, Manifests: []ocispec.Descriptor{d},
				Annotations: map[string]string{"level": fmt.Sprintf("%s %d", salt, lvl)}}
			ix.SchemaVersion = 2
			next, _ = json.Marshal(ix)
		case "second": // the way down is the second entry, after a complete image of its own
			ix := ocispec.Index{MediaType: mtIndex, Manifests: []ocispec.Descriptor{descOf(mtImage, side), d},
				Annotations: map[string]string{"level": fmt.Sprintf("%s %d", salt, lvl)}}
			ix.SchemaVersion = 2
			next, _ = json.Marshal(ix)
		case "ixsubject": // an index with no entries whose subject is the manifest below
			ix := ocispec.Index{MediaType: mtIndex, Manifests: []ocispec.Descriptor{}, Subject: &d,
				Annotations: map[string]string{"level": fmt.Sprintf("%s %d", salt, lvl)}}
			ix.SchemaVersion = 2
			next, _ = json.Marshal(ix)
		default: // an image (a signature, an attestation ...) whose subject is the manifest below
			m := ocispec.Manifest{MediaType: mtImage, Config: descOf(ocispec.MediaTypeImageConfig, cfg), Subject: &d,
				Layers:      []ocispec.Descriptor{blobDesc(filler)},
				Annotations: map[string]string{"level": fmt.Sprintf("%s %d", salt, lvl)}}
			m.SchemaVersion = 2
			next, _ = json.Marshal(m)
			nextMedia = mtImage
		}
		mans = append(mans, next)
		medias = append(medias, nextMedia)
		cur, curMedia = next, nextMedia
	}
	return
}

// deepDepths: every small depth, and both sides of the round numbers a limit would be set to
var deepDepths = map[string][]int{
	"entry":      {1, 2, 3, 5, 7, 8, 9, 10, 12, 16, 17, 33},
	"ixsubject":  {3, 8, 9, 17, 33},
	"imgsubject": {3, 8, 9, 17},
	"mixed":      {4, 8, 9, 10, 17, 33},
	"second":     {8, 9},
}

func deepScenarios() map[string]input {
	out := map[string]input{}
	n := 0
	for _, kind := range linkKinds {
		for _, depth := range deepDepths[kind] {
			n++
			salt := fmt.Sprintf("%s/%d", kind, depth)
			layer := []byte("the layer at the bottom of " + salt)
			cfg := []byte(`{"os":"deep","of":"` + salt + `"}`)
			filler := []byte("filler of " + salt)
			sideLayer := []byte("side layer of " + salt)
			bottom := imageOf(descOf(ocispec.MediaTypeImageConfig, cfg), nil, blobDesc(layer))
			side := imageOf(descOf(ocispec.MediaTypeImageConfig, cfg), nil, blobDesc(sideLayer))
			mans, medias := chain(kind, depth, salt, bottom, cfg, filler, side)
			store := []memsim.Op{pushBlob("r1", layer), pushBlob("r1", cfg), pushBlob("r1", filler), pushBlob("r1", sideLayer),
				pushMan("r1", "", side, mtImage), pushMan("r1", "", bottom, mtImage)}
			for i := 0; i < len(mans)-1; i++ {
				store = append(store, pushMan("r1", "", mans[i], medias[i]))
			}
			top := len(mans) - 1
			tagging := []memsim.Op{pushMan("r1", "deep", mans[top], medias[top]), getTag("r1", "deep")}
			// the deepest content first, then the manifests bottom-up: all of them when the chain is
			// short, the lowest three and one in seven of the rest otherwise
			attack := []memsim.Op{delBlob("r1", layer), delBlob("r1", cfg), delMan("r1", bottom)}
			reads := []memsim.Op{getBlob("r1", layer), getBlob("r1", cfg), getMan("r1", bottom)}
			for i := 0; i < len(mans); i++ {
				if depth <= 12 || i < 3 || i%7 == 0 || i == top {
					attack = append(attack, delMan("r1", mans[i]))
					reads = append(reads, getMan("r1", mans[i]))
				}
			}
			tail := []memsim.Op{getTag("r1", "deep"), delTag("r1", "deep")}
			cat := func(parts ...[]memsim.Op) []memsim.Op {
				var all []memsim.Op
				for _, p := range parts {
					all = append(all, p...)
				}
				return all
			}
			name := fmt.Sprintf("deep_%s_%03d", kind, depth)
			out[name+"_immtags"] = input{Mech: "immtags", Setup: cat(store, tagging), Ops: cat(attack, reads, tail)}
			v := n % 4
			if depth > 17 {
				v = 3 // the long ones once
			}
			switch v {
			case 0: // the manifest alone: whatever the blobs' deletes would have changed
				out[name+"_immtags_manifest"] = input{Mech: "immtags", Setup: cat(store, tagging),
					Ops: []memsim.Op{delMan("r1", bottom), getMan("r1", bottom), delBlob("r1", cfg), getBlob("r1", cfg)}}
			case 1:
				out[name+"_immtags_late"] = input{Mech: "immtags", Setup: store, Ops: cat(tagging, attack, reads, tail)}
			case 2:
				out[name+"_immutable"] = input{Mech: "immutable", Wrap: wrapKinds[n%len(wrapKinds)], UnderImm: true, Setup: cat(store, tagging), Ops: cat(attack, reads, tail)}
			}
		}
	}
	// wide: the content sits below the last of w entries of an index (entries share config and
	// layer but for the last), and below each of w tags
	for _, w := range []int{9, 33} {
		salt := fmt.Sprintf("wide/%d", w)
		cfg := []byte(`{"os":"wide","of":"` + salt + `"}`)
		common := []byte("a layer all entries share, " + salt)
		last := []byte("the layer of the last entry, " + salt)
		store := []memsim.Op{pushBlob("r1", cfg), pushBlob("r1", common), pushBlob("r1", last)}
		var entries []ocispec.Descriptor
		var imgs [][]byte
		for i := 0; i < w; i++ {
			l := common
			if i == w-1 {
				l = last
			}
			m := ocispec.Manifest{MediaType: mtImage, Config: descOf(ocispec.MediaTypeImageConfig, cfg), Layers: []ocispec.Descriptor{blobDesc(l)},
				Annotations: map[string]string{"n": fmt.Sprintf("%s %d", salt, i)}}
			m.SchemaVersion = 2
			b, _ := json.Marshal(m)
			imgs = append(imgs, b)
			entries = append(entries, descOf(mtImage, b))
			store = append(store, pushMan("r1", "", b, mtImage))
		}
		ix := indexBytes(nil, entries...)
		lastImg := imgs[w-1]
		ops := []memsim.Op{delBlob("r1", last), delMan("r1", lastImg), delMan("r1", imgs[w/2]), delBlob("r1", common), delBlob("r1", cfg),
			getBlob("r1", last), getMan("r1", lastImg), getMan("r1", imgs[w/2]), getTag("r1", "wide")}
		out[fmt.Sprintf("wide_index_%03d_immtags", w)] = input{Mech: "immtags",
			Setup: append(append([]memsim.Op{}, store...), pushMan("r1", "wide", ix, mtIndex), getTag("r1", "wide")), Ops: ops}
		// many tags: one per image; whichever order the registry visits them in, every one is visited
		if w <= 33 {
			setup := append([]memsim.Op{}, store[:3]...)
			for i, b := range imgs {
				setup = append(setup, pushMan("r1", fmt.Sprintf("t%03d", i), b, mtImage))
			}
			setup = append(setup, getTag("r1", fmt.Sprintf("t%03d", w-1)), getTag("r1", "t000"))
			out[fmt.Sprintf("wide_tags_%03d_immtags", w)] = input{Mech: "immtags", Setup: setup,
				Ops: []memsim.Op{delBlob("r1", last), delMan("r1", lastImg), delMan("r1", imgs[0]), delBlob("r1", common),
					getBlob("r1", last), getMan("r1", lastImg), getTag("r1", fmt.Sprintf("t%03d", w-1))}}
		}
	}
	return out
}

// ---- the same bytes somewhere else, under another media type ----

// Which manifests and blobs a stored manifest names is a function of its bytes AND of the media
// type it is stored under, and that is per repository: the bytes of an image manifest pushed as
// application/vnd.docker.distribution.manifest.v2+json (or any type the registry does not look
// into) name nothing there, the same bytes pushed as an OCI image manifest in another repository
// name their layers and config; bytes with both a "manifests" and a "layers" member name one set
// as an index and the other as an image.  Whatever a walk in one repository found out about a
// digest says nothing about that digest in another repository (or another registry of the process).

const mtDocker = "application/vnd.docker.distribution.manifest.v2+json"

func crossScenarios() map[string]input {
	out := map[string]input{}
	cat := func(parts ...[]memsim.Op) []memsim.Op {
		var all []memsim.Op
		for _, p := range parts {
			all = append(all, p...)
		}
		return all
	}
	n := 0
	// opaque: the media type of the copy that names nothing
	for _, opaque := range []string{mtDocker, mtFoo, "text/plain", "application/vnd.docker.distribution.manifest.list.v2+json"} {
		// walker: what makes the registry walk the tags of the first repository
		for _, walker := range []string{"blob", "manifest", "refused", "read"} {
			for _, shape := range []string{"image", "index", "hybrid", "below"} {
				n++
				if (n+len(walker))%3 != 0 && !(opaque == mtDocker && walker == "blob") {
					continue // a third of the grid, and the plainest row in full
				}
				salt := fmt.Sprintf("%d %s %s", n, walker, shape)
				opaque := opaque
				layer := []byte("cross layer " + salt)
				cfg := []byte(`{"cross":"` + salt + `"}`)
				extra := []byte("an unrelated blob " + salt)
				child := imageOf(descOf(ocispec.MediaTypeImageConfig, cfg), nil, blobDesc(layer))
				loose := imageOf(descOf(ocispec.MediaTypeImageConfig, cfg), nil, blobDesc(extra)) // untagged, deletable
				var M []byte
				real := mtImage
				// needs: what M names when it is looked into (stored in the second repository before M)
				var needs []memsim.Op
				var victimsB, victimsM [][]byte
				switch shape {
				case "image":
					M = child
					needs = []memsim.Op{pushBlob("r2", layer), pushBlob("r2", cfg)}
					victimsB = [][]byte{layer, cfg}
				case "index":
					M = indexBytes(nil, descOf(mtImage, child))
					real = mtIndex
					needs = []memsim.Op{pushBlob("r2", layer), pushBlob("r2", cfg), pushMan("r2", "", child, mtImage)}
					victimsB, victimsM = [][]byte{layer}, [][]byte{child}
				case "hybrid": // one JSON object, an index and an image at once
					M = []byte(fmt.Sprintf(`{"schemaVersion":2,"manifests":[],"config":%s,"layers":[%s],"annotations":{"n":%q}}`,
						mustJSON(descOf(ocispec.MediaTypeImageConfig, cfg)), mustJSON(blobDesc(layer)), salt))
					needs = []memsim.Op{pushBlob("r2", layer), pushBlob("r2", cfg)}
					victimsB = [][]byte{layer, cfg}
					if opaque != mtDocker {
						opaque = mtIndex // as an index it names nothing
					}
				default: // M sits below a tagged index in the second repository
					M = child
					needs = []memsim.Op{pushBlob("r2", layer), pushBlob("r2", cfg)}
					victimsB = [][]byte{cfg, layer}
				}
				// first repository: the opaque copy, tagged, and a walk
				first := []memsim.Op{pushBlob("r1", extra), pushBlob("r1", cfg), pushMan("r1", "", loose, mtImage), pushMan("r1", "v1", M, opaque), getTag("r1", "v1")}
				switch walker {
				case "blob":
					first = append(first, delBlob("r1", []byte("nothing stored has this content "+salt)), delBlob("r1", extra))
				case "manifest":
					first = append(first, delMan("r1", loose))
				case "refused":
					first = append(first, delMan("r1", M))
				default: // no walk at all, reads only: nothing to remember
					first = append(first, getMan("r1", M), resTag("r1", "v1"))
				}
				second := cat(needs, []memsim.Op{pushMan("r2", "v1", M, real), getTag("r2", "v1")})
				if shape == "below" {
					top := indexBytes(nil, descOf(mtImage, M))
					second = cat(needs, []memsim.Op{pushMan("r2", "", M, real), pushMan("r2", "v1", top, mtIndex), getTag("r2", "v1")})
					victimsM = [][]byte{M}
				}
				var attack, reads []memsim.Op
				for _, b := range victimsB {
					attack = append(attack, delBlob("r2", b))
					reads = append(reads, getBlob("r2", b))
				}
				for _, m := range victimsM {
					attack = append(attack, delMan("r2", m))
					reads = append(reads, getMan("r2", m))
				}
				// and back in the first repository, where the bytes name nothing
				back := []memsim.Op{delBlob("r1", cfg), getBlob("r1", cfg), getTag("r1", "v1"), getTag("r2", "v1")}
				name := fmt.Sprintf("cross_%02d_%s_%s", n, walker, shape)
				out[name+"_immtags"] = input{Mech: "immtags", Setup: cat(first, second), Ops: cat(attack, reads, back)}
				switch n % 4 {
				case 0: // the looked-into copy first: then the opaque one must not inherit its references
					out[name+"_immtags_swapped"] = input{Mech: "immtags",
						Setup: cat(second, []memsim.Op{pushBlob("r2", extra), delBlob("r2", extra)}, first),
						Ops:   cat(back, attack, reads)}
				case 1: // the walk of the first repository only after the second one is tagged
					out[name+"_immtags_walk_late"] = input{Mech: "immtags", Setup: cat(first[:5], second), Ops: cat(first[5:], attack, reads, back)}
				case 2:
					out[name+"_immutable"] = input{Mech: "immutable", Wrap: wrapKinds[n%len(wrapKinds)], UnderImm: true, Setup: cat(first, second), Ops: cat(attack, reads, back)}
				case 3: // the whole history after the first snapshot
					out[name+"_immtags_whole"] = input{Mech: "immtags", Setup: first[:2], Ops: cat(first[2:], second, attack, reads, back)}
				}
			}
		}
	}
	// what a walk found out about a digest earlier in the SAME repository: unreferenced then, named
	// by a tag now; absent then (so not looked into), stored now
	{
		x := []byte("deleted once, back under a tag")
		cfg := []byte(`{"os":"again"}`)
		other := []byte("the first image's layer")
		img0 := imageOf(descOf(ocispec.MediaTypeImageConfig, cfg), nil, blobDesc(other))
		img1 := imageOf(descOf(ocispec.MediaTypeImageConfig, cfg), nil, blobDesc(x))
		d1 := descOf(mtImage, img1)
		ref := imageOf(descOf(ocispec.MediaTypeImageConfig, cfg), &d1, blobDesc(other)) // subject img1, not stored yet
		setup := []memsim.Op{pushBlob("r1", x), pushBlob("r1", cfg), pushBlob("r1", other), pushMan("r1", "v0", img0, mtImage),
			pushMan("r1", "sig", ref, mtImage), getTag("r1", "v0"), getTag("r1", "sig"),
			delBlob("r1", x),                                    // unreferenced: goes
			delMan("r1", img1),                                  // not stored: the walk meets the subject's digest and finds nothing behind it
			pushBlob("r1", x), pushMan("r1", "", img1, mtImage)} // now the subject is there, and names x
		ops := []memsim.Op{delBlob("r1", x), getBlob("r1", x), delMan("r1", img1), getMan("r1", img1), getTag("r1", "sig")}
		out["again_named_after_walk_immtags"] = input{Mech: "immtags", Setup: setup, Ops: ops}
		out["again_named_after_walk_immtags_v1"] = input{Mech: "immtags", Setup: cat(setup, []memsim.Op{pushMan("r1", "v1", img1, mtImage), getTag("r1", "v1")}), Ops: ops}
		out["again_named_after_walk_immutable"] = input{Mech: "immutable", Wrap: "funcs", UnderImm: true, Setup: setup, Ops: ops}
	}
	// the minimal histories for the corpus
	{
		layer := []byte("corpus cross layer")
		cfg := []byte(`{"corpus":"cross"}`)
		M := imageOf(descOf(ocispec.MediaTypeImageConfig, cfg), nil, blobDesc(layer))
		out["corpus_same_bytes_other_repo_other_media_type"] = input{Mech: "immtags",
			Setup: []memsim.Op{pushBlob("r1", layer), pushMan("r1", "v1", M, mtDocker), delBlob("r1", layer),
				pushBlob("r2", layer), pushBlob("r2", cfg), pushMan("r2", "v1", M, mtImage), getTag("r2", "v1")},
			Ops: []memsim.Op{delBlob("r2", layer), getBlob("r2", layer), getTag("r2", "v1")}}
	}
	return out
}

func mustJSON(v any) string {
	b, err := json.Marshal(v)
	if err != nil {
		panic(err)
	}
	return string(b)
}
