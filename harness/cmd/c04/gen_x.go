// Generators of extended scripts (emitted as KX): transient faults between the outermost
// client and its server followed by a repetition of the failed call, and repeated Commits on
// one upload session (same writer, or a writer that resumed the session through an id
// remembered before the first Commit) with right and wrong digests in either order.
package main

import (
	"math/rand"
	"strings"
)

var faultStatuses = []int{502, 503, 429, 500}

// withFault builds a good plan (1-3 segments, write sizes around the chunk size in force so
// that Writes overflow the buffer), keeps track of which operations send a request, picks
// one of them, installs a fault plan that lets 0-2 requests through and answers the chosen
// one with a 5xx / 429, and repeats the failed call right after it.
func withFault(r *rand.Rand, stack string) script {
	sc := script{Stack: stack, Repo: "foo/bar", Shape: "fault", Kind: "x"}
	var content []byte
	var reqOps []int // indices of operations that send a request
	pending := 0
	hint := hintPool[r.Intn(len(hintPool))]
	c := chunkFor(stack, hint)
	add := func(d opDesc, sends bool) {
		if sends {
			reqOps = append(reqOps, len(sc.Ops))
		}
		sc.Ops = append(sc.Ops, d)
	}
	add(opDesc{Op: "start", Hint: hint}, true)
	nseg := 1 + r.Intn(3)
	k := 0
	for si := 0; si < nseg; si++ {
		if si > 0 {
			add(opDesc{Op: "close"}, pending > 0)
			pending = 0
			hint = hintPool[r.Intn(len(hintPool))]
			c = chunkFor(stack, hint)
			mode := []string{"size", "info", "at"}[r.Intn(3)]
			if mode == "info" && len(content) == 1 {
				mode = "at"
			}
			add(opDesc{Op: "resume", Mode: mode, Hint: hint, Off: func() int64 {
				if mode == "at" {
					return int64(len(content))
				}
				return 0
			}()}, mode == "info")
		}
		nw := 1 + r.Intn(3)
		for j := 0; j < nw; j++ {
			var n int
			switch r.Intn(6) {
			case 0:
				n = c + 1
			case 1:
				n = c/2 + 1
			case 2:
				n = 1 + r.Intn(40)
			default:
				n = sizeNear(r, c)
			}
			if strings.HasPrefix(stack, "hop2") && n > c+1 {
				n = c + 1
			}
			p := piece(k, n)
			k++
			sends := pending+n > c
			add(opDesc{Op: "write", Data: p}, sends)
			if sends {
				pending = 0
			} else {
				pending += n
			}
			content = append(content, expand(p)...)
		}
	}
	sc.Table = append(sc.Table, rle(content))
	if r.Intn(6) == 0 {
		other := append(append([]byte{}, content...), 'x')
		sc.Table = append(sc.Table, rle(other))
		add(opDesc{Op: "commit", Digest: sha(other)}, true)
	} else {
		add(opDesc{Op: "commit", Digest: sha(content)}, true)
	}
	// choose the request that fails: prefer the data-carrying ones
	ki := r.Intn(len(reqOps))
	if r.Intn(3) != 0 {
		var data []int
		for i, oi := range reqOps {
			if op := sc.Ops[oi].Op; op == "write" || op == "commit" {
				data = append(data, i)
			}
		}
		ki = data[r.Intn(len(data))]
	}
	skip := r.Intn(3)
	if skip > ki {
		skip = ki
	}
	plan := make([]int, skip+1)
	plan[skip] = faultStatuses[r.Intn(len(faultStatuses))]
	armAt, failAt := reqOps[ki-skip], reqOps[ki]
	var ops []opDesc
	for i, d := range sc.Ops {
		if i == armAt {
			ops = append(ops, opDesc{Op: "fault", Plan: plan})
		}
		ops = append(ops, d)
		if i == failAt && d.Op != "close" {
			ops = append(ops, d) // the caller repeats the failed call
		}
	}
	sc.Ops = ops
	return sc
}

// recommit: an upload that is committed more than once.
func recommit(r *rand.Rand, stack string) script {
	sc := script{Stack: stack, Repo: "foo/bar", Shape: "recommit", Kind: "x"}
	var content []byte
	k := 0
	write := func() {
		n := r.Intn(5)
		if r.Intn(12) == 0 {
			n = sizeNear(r, 8192)
		}
		p := piece(k, n)
		k++
		sc.Ops = append(sc.Ops, opDesc{Op: "write", Data: p})
		content = append(content, expand(p)...)
	}
	digest := func() string {
		var c []byte
		switch r.Intn(7) {
		case 0, 1, 2:
			c = content
		case 3:
			c = append(append([]byte{}, content...), 'x')
		case 4:
			if len(content) > 0 {
				c = content[:len(content)-1]
			} else {
				c = []byte("y")
			}
		case 5:
			c = nil
		default:
			c = []byte("AB")
		}
		sc.Table = append(sc.Table, rle(c))
		return sha(c)
	}
	commit := func() { sc.Ops = append(sc.Ops, opDesc{Op: "commit", Digest: digest()}) }
	resumeMode := func() opDesc {
		m := []string{"info", "at", "size"}[r.Intn(3)]
		if m == "info" && len(content) == 1 {
			m = "at"
		}
		d := opDesc{Mode: m, Hint: hintPool[r.Intn(len(hintPool))]}
		if m == "at" {
			d.Off = int64(len(content))
		}
		return d
	}
	sc.Ops = append(sc.Ops, opDesc{Op: "start", Hint: hintPool[r.Intn(len(hintPool))]})
	variant := r.Intn(4)
	if variant == 3 {
		sc.Ops = append(sc.Ops, opDesc{Op: "mark"}) // ID() is valid before the first Write
	}
	for i, nw := 0, r.Intn(4); i < nw; i++ {
		write()
	}
	switch variant {
	case 1: // close, remember the id, carry on with a resumed writer
		sc.Ops = append(sc.Ops, opDesc{Op: "close"}, opDesc{Op: "mark"})
		d := resumeMode()
		d.Op = "resume"
		sc.Ops = append(sc.Ops, d)
	case 2: // close, remember the id, commit on the closed writer
		sc.Ops = append(sc.Ops, opDesc{Op: "close"}, opDesc{Op: "mark"})
	}
	sc.Table = append(sc.Table, rle(content))
	commit()
	for i, n := 0, 1+r.Intn(3); i < n; i++ {
		if variant != 0 && r.Intn(2) == 0 {
			d := resumeMode()
			d.Op = "resume-mark"
			sc.Ops = append(sc.Ops, d)
		}
		if r.Intn(5) == 0 {
			write()
			sc.Table = append(sc.Table, rle(content))
		}
		commit()
	}
	return sc
}

// unseen: an upload id that is well formed on the stack in use but names an upload the
// registry has never seen.  The script starts an upload, closes it, remembers its id, the
// registries lose everything (forget), and the id is resumed - by asking the registry, at
// offset 0, or at an explicit offset > 0.  The registry holds zero bytes of that upload: in
// the last case the data must be refused as range invalid (by Close / Commit at the
// latest), after which the upload is resumed at 0 and completed.
func unseen(r *rand.Rand, stack string) script {
	sc := script{Stack: stack, Repo: "foo/bar", Shape: "unseen-id", Kind: "x"}
	hint := hintPool[r.Intn(len(hintPool))]
	sc.Ops = append(sc.Ops, opDesc{Op: "start", Hint: hint})
	before := 0
	for i, nw := 0, r.Intn(3); i < nw; i++ {
		n := 1 + r.Intn(6)
		sc.Ops = append(sc.Ops, opDesc{Op: "write", Data: []run{{n, 48 + i}}})
		before += n
	}
	sc.Ops = append(sc.Ops, opDesc{Op: "close"}, opDesc{Op: "mark"}, opDesc{Op: "forget"})
	hint = hintPool[r.Intn(len(hintPool))]
	c := chunkFor(stack, hint)
	size := func() int {
		n := 1 + r.Intn(6)
		if r.Intn(4) == 0 {
			n = sizeNear(r, c)
			if n > c+1 {
				n = c + 1
			}
		}
		return n
	}
	var off int64
	mode := "at"
	switch r.Intn(9) {
	case 0:
		mode = "info"
	case 1:
		off = 0
	case 2:
		off = 1
	case 3, 4:
		off = int64(before)
	case 5:
		off = int64(before) + 1
	case 6:
		off = int64(c)
	case 7:
		off = 5
	default:
		off = int64(1 + r.Intn(20))
	}
	sc.Ops = append(sc.Ops, opDesc{Op: "resume-mark", Mode: mode, Off: off, Hint: hint})
	if mode == "at" && off != 0 {
		// the episode: data at an offset the registry is not at
		var sent []byte
		for j, nw := 0, 1+r.Intn(3); j < nw; j++ {
			p := []run{{size(), 97 + j}}
			sc.Ops = append(sc.Ops, opDesc{Op: "write", Data: p})
			sent = append(sent, expand(p)...)
		}
		sc.Table = append(sc.Table, rle(sent))
		if r.Intn(3) == 0 {
			sc.Ops = append(sc.Ops, opDesc{Op: "commit", Digest: sha(sent)})
		} else {
			sc.Ops = append(sc.Ops, opDesc{Op: "close"})
		}
		if r.Intn(5) == 0 {
			return sc
		}
		back := opDesc{Op: "resume", Mode: "at", Off: 0, Hint: hintPool[r.Intn(len(hintPool))]}
		if r.Intn(3) == 0 {
			back.Mode = "info"
		}
		sc.Ops = append(sc.Ops, back)
	}
	var content []byte
	for j, nw := 0, 1+r.Intn(2); j < nw; j++ {
		p := piece(j, size())
		sc.Ops = append(sc.Ops, opDesc{Op: "write", Data: p})
		content = append(content, expand(p)...)
	}
	sc.Table = append(sc.Table, rle(content))
	if r.Intn(6) == 0 {
		other := append(append([]byte{}, content...), 'x')
		sc.Table = append(sc.Table, rle(other))
		sc.Ops = append(sc.Ops, opDesc{Op: "commit", Digest: sha(other)})
	} else {
		sc.Ops = append(sc.Ops, opDesc{Op: "commit", Digest: sha(content)})
	}
	return sc
}
