// Harness for C04: upload scripts (start / write / close / resume / commit) run against the
// real stacks - ocimem directly, ociclient -> ociserver -> ocimem over loopback HTTP (one and
// two hops), ociunify over two registries - observing every result, Size() and ChunkSize()
// of the writer in hand, and finally what the underlying ocimem registries hold.
package main

import (
	"context"
	"crypto/sha256"
	"encoding/hex"
	"encoding/json"
	"errors"
	"fmt"
	"io"
	"math/rand"
	"net/http"
	"net/http/httptest"
	"os"
	"sort"
	"strings"
	"sync/atomic"

	"cuelabs.dev/go/oci/ociregistry"
	"cuelabs.dev/go/oci/ociregistry/ociclient"
	"cuelabs.dev/go/oci/ociregistry/ocimem"
	"cuelabs.dev/go/oci/ociregistry/ociserver"
	"cuelabs.dev/go/oci/ociregistry/ociunify"
	"verif/harness/hx"
)

// ---- script representation (also the replay / corpus format) ----

type run [2]int // n copies of byte b

type opDesc struct {
	Op     string `json:"op"` // start resume write close commit; extended scripts: mark resume-mark fault forget
	Plan   []int  `json:"plan,omitempty"` // fault: fate of the next requests (0 = goes through, else answered with this status)
	Hint   int    `json:"hint,omitempty"`
	Mode   string `json:"mode,omitempty"` // size info at
	Off    int64  `json:"off,omitempty"`
	Data   []run  `json:"data,omitempty"`
	Digest string `json:"digest,omitempty"`
}

type script struct {
	Stack string   `json:"stack"` // mem hop1 hop2 unify-mem unify-hop1
	Repo  string   `json:"repo"`
	Ops   []opDesc `json:"ops"`
	Table [][]run  `json:"table,omitempty"` // contents whose digests matter
	Shape string   `json:"shape,omitempty"`
	Kind  string   `json:"kind,omitempty"` // "x": extended script (emitted as KX)
}

type obsDesc struct {
	Res    string `json:"res"` // ok err broken
	N      int64  `json:"n,omitempty"`
	Code   string `json:"code,omitempty"`
	Status int    `json:"status,omitempty"`
	Size   int64  `json:"size"`
	Chunk  int    `json:"chunk"`
	Msg    string `json:"msg,omitempty"`
}

func expand(rs []run) []byte {
	var b []byte
	for _, r := range rs {
		for i := 0; i < r[0]; i++ {
			b = append(b, byte(r[1]))
		}
	}
	return b
}

func rle(b []byte) []run {
	var rs []run
	for i := 0; i < len(b); {
		j := i
		for j < len(b) && b[j] == b[i] {
			j++
		}
		rs = append(rs, run{j - i, int(b[i])})
		i = j
	}
	return rs
}

func coqRL(b []byte) string {
	if len(b) == 0 {
		return "[]"
	}
	rs := rle(b)
	if len(rs)*3 > len(b) && len(b) < 64 {
		return hx.BB(b)
	}
	parts := make([]string, len(rs))
	for i, r := range rs {
		parts[i] = fmt.Sprintf("(%d%%N, %d%%N)", r[0], r[1])
	}
	return "(rl [" + strings.Join(parts, "; ") + "])"
}

func sha(b []byte) string {
	h := sha256.Sum256(b)
	return "sha256:" + hex.EncodeToString(h[:])
}

// ---- stacks ----

// swapServer is a loopback HTTP server whose handler can be replaced between cases, so that
// every case gets a fresh registry without paying for a new listener.
type swapServer struct {
	srv *httptest.Server
	h   atomic.Value
}

type handlerBox struct{ h http.Handler }

func newSwapServer() *swapServer {
	s := &swapServer{}
	s.h.Store(handlerBox{http.NotFoundHandler()})
	s.srv = httptest.NewServer(http.HandlerFunc(func(w http.ResponseWriter, r *http.Request) {
		s.h.Load().(handlerBox).h.ServeHTTP(w, r)
	}))
	return s
}

func (s *swapServer) client(backend ociregistry.Interface) ociregistry.Interface {
	return s.clientT(backend, nil)
}

// faultRT stands between a client and its server: the next requests fare as the plan says -
// 0 lets the request through, any other value answers it with that HTTP status without the
// server seeing it (a gateway that is briefly unavailable).
type faultRT struct {
	plan []int
}

func (f *faultRT) RoundTrip(req *http.Request) (*http.Response, error) {
	if len(f.plan) > 0 {
		st := f.plan[0]
		f.plan = f.plan[1:]
		if st != 0 {
			if req.Body != nil {
				io.Copy(io.Discard, req.Body)
				req.Body.Close()
			}
			body := `{"errors":[{"code":"UNAVAILABLE","message":"try again"}]}`
			return &http.Response{
				Status: fmt.Sprintf("%d %s", st, http.StatusText(st)), StatusCode: st,
				Proto: "HTTP/1.1", ProtoMajor: 1, ProtoMinor: 1,
				Header:        http.Header{"Content-Type": {"application/json"}},
				Body:          io.NopCloser(strings.NewReader(body)),
				ContentLength: int64(len(body)), Request: req,
			}, nil
		}
	}
	return http.DefaultTransport.RoundTrip(req)
}

func (s *swapServer) clientT(backend ociregistry.Interface, rt http.RoundTripper) ociregistry.Interface {
	s.h.Store(handlerBox{ociserver.New(backend, nil)})
	c, err := ociclient.New(strings.TrimPrefix(s.srv.URL, "http://"), &ociclient.Options{Insecure: true, Transport: rt})
	if err != nil {
		panic(err)
	}
	return c
}

var servers []*swapServer

func server(i int) *swapServer {
	for len(servers) <= i {
		servers = append(servers, newSwapServer())
	}
	return servers[i]
}

// build returns the registry the script talks to and the ocimem registries underneath.
func build(stack string) (ociregistry.Interface, []*ocimem.Registry) {
	reg, mems, _ := buildX(stack)
	return reg, mems
}

// buildX also returns the fault point in front of the outermost server (HTTP stacks hop1 and
// hop2; nil elsewhere: a fault operation is then a no-op, as in the model).
func buildX(stack string) (ociregistry.Interface, []*ocimem.Registry, *faultRT) {
	// a "-rot" stack has a registry with rotating upload ids (rot.go) around each ocimem
	base := strings.TrimSuffix(stack, "-rot")
	back := func(m *ocimem.Registry) ociregistry.Interface { return m }
	if base != stack {
		back = func(m *ocimem.Registry) ociregistry.Interface { return newRotating(m) }
	}
	switch base {
	case "mem":
		m := ocimem.New()
		return back(m), []*ocimem.Registry{m}, nil
	case "hop1":
		m := ocimem.New()
		f := &faultRT{}
		return server(0).clientT(back(m), f), []*ocimem.Registry{m}, f
	case "hop2":
		m := ocimem.New()
		f := &faultRT{}
		return server(1).clientT(server(0).client(back(m)), f), []*ocimem.Registry{m}, f
	case "unify-mem":
		m0, m1 := ocimem.New(), ocimem.New()
		return ociunify.New(back(m0), back(m1), nil), []*ocimem.Registry{m0, m1}, nil
	case "unify-hop1":
		m0, m1 := ocimem.New(), ocimem.New()
		return ociunify.New(server(0).client(back(m0)), server(2).client(back(m1)), nil), []*ocimem.Registry{m0, m1}, nil
	}
	panic("unknown stack " + stack)
}

// a "-rot" stack is compared with the model of the plain one: see rot.go
var stackCoq = map[string]string{"mem": "SMem", "hop1": "SHop1", "hop2": "SHop2", "unify-mem": "SUnifyMem", "unify-hop1": "SUnifyHop1",
	"mem-rot": "SMem", "hop1-rot": "SHop1", "hop2-rot": "SHop2", "unify-mem-rot": "SUnifyMem", "unify-hop1-rot": "SUnifyHop1"}

// (only behind HTTP: a direct caller of a refused writer would hold the id that rot.go drops)
var rotStacks = []string{"hop1-rot", "hop2-rot", "unify-hop1-rot"}

// ---- execution ----

var codeNames = map[string]bool{
	"BLOB_UNKNOWN": true, "BLOB_UPLOAD_INVALID": true, "BLOB_UPLOAD_UNKNOWN": true, "DIGEST_INVALID": true,
	"MANIFEST_BLOB_UNKNOWN": true, "MANIFEST_INVALID": true, "MANIFEST_UNKNOWN": true, "NAME_INVALID": true,
	"NAME_UNKNOWN": true, "SIZE_INVALID": true, "UNAUTHORIZED": true, "DENIED": true, "UNSUPPORTED": true,
	"TOOMANYREQUESTS": true, "RANGE_INVALID": true,
}

const tooLarge = "error-body-too-large"

func coqCode(c string) string {
	if c == "" {
		return "ENone"
	}
	if codeNames[c] {
		return c
	}
	return "(ECustom " + hx.B(c) + ")"
}

func errObs(err error) obsDesc {
	o := obsDesc{Res: "err", Msg: err.Error()}
	var oe ociregistry.Error
	if errors.As(err, &oe) {
		o.Code = oe.Code()
	}
	var he ociregistry.HTTPError
	if errors.As(err, &he) {
		o.Status = he.StatusCode()
	}
	if strings.Contains(o.Msg, "error body too large") {
		// ociclient reads at most 8 KiB of an error body; the code of a longer one is lost
		// (ocimem quotes the whole upload in its digest-mismatch message).  The size of error
		// prose is not modelled: such an error is reported under this marker and compared on
		// its status only (Obs/C04.v, ures_agree).
		o.Code = tooLarge
	}
	if len(o.Msg) > 300 {
		o.Msg = o.Msg[:300] + "..."
	}
	return o
}

func (o obsDesc) coq() string {
	var r string
	switch o.Res {
	case "ok":
		r = "UOk " + hx.Z(o.N)
	case "err":
		r = fmt.Sprintf("UErr %s %s", coqCode(o.Code), hx.Z(int64(o.Status)))
	default:
		r = "UBroken"
	}
	return fmt.Sprintf("{| uo_res := %s; uo_size := %s; uo_chunk := %s |}", r, hx.Z(o.Size), hx.Z(int64(o.Chunk)))
}

func (d opDesc) coq() string {
	switch d.Op {
	case "start":
		return "UStart " + hx.Z(int64(d.Hint))
	case "resume":
		m := "MSize"
		switch d.Mode {
		case "info":
			m = "MInfo"
		case "at":
			m = "(MAt " + hx.Z(d.Off) + ")"
		}
		return fmt.Sprintf("UResume %s %s", m, hx.Z(int64(d.Hint)))
	case "write":
		return "UWrite " + coqRL(expand(d.Data))
	case "close":
		return "UClose"
	case "commit":
		return "UCommit " + hx.B(d.Digest)
	}
	panic("unknown op " + d.Op)
}

// coqX renders an operation of an extended script (type xop)
func (d opDesc) coqX() string {
	mode := func() string {
		switch d.Mode {
		case "info":
			return "MInfo"
		case "at":
			return "(MAt " + hx.Z(d.Off) + ")"
		}
		return "MSize"
	}
	switch d.Op {
	case "mark":
		return "XMark"
	case "resume-mark":
		return fmt.Sprintf("XResumeMark %s %s", mode(), hx.Z(int64(d.Hint)))
	case "forget":
		return "XForget"
	case "fault":
		ps := make([]string, len(d.Plan))
		for i, p := range d.Plan {
			ps[i] = hx.Z(int64(p))
		}
		return "XFault " + hx.List(ps)
	}
	return "XU (" + d.coq() + ")"
}

// lentBuf is a buffer handed to Write for the duration of the call only.
type lentBuf struct {
	buf  []byte // what Write was given (len = the data, cap = len + spare)
	want []byte // what the whole array holds once the caller has taken it back
}

const lentSpare = 24

// lend copies data into a fresh array with spare capacity behind it.
func lend(data []byte) *lentBuf {
	arr := make([]byte, len(data)+lentSpare)
	copy(arr, data)
	for i := len(data); i < len(arr); i++ {
		arr[i] = 0xA5
	}
	return &lentBuf{buf: arr[:len(data):len(arr)]}
}

// takeBack overwrites the array (every byte changes) and remembers what it now holds.
func (l *lentBuf) takeBack() {
	arr := l.buf[:cap(l.buf)]
	for i := range arr {
		arr[i] = ^arr[i] ^ byte(i%7)
	}
	l.want = append([]byte(nil), arr...)
}

func (l *lentBuf) untouched() bool {
	return l.want == nil || string(l.buf[:cap(l.buf)]) == string(l.want)
}

type trace struct {
	Obs    []obsDesc           `json:"obs"`
	Stored map[string][]string `json:"stored"` // digest -> per registry: "-" or hex summary
}

func runScript(out *hx.Out, sc script, origin string) {
	ctx := context.Background()
	reg, mems, fault := buildX(sc.Stack)
	var cur ociregistry.BlobWriter
	var mark string
	marked := false
	var obs []obsDesc
	var lents []*lentBuf
	for _, d := range sc.Ops {
		var o obsDesc
		panicked, pv := hx.Recover(func() {
			switch d.Op {
			case "start":
				w, err := reg.PushBlobChunked(ctx, sc.Repo, d.Hint)
				if err != nil {
					o = errObs(err)
					return
				}
				cur = w
				o = obsDesc{Res: "ok"}
			case "resume":
				if cur == nil {
					o = obsDesc{Res: "broken", Msg: "no writer"}
					return
				}
				off := d.Off
				switch d.Mode {
				case "size":
					off = cur.Size()
				case "info":
					off = -1
				}
				w, err := reg.PushBlobChunkedResume(ctx, sc.Repo, cur.ID(), off, d.Hint)
				if err != nil {
					o = errObs(err)
					return
				}
				cur = w
				o = obsDesc{Res: "ok"}
			case "mark":
				if cur == nil {
					o = obsDesc{Res: "broken", Msg: "no writer"}
					return
				}
				mark, marked = cur.ID(), true
				o = obsDesc{Res: "ok"}
			case "resume-mark":
				if !marked || (cur == nil && d.Mode == "size") {
					o = obsDesc{Res: "broken", Msg: "no writer or no remembered id"}
					return
				}
				off := d.Off
				switch d.Mode {
				case "size":
					off = cur.Size()
				case "info":
					off = -1
				}
				w, err := reg.PushBlobChunkedResume(ctx, sc.Repo, mark, off, d.Hint)
				if err != nil {
					o = errObs(err)
					return
				}
				cur = w
				o = obsDesc{Res: "ok"}
			case "forget":
				// the registries lose everything: the whole stack is rebuilt around new
				// empty ocimem registries (behind the same URLs); the ids the script
				// remembers stay well formed but name uploads no registry has seen
				reg, mems, fault = buildX(sc.Stack)
				cur = nil
				o = obsDesc{Res: "ok"}
			case "fault":
				if fault != nil {
					fault.plan = append([]int(nil), d.Plan...)
				}
				o = obsDesc{Res: "ok"}
			case "write":
				if cur == nil {
					o = obsDesc{Res: "broken", Msg: "no writer"}
					return
				}
				// The caller owns its buffer again as soon as Write has returned (io.Writer:
				// "Implementations must not retain p"): the bytes are handed over in a
				// private buffer (with spare capacity behind them) which is overwritten
				// right after the call, the way a copy loop refills its buffer.
				lent := lend(expand(d.Data))
				n, err := cur.Write(lent.buf)
				lent.takeBack()
				lents = append(lents, lent)
				if err != nil {
					o = errObs(err)
					if n != 0 {
						o = obsDesc{Res: "broken", Msg: fmt.Sprintf("Write returned %d and %v", n, err)}
					}
					return
				}
				o = obsDesc{Res: "ok", N: int64(n)}
			case "close":
				if cur == nil {
					o = obsDesc{Res: "broken", Msg: "no writer"}
					return
				}
				if err := cur.Close(); err != nil {
					o = errObs(err)
					return
				}
				o = obsDesc{Res: "ok"}
			case "commit":
				if cur == nil {
					o = obsDesc{Res: "broken", Msg: "no writer"}
					return
				}
				desc, err := cur.Commit(ociregistry.Digest(d.Digest))
				if err != nil {
					o = errObs(err)
					return
				}
				if string(desc.Digest) != d.Digest || desc.MediaType != "application/octet-stream" {
					o = obsDesc{Res: "broken", Msg: fmt.Sprintf("Commit descriptor %+v", desc)}
					return
				}
				o = obsDesc{Res: "ok", N: desc.Size}
			default:
				panic("unknown op " + d.Op)
			}
		})
		if panicked {
			o = obsDesc{Res: "broken", Msg: "panic: " + pv}
		}
		// nobody but the caller writes into a buffer the caller has taken back
		for i, l := range lents {
			if o.Res != "broken" && !l.untouched() {
				o = obsDesc{Res: "broken", Msg: fmt.Sprintf("the buffer of Write #%d (%d bytes) was modified after Write had returned (during %s)", i, len(l.buf), d.Op)}
			}
		}
		if cur != nil {
			p2, _ := hx.Recover(func() {
				o.Size = cur.Size()
				o.Chunk = cur.ChunkSize()
			})
			if p2 {
				o = obsDesc{Res: "broken", Msg: "panic in Size/ChunkSize"}
			}
		}
		obs = append(obs, o)
		out.Count("op:" + d.Op)
		if d.Op == "resume" {
			out.Count("resume:" + d.Mode)
		}
		if o.Res == "err" {
			out.Count(fmt.Sprintf("err:%s/%d", o.Code, o.Status))
		}
	}
	// digests of interest: the table's and every commit's
	table := map[string]string{} // content -> digest
	interest := map[string]bool{}
	for _, rs := range sc.Table {
		c := expand(rs)
		table[string(c)] = sha(c)
		interest[sha(c)] = true
	}
	for _, d := range sc.Ops {
		if d.Op == "commit" {
			interest[d.Digest] = true
		}
	}
	var digs []string
	for d := range interest {
		digs = append(digs, d)
	}
	sort.Strings(digs)
	tr := trace{Obs: obs, Stored: map[string][]string{}}
	var storedCoq []string
	for _, d := range digs {
		var per []string
		for _, m := range mems {
			var content []byte
			found := false
			r, err := m.GetBlob(ctx, sc.Repo, ociregistry.Digest(d))
			if err == nil {
				content, _ = io.ReadAll(r)
				r.Close()
				found = true
				table[string(content)] = sha(content)
			}
			if found {
				per = append(per, "(Some "+coqRL(content)+")")
				tr.Stored[d] = append(tr.Stored[d], fmt.Sprintf("%d bytes sha %s", len(content), sha(content)[7:19]))
			} else {
				per = append(per, "None")
				tr.Stored[d] = append(tr.Stored[d], "-")
			}
		}
		storedCoq = append(storedCoq, fmt.Sprintf("(%s, %s)", hx.B(d), hx.List(per)))
	}
	var keys []string
	for c := range table {
		keys = append(keys, c)
	}
	sort.Strings(keys)
	var hashCoq []string
	for _, c := range keys {
		hashCoq = append(hashCoq, fmt.Sprintf("(%s, %s)", coqRL([]byte(c)), hx.B(table[c])))
	}
	opsCoq := make([]string, len(sc.Ops))
	obsCoq := make([]string, len(obs))
	for i := range sc.Ops {
		if sc.Kind == "x" {
			opsCoq[i] = sc.Ops[i].coqX()
		} else {
			opsCoq[i] = sc.Ops[i].coq()
		}
		obsCoq[i] = obs[i].coq()
	}
	coq := fmt.Sprintf("KScript {| c_stack := %s; c_repo := %s; c_hash := %s; c_ops := %s; c_obs := %s; c_stored := %s |}",
		stackCoq[sc.Stack], hx.B(sc.Repo), hx.List(hashCoq), hx.List(opsCoq), hx.List(obsCoq), hx.List(storedCoq))
	if sc.Kind == "x" {
		coq = fmt.Sprintf("KX {| xc_stack := %s; xc_repo := %s; xc_hash := %s; xc_ops := %s; xc_obs := %s; xc_stored := %s |}",
			stackCoq[sc.Stack], hx.B(sc.Repo), hx.List(hashCoq), hx.List(opsCoq), hx.List(obsCoq), hx.List(storedCoq))
	}
	shape := sc.Shape
	if shape == "" {
		shape = origin
	}
	if out.Add(hx.Case{Coq: coq, Desc: map[string]any{"stack": sc.Stack, "repo": sc.Repo, "ops": sc.Ops, "table": sc.Table,
		"shape": sc.Shape, "kind": sc.Kind, "observed": tr, "origin": origin},
		Tags: map[string]any{"class": sc.Stack + ":" + shape, "stack": sc.Stack, "shape": shape}}) {
		out.Count("stack:" + sc.Stack)
		out.Count("shape:" + shape)
		out.Count("origin:" + origin)
		total := 0
		for _, d := range sc.Ops {
			if d.Op == "write" {
				for _, r := range d.Data {
					total += r[0]
				}
			}
		}
		switch {
		case total <= 5:
			out.Count(fmt.Sprintf("written:%d", total))
		case total < 8192:
			out.Count("written:6..8191")
		case total < 65536:
			out.Count("written:8192..65535")
		default:
			out.Count("written:>=65536")
		}
	}
}

// ---- generation ----

var stacks = []string{"mem", "hop1", "hop2", "unify-mem", "unify-hop1"}

// piece i of an upload: a run of a byte that depends on i, so that a misplaced, repeated or
// dropped piece changes the content
func piece(i, n int) []run {
	if n == 0 {
		return nil
	}
	return []run{{n, 65 + i%26}}
}

type planSeg struct {
	mode   string // how this segment's writer was obtained: start size info at
	hint   int
	writes []int
}

// goodPlan renders segments as a script that commits with digest kind "match" / "other".
func goodPlan(stack string, segs []planSeg, commit string, shape string) script {
	sc := script{Stack: stack, Repo: "foo/bar", Shape: shape}
	var content []byte
	k := 0
	for si, sg := range segs {
		if si == 0 {
			sc.Ops = append(sc.Ops, opDesc{Op: "start", Hint: sg.hint})
		} else {
			sc.Ops = append(sc.Ops, opDesc{Op: "close"})
			d := opDesc{Op: "resume", Mode: sg.mode, Hint: sg.hint}
			if sg.mode == "at" {
				d.Off = int64(len(content))
			}
			sc.Ops = append(sc.Ops, d)
		}
		for _, n := range sg.writes {
			p := piece(k, n)
			k++
			sc.Ops = append(sc.Ops, opDesc{Op: "write", Data: p})
			content = append(content, expand(p)...)
		}
	}
	sc.Table = append(sc.Table, rle(content))
	switch commit {
	case "match":
		sc.Ops = append(sc.Ops, opDesc{Op: "commit", Digest: sha(content)})
	case "other":
		other := append(append([]byte{}, content...), 'x')
		sc.Table = append(sc.Table, rle(other))
		sc.Ops = append(sc.Ops, opDesc{Op: "commit", Digest: sha(other)})
	case "prefix":
		other := content
		if len(other) > 0 {
			other = other[:len(other)-1]
		}
		sc.Table = append(sc.Table, rle(other))
		sc.Ops = append(sc.Ops, opDesc{Op: "commit", Digest: sha(other)})
	}
	return sc
}

// compositions of n into positive parts
func compositions(n int) [][]int {
	if n == 0 {
		return [][]int{{}}
	}
	var out [][]int
	for first := 1; first <= n; first++ {
		for _, rest := range compositions(n - first) {
			out = append(out, append([]int{first}, rest...))
		}
	}
	return out
}

// enumerate: every content length up to maxLen, every partition into writes, every
// assignment of {no resume, size, info, at} to the write boundaries
func enumerate(out *hx.Out, maxLen int, hints []int, stackList []string) {
	for n := 0; n <= maxLen; n++ {
		for _, comp := range compositions(n) {
			nb := len(comp) - 1
			if nb < 0 {
				nb = 0
			}
			total := 1
			for i := 0; i < nb; i++ {
				total *= 4
			}
			for code := 0; code < total; code++ {
				var segs []planSeg
				cur := planSeg{mode: "start"}
				c := code
				for i, w := range comp {
					cur.writes = append(cur.writes, w)
					if i < nb {
						m := c % 4
						c /= 4
						if m != 0 {
							segs = append(segs, cur)
							cur = planSeg{mode: []string{"", "size", "info", "at"}[m]}
						}
					}
				}
				segs = append(segs, cur)
				for _, st := range stackList {
					for _, h := range hints {
						for i := range segs {
							segs[i].hint = h
						}
						runScript(out, goodPlan(st, segs, "match", "enum"), "enum")
					}
				}
			}
		}
	}
}

// expected chunk size of a client writer of the given stack for a hint
func chunkFor(stack string, hint int) int {
	if hint <= 0 {
		hint = 65536
	}
	min := 8192
	switch stack = strings.TrimSuffix(stack, "-rot"); stack {
	case "mem", "unify-mem":
		return 8192
	case "hop2":
		min = 65536
	}
	if hint < min {
		return min
	}
	return hint
}

var hintPool = []int{-1, 0, 1, 100, 8192, 8193, 70000}

func sizeNear(r *rand.Rand, c int) int {
	switch r.Intn(15) {
	case 9:
		return 2 * c
	case 10:
		return 3 * c
	case 11:
		return 2*c - 1
	case 0:
		return 0
	case 1:
		return 1
	case 2:
		return 2
	case 3:
		return c - 1
	case 4:
		return c
	case 5:
		return c + 1
	case 6:
		return c / 2
	case 7:
		return 2*c + 1
	case 8:
		return c/2 + 1
	default:
		return 1 + r.Intn(40)
	}
}

func randomPlan(r *rand.Rand, stack string, small bool) script {
	nseg := 1 + r.Intn(4)
	var segs []planSeg
	for i := 0; i < nseg; i++ {
		h := hintPool[r.Intn(len(hintPool))]
		sg := planSeg{hint: h, mode: []string{"size", "info", "at"}[r.Intn(3)]}
		c := chunkFor(stack, h)
		nw := r.Intn(4)
		for j := 0; j < nw; j++ {
			if small {
				sg.writes = append(sg.writes, r.Intn(4))
			} else {
				sg.writes = append(sg.writes, sizeNear(r, c))
			}
		}
		segs = append(segs, sg)
	}
	commit := "match"
	switch r.Intn(8) {
	case 0:
		commit = "other"
	case 1:
		commit = "prefix"
	case 2:
		if r.Intn(3) == 0 {
			commit = "none"
		}
	}
	shape := "plan"
	if commit != "match" {
		shape = "plan-wrong-digest"
		if commit == "none" {
			shape = "plan-no-commit"
		}
	}
	return goodPlan(stack, segs, commit, shape)
}

// copyLoop is an upload fed the way io.CopyBuffer (or any read loop) feeds a writer: the
// content goes through one buffer of a fixed size, so all Writes but the last have the size
// of that buffer - the chunk size in force, one less, one more, a half, a multiple, or an
// unrelated small size. Optionally a short Write comes first (so the full-size pieces meet a
// non-empty chunk buffer), and the writer is closed and resumed between two pieces.
func copyLoop(r *rand.Rand, stack string) script {
	hint := hintPool[r.Intn(len(hintPool))]
	c := chunkFor(stack, hint)
	var b int
	switch r.Intn(10) {
	case 0, 1, 2:
		b = c
	case 3:
		b = c - 1
	case 4:
		b = c + 1
	case 5:
		b = c / 2
	case 6:
		b = 2 * c
	case 7:
		b = c/3 + 1
	case 8:
		b = 1 + r.Intn(40)
	default:
		b = 8192 // what a caller that knows nothing about the writer might use
	}
	full := 1 + r.Intn(3)
	if b > c+1 {
		full = 1 + r.Intn(2)
	}
	var writes []int
	if r.Intn(4) == 0 {
		writes = append(writes, 1+r.Intn(3))
	}
	for i := 0; i < full; i++ {
		writes = append(writes, b)
	}
	switch r.Intn(4) {
	case 0: // the content is a whole number of buffers
	case 1:
		writes = append(writes, 1)
	case 2:
		writes = append(writes, b-1)
	default:
		writes = append(writes, 1+r.Intn(b))
	}
	segs := []planSeg{{mode: "start", hint: hint, writes: writes}}
	if len(writes) > 1 && r.Intn(3) == 0 {
		k := 1 + r.Intn(len(writes)-1)
		// the resumed writer keeps the hint, so the buffer keeps its relation to the chunk size
		segs = []planSeg{{mode: "start", hint: hint, writes: writes[:k]},
			{mode: []string{"size", "info", "at"}[r.Intn(3)], hint: hint, writes: writes[k:]}}
		if segs[1].mode == "info" {
			n := 0
			for _, w := range writes[:k] {
				n += w
			}
			if n == 1 {
				segs[1].mode = "at"
			}
		}
	}
	commit := "match"
	if r.Intn(10) == 0 {
		commit = "prefix"
	}
	return goodPlan(stack, segs, commit, "copy-loop")
}

// withEpisode inserts, at a segment boundary of a good plan, a resume at a wrong offset
// followed by writes and a Close (or a Commit), then a resume at the right place.
func withEpisode(r *rand.Rand, stack string) script {
	base := randomPlan(r, stack, r.Intn(2) == 0)
	base.Shape = "wrong-offset"
	// find the close/resume boundaries
	var idx []int
	var lens []int
	total := 0
	for i, d := range base.Ops {
		if d.Op == "write" {
			for _, rr := range d.Data {
				total += rr[0]
			}
		}
		if d.Op == "close" {
			idx = append(idx, i)
			lens = append(lens, total)
		}
	}
	var at, good int
	var ops []opDesc
	if len(idx) == 0 || r.Intn(4) == 0 {
		// before the final commit (or at the end)
		at = len(base.Ops)
		if at > 0 && base.Ops[at-1].Op == "commit" {
			at--
		}
		good = total
		ops = append(ops, base.Ops[:at]...)
		ops = append(ops, opDesc{Op: "close"})
	} else {
		k := r.Intn(len(idx))
		at = idx[k] + 1 // after the close
		good = lens[k]
		ops = append(ops, base.Ops[:at]...)
	}
	hint := hintPool[r.Intn(len(hintPool))]
	c := chunkFor(stack, hint)
	var off int64
	switch r.Intn(6) {
	case 0:
		off = int64(good) + 1
	case 1:
		off = int64(good) - 1
	case 2:
		off = 0
	case 3:
		off = int64(good) + int64(c)
	case 4:
		off = int64(good)*2 + 1
	default:
		off = int64(r.Intn(good + 3))
	}
	if off < 0 || off == int64(good) {
		off = int64(good) + 2
	}
	ops = append(ops, opDesc{Op: "resume", Mode: "at", Off: off, Hint: hint})
	nw := 1 + r.Intn(3)
	for j := 0; j < nw; j++ {
		n := 1 + r.Intn(5)
		if r.Intn(3) == 0 {
			n = sizeNear(r, c)
		}
		ops = append(ops, opDesc{Op: "write", Data: []run{{n, 97 + j}}})
	}
	if r.Intn(4) == 0 {
		// the misplaced data travels with a commit
		good2 := expandOps(base.Ops[:at])
		ops = append(ops, opDesc{Op: "commit", Digest: sha(good2)})
		base.Table = append(base.Table, rle(good2))
	} else {
		ops = append(ops, opDesc{Op: "close"})
	}
	// back to the right place
	if at < len(base.Ops) {
		var back opDesc
		if r.Intn(2) == 0 && good != 1 {
			back = opDesc{Op: "resume", Mode: "info", Hint: hintPool[r.Intn(len(hintPool))]}
		} else {
			back = opDesc{Op: "resume", Mode: "at", Off: int64(good), Hint: hintPool[r.Intn(len(hintPool))]}
		}
		ops = append(ops, back)
		rest := base.Ops[at:]
		if len(rest) > 0 && rest[0].Op == "resume" {
			rest = rest[1:] // the plan's own resume is replaced by ours
		}
		ops = append(ops, rest...)
	}
	base.Ops = ops
	return base
}

func expandOps(ops []opDesc) []byte {
	var b []byte
	for _, d := range ops {
		if d.Op == "write" {
			b = append(b, expand(d.Data)...)
		}
	}
	return b
}

// malformed: scripts outside the shapes the property speaks about (the model must still
// predict them): operations after Close, resume without Close, double Close, Commit twice
func malformed(r *rand.Rand, stack string) script {
	sc := script{Stack: stack, Repo: "foo/bar", Shape: "malformed"}
	sc.Ops = append(sc.Ops, opDesc{Op: "start", Hint: hintPool[r.Intn(len(hintPool))]})
	var content []byte
	n := 2 + r.Intn(7)
	for i := 0; i < n; i++ {
		switch r.Intn(6) {
		case 0, 1:
			sz := r.Intn(4)
			if r.Intn(5) == 0 {
				sz = sizeNear(r, chunkFor(stack, 0))
			}
			p := piece(i, sz)
			sc.Ops = append(sc.Ops, opDesc{Op: "write", Data: p})
			content = append(content, expand(p)...)
		case 2:
			sc.Ops = append(sc.Ops, opDesc{Op: "close"})
		case 3:
			m := []string{"size", "info", "at"}[r.Intn(3)]
			d := opDesc{Op: "resume", Mode: m, Hint: hintPool[r.Intn(len(hintPool))]}
			if m == "at" {
				d.Off = int64(r.Intn(len(content) + 2))
			}
			sc.Ops = append(sc.Ops, d)
		case 4:
			sc.Table = append(sc.Table, rle(content))
			sc.Ops = append(sc.Ops, opDesc{Op: "commit", Digest: sha(content)})
		case 5:
			sc.Ops = append(sc.Ops, opDesc{Op: "close"}, opDesc{Op: "resume", Mode: "size", Hint: 0})
		}
	}
	sc.Table = append(sc.Table, rle(content))
	return sc
}

func main() {
	cfg := hx.ParseFlags()
	out := hx.NewOut(cfg, "Obs.C04")
	out.ShardMax = 120
	defer func() {
		for _, s := range servers {
			s.srv.Close()
		}
	}()
	if cfg.Replay != "" {
		b, err := os.ReadFile(cfg.Replay)
		if err != nil {
			panic(err)
		}
		var cd struct {
			Codec *codecDesc `json:"codec"`
		}
		if json.Unmarshal(b, &cd) == nil && cd.Codec != nil {
			runCodec(out, *cd.Codec, "replay")
		} else {
			var sc script
			if err := json.Unmarshal(b, &sc); err != nil {
				panic(err)
			}
			runScript(out, sc, "replay")
		}
		if err := out.Flush(); err != nil {
			panic(err)
		}
		return
	}
	for _, raw := range hx.LoadCorpus(cfg.Corpus) {
		var cd struct {
			Codec *codecDesc `json:"codec"`
		}
		if json.Unmarshal(raw, &cd) == nil && cd.Codec != nil {
			runCodec(out, *cd.Codec, "corpus")
			continue
		}
		var sc script
		if json.Unmarshal(raw, &sc) == nil && len(sc.Ops) > 0 {
			if sc.Stack == "*" {
				for _, st := range stacks {
					sc.Stack = st
					runScript(out, sc, "corpus")
				}
			} else {
				runScript(out, sc, "corpus")
			}
		}
	}
	rnd := cfg.Rand()
	genCodec(out, rnd, cfg.Thorough())
	if cfg.Thorough() {
		enumerate(out, 5, []int{0, 1}, stacks)
		enumerate(out, 4, []int{0, 1}, rotStacks)
	} else {
		enumerate(out, 4, []int{0}, stacks)
		enumerate(out, 3, []int{1}, []string{"hop1", "hop2"})
		enumerate(out, 3, []int{0}, rotStacks)
	}
	// The random scripts are generated in a fixed order but run (and so written to the
	// evaluation shards) in a striped order: the scripts with long contents - which cost the
	// most to evaluate - would otherwise sit together in one or two shards.
	var pend []script
	nPlan, nEp, nMal := 420, 300, 120
	if cfg.Thorough() {
		nPlan, nEp, nMal = 6000, 4000, 1500
	}
	for i := 0; i < nPlan; i++ {
		st := stacks[i%len(stacks)]
		pend = append(pend, randomPlan(rnd, st, i%3 == 0))
	}
	for i := 0; i < nEp; i++ {
		st := stacks[i%len(stacks)]
		pend = append(pend, withEpisode(rnd, st))
	}
	for i := 0; i < nMal; i++ {
		st := stacks[i%len(stacks)]
		pend = append(pend, malformed(rnd, st))
	}
	nCopy := 150
	if cfg.Thorough() {
		nCopy = 2500
	}
	for i := 0; i < nCopy; i++ {
		// mostly the stacks with a client writer in them
		st := []string{"hop1", "hop2", "unify-hop1", "hop1", "hop2", "mem", "unify-mem"}[i%7]
		pend = append(pend, copyLoop(rnd, st))
	}
	nFault, nRe := 120, 160
	if cfg.Thorough() {
		nFault, nRe = 2500, 3000
	}
	// the same shapes over registries whose upload ids / locations rotate (rot.go)
	nRot, nUnseen := 120, 80
	if cfg.Thorough() {
		nRot, nUnseen = 3000, 1500
	}
	for i := 0; i < nRot; i++ {
		st := rotStacks[i%len(rotStacks)]
		var sc script
		switch i % 10 {
		case 0, 1, 2, 3:
			sc = randomPlan(rnd, st, i%4 == 0)
		case 4, 5, 6:
			sc = withEpisode(rnd, st)
		case 7, 8:
			sc = copyLoop(rnd, st)
		default:
			if st == "unify-hop1-rot" {
				sc = randomPlan(rnd, st, true)
			} else {
				sc = withFault(rnd, st)
			}
		}
		sc.Shape += "-rot"
		pend = append(pend, sc)
	}
	for i := 0; i < nUnseen; i++ {
		pend = append(pend, unseen(rnd, stacks[i%len(stacks)]))
	}
	for i := 0; i < nFault; i++ {
		pend = append(pend, withFault(rnd, []string{"hop1", "hop1", "hop1", "hop2"}[i%4]))
	}
	for i := 0; i < nRe; i++ {
		pend = append(pend, recommit(rnd, stacks[i%len(stacks)]))
	}
	const stripes = 11
	for k := 0; k < stripes; k++ {
		for i := k; i < len(pend); i += stripes {
			runScript(out, pend[i], "random")
		}
	}
	if err := out.Flush(); err != nil {
		panic(err)
	}
}
