package main

// Codec cases: ocirequest.RangeString / ParseRange (through the ociverif re-export),
// ociserver.chunkRange and parseRange (through ociserver/export_verif.go) on boundary
// values and on a malformed stream.

import (
	"errors"
	"fmt"
	"math"
	"math/rand"
	"strings"

	"cuelabs.dev/go/oci/ociregistry"
	"cuelabs.dev/go/oci/ociregistry/ociserver"
	"cuelabs.dev/go/oci/ociregistry/ociverif"
	"verif/harness/hx"
)

type codecDesc struct {
	Kind   string  `json:"kind"` // range parse chunk chunkraw httprange
	A      int64   `json:"a,omitempty"`
	B      int64   `json:"b,omitempty"`
	CL     int64   `json:"cl,omitempty"`
	Str    string  `json:"str,omitempty"`
	Result string  `json:"result,omitempty"`
}

func coqOptPair(a, b int64, ok bool) string {
	if !ok {
		return "None"
	}
	return fmt.Sprintf("(Some (%s, %s))", hx.Z(a), hx.Z(b))
}

func chunkObs(cr string, cl int64) (coq string, readable string) {
	var s, e int64
	var err error
	panicked, pv := hx.Recover(func() { s, e, err = ociserver.VerifChunkRange(cr, cl) })
	if panicked {
		return "(OCRErr (ECustom " + hx.B("panic") + "))", "panic: " + pv
	}
	if err != nil {
		code := ""
		var oe ociregistry.Error
		if errors.As(err, &oe) {
			code = oe.Code()
		}
		return "(OCRErr " + coqCode(code) + ")", "error " + code + ": " + err.Error()
	}
	return fmt.Sprintf("(OCROk %s %s)", hx.Z(s), hx.Z(e)), fmt.Sprintf("ok %d %d", s, e)
}

func runCodec(out *hx.Out, d codecDesc, origin string) {
	var coq string
	switch d.Kind {
	case "range":
		var str string
		var p0, p1 int64
		var ok bool
		panicked, pv := hx.Recover(func() {
			str = ociverif.RangeString(d.A, d.B)
			p0, p1, ok = ociverif.ParseRange(str)
		})
		if panicked {
			str, ok = "panic: "+pv, false
		}
		d.Str = str
		d.Result = coqOptPair(p0, p1, ok)
		coq = fmt.Sprintf("KRange %s %s %s %s", hx.Z(d.A), hx.Z(d.B), hx.B(str), d.Result)
	case "parse":
		var p0, p1 int64
		var ok bool
		panicked, _ := hx.Recover(func() { p0, p1, ok = ociverif.ParseRange(d.Str) })
		if panicked {
			ok = false
			d.Result = "panic"
			coq = fmt.Sprintf("KParse %s (Some (0%%Z, (-77)%%Z))", hx.B(d.Str+"\x00panic"))
			break
		}
		d.Result = coqOptPair(p0, p1, ok)
		coq = fmt.Sprintf("KParse %s %s", hx.B(d.Str), d.Result)
	case "chunk":
		str := ociverif.RangeString(d.A, d.B)
		c, r := chunkObs(str, d.CL)
		d.Str, d.Result = str, r
		coq = fmt.Sprintf("KChunk %s %s %s %s", hx.Z(d.A), hx.Z(d.B), hx.Z(d.CL), c)
	case "chunkraw":
		c, r := chunkObs(d.Str, d.CL)
		d.Result = r
		coq = fmt.Sprintf("KChunkRaw %s %s %s", hx.B(d.Str), hx.Z(d.CL), c)
	case "httprange":
		var rs [][2]int64
		var err error
		panicked, _ := hx.Recover(func() { rs, err = ociserver.VerifParseRange(d.Str) })
		switch {
		case panicked:
			d.Result = "panic"
			coq = fmt.Sprintf("KHttpRange %s (OHROk [((-77)%%Z, (-77)%%Z)])", hx.B(d.Str))
		case err != nil:
			d.Result = "error: " + err.Error()
			coq = fmt.Sprintf("KHttpRange %s OHRErr", hx.B(d.Str))
		default:
			parts := make([]string, len(rs))
			for i, r := range rs {
				parts[i] = fmt.Sprintf("(%s, %s)", hx.Z(r[0]), hx.Z(r[1]))
			}
			d.Result = fmt.Sprint(rs)
			coq = fmt.Sprintf("KHttpRange %s (OHROk %s)", hx.B(d.Str), hx.List(parts))
		}
	default:
		panic("unknown codec kind " + d.Kind)
	}
	if out.Add(hx.Case{Coq: coq, Desc: map[string]any{"codec": d, "origin": origin},
		Tags: map[string]any{"class": "codec:" + d.Kind, "shape": "codec"}}) {
		out.Count("codec:" + d.Kind)
	}
}

var edgeInts = []int64{0, 1, 2, 3, 9, 10, 11, 99, 100, 101, 8191, 8192, 8193, 65535, 65536, 1 << 31, 1 << 32, 1 << 62,
	math.MaxInt64 - 1, math.MaxInt64, -1, -2, -10, math.MinInt64, math.MinInt64 + 1}

var badRanges = []string{"", "-", "0", "0-", "-0", "--", "a-b", "1-2-3", "+1-+2", "+0-+0", "-1-2", "1--2", " 1-2", "1 -2", "1- 2", "1-2 ",
	"0x1-2", "1_0-20", "00-00", "007-010", "9223372036854775807-9223372036854775807", "9223372036854775808-1",
	"1-9223372036854775808", "0-9223372036854775807", "0-9223372036854775806", "-9223372036854775808-0",
	"１-２", "1–2", "1-2\n", "1.0-2", "1e3-2", "0-0", "1-0", "2-1", "0-1", "5-3", "bytes 1-2/3", "bytes=1-2", "1-", "1-+", "+-+"}

var badHTTPRanges = []string{"", "bytes=", "bytes=0-0", "bytes=0-", "bytes=1-4", "bytes=-5", "bytes=--5", "bytes=-", "bytes=5-3", "bytes=5-5",
	"bytes= 1 - 2 , 4-", "bytes=1-2,", "bytes=,1-2", "bytes=,,", "Bytes=1-2", "bytes =1-2", "bytes=1-2;", "bytes=a-b", "bytes=1-b",
	"bytes=+1-+2", "bytes=-1-2", "bytes=1--2", "bytes=\t1-2\r", "bytes=1\n-2", "bytes=1-2,3-4,5-", "bytes=9223372036854775807-9223372036854775807",
	"bytes=9223372036854775808-", "bytes=0-9223372036854775808", "bytes=1", "bytes", "x", "bytes=1-2-3", "bytes=0x1-2", "bytes=1_0-20", "bytes= 1-2",
	"bytes=1- ,2-", "bytes=  ", "bytes= , "}

func mutateString(r *rand.Rand, s string) string {
	alphabet := "0123456789-+ ,=abxy_\t"
	b := []byte(s)
	switch r.Intn(4) {
	case 0:
		if len(b) > 0 {
			i := r.Intn(len(b))
			b = append(b[:i], b[i+1:]...)
		}
	case 1:
		i := r.Intn(len(b) + 1)
		b = append(b[:i], append([]byte{alphabet[r.Intn(len(alphabet))]}, b[i:]...)...)
	case 2:
		if len(b) > 0 {
			b[r.Intn(len(b))] = alphabet[r.Intn(len(alphabet))]
		}
	case 3:
		if len(b) > 1 {
			i := r.Intn(len(b) - 1)
			b[i], b[i+1] = b[i+1], b[i]
		}
	}
	return string(b)
}

func genCodec(out *hx.Out, r *rand.Rand, thorough bool) {
	// boundary pairs
	for _, a := range edgeInts {
		for _, delta := range []int64{-2, -1, 0, 1, 2, 10, 8192} {
			b := a + delta // may wrap: that is an input too
			runCodec(out, codecDesc{Kind: "range", A: a, B: b}, "enum")
			for _, cl := range []int64{b - a, b - a - 1, b - a + 1, 0, 1, -1} {
				runCodec(out, codecDesc{Kind: "chunk", A: a, B: b, CL: cl}, "enum")
			}
		}
	}
	for _, s := range badRanges {
		runCodec(out, codecDesc{Kind: "parse", Str: s}, "enum")
		for _, cl := range []int64{-1, 0, 1, 2, 3} {
			runCodec(out, codecDesc{Kind: "chunkraw", Str: s, CL: cl}, "enum")
		}
	}
	for _, s := range badHTTPRanges {
		runCodec(out, codecDesc{Kind: "httprange", Str: s}, "enum")
	}
	n := 300
	if thorough {
		n = 6000
	}
	for i := 0; i < n; i++ {
		a := r.Int63n(1 << uint(1+r.Intn(62)))
		b := a + r.Int63n(1<<uint(1+r.Intn(20)))
		if b < a {
			b = a
		}
		runCodec(out, codecDesc{Kind: "range", A: a, B: b}, "random")
		cl := b - a
		if r.Intn(3) == 0 {
			cl += int64(r.Intn(3) - 1)
		}
		runCodec(out, codecDesc{Kind: "chunk", A: a, B: b, CL: cl}, "random")
		s := ociverif.RangeString(a, b)
		for k := r.Intn(3); k >= 0; k-- {
			s = mutateString(r, s)
		}
		runCodec(out, codecDesc{Kind: "parse", Str: s}, "random")
		runCodec(out, codecDesc{Kind: "chunkraw", Str: s, CL: int64(r.Intn(5) - 1)}, "random")
		h := fmt.Sprintf("bytes=%d-%d", a%100000, b%100000)
		if r.Intn(3) == 0 {
			h += fmt.Sprintf(", %d-", r.Intn(1000))
		}
		for k := r.Intn(3); k > 0; k-- {
			h = mutateString(r, h)
		}
		if !strings.HasPrefix(h, "bytes=") && r.Intn(2) == 0 {
			h = "bytes=" + h
		}
		runCodec(out, codecDesc{Kind: "httprange", Str: h}, "random")
	}
}
