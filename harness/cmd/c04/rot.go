// A registry whose upload ids are good for one use, and the "-rot" stacks built on it.
package main

import (
	"context"
	"fmt"
	"sync"

	"cuelabs.dev/go/oci/ociregistry"
)

// rotating wraps a registry so that the upload id (over HTTP: the upload Location) changes
// with every writer: each writer carries a fresh id, and once the operation it was obtained
// for has gone through (Close without a failed Write / Commit before it), the id that was
// used to obtain it is forgotten - a later request naming it is answered BLOB_UPLOAD_UNKNOWN.
// An operation that was refused does not rotate: the id that was used stays good and the
// fresh one (which the refused caller never learns over HTTP) is dropped.  This is within the
// contract of PushBlobChunkedResume ("the id should be the value returned from BlobWriter.ID
// from the previous push"; over HTTP: the Location of the latest response is the one to use).
// To a caller that follows the ids it is given, the wrapped registry behaves exactly as the
// registry inside - which is why the "-rot" stacks are compared with the model of the plain
// ones; a layer that keeps using an id it was given earlier reaches no upload.
type rotating struct {
	ociregistry.Interface
	mu   sync.Mutex
	n    int
	real map[string]string // id handed out -> id of the registry inside
}

func newRotating(inner ociregistry.Interface) *rotating {
	return &rotating{Interface: inner, real: map[string]string{}}
}

type rotWriter struct {
	ociregistry.BlobWriter
	r      *rotating
	id     string // the fresh id this writer reports
	used   string // the id it was obtained with ("" for a new upload)
	failed bool
	done   bool
}

func (w *rotWriter) ID() string { return w.id }

func (w *rotWriter) Write(p []byte) (int, error) {
	n, err := w.BlobWriter.Write(p)
	if err != nil {
		w.failed = true
	}
	return n, err
}

func (w *rotWriter) Commit(d ociregistry.Digest) (ociregistry.Descriptor, error) {
	desc, err := w.BlobWriter.Commit(d)
	if err != nil {
		w.failed = true
	}
	w.settle()
	return desc, err
}

func (w *rotWriter) Close() error {
	err := w.BlobWriter.Close()
	if err != nil {
		w.failed = true
	}
	w.settle()
	return err
}

// settle decides, once, which of the two ids survives the operation.
func (w *rotWriter) settle() {
	if w.done {
		return
	}
	w.done = true
	w.r.mu.Lock()
	defer w.r.mu.Unlock()
	if w.failed && w.used != "" {
		delete(w.r.real, w.id)
	} else if w.used != "" {
		delete(w.r.real, w.used)
	}
}

func (r *rotating) wrap(w ociregistry.BlobWriter, used string) ociregistry.BlobWriter {
	r.mu.Lock()
	defer r.mu.Unlock()
	r.n++
	id := fmt.Sprintf("rot-%d-%s", r.n, w.ID())
	r.real[id] = w.ID()
	return &rotWriter{BlobWriter: w, r: r, id: id, used: used}
}

func (r *rotating) PushBlobChunked(ctx context.Context, repo string, chunkSize int) (ociregistry.BlobWriter, error) {
	w, err := r.Interface.PushBlobChunked(ctx, repo, chunkSize)
	if err != nil {
		return nil, err
	}
	return r.wrap(w, ""), nil
}

func (r *rotating) PushBlobChunkedResume(ctx context.Context, repo, id string, offset int64, chunkSize int) (ociregistry.BlobWriter, error) {
	r.mu.Lock()
	real, ok := r.real[id]
	r.mu.Unlock()
	if !ok {
		return nil, ociregistry.ErrBlobUploadUnknown
	}
	w, err := r.Interface.PushBlobChunkedResume(ctx, repo, real, offset, chunkSize)
	if err != nil {
		return nil, err
	}
	return r.wrap(w, id), nil
}
