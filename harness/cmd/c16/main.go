// Harness for C16: drives the real ociunify (ReadConcurrent policy) over two gated fake
// members.  A schedule is a list of (event, wait): start the call, open a member's gate with
// its answer, cancel the caller's context, close the returned reader.  After an event with
// wait set the harness lets everything run until every goroutine is blocked or gone (decided
// from the goroutine profile, not by sleeping) and records a snapshot: the call's result, per
// member whether its call started / returned, its context state when it returned and now, the
// Close count of the reader it handed out, and how many goroutines are alive / inside a
// member call.  Coq compares the snapshot list with the set the protocol model allows
// (model_agrees) and judges it against the specification (obs_ok).
package main

import (
	"bytes"
	"context"
	"encoding/json"
	"errors"
	"fmt"
	"io"
	"os"
	"regexp"
	"runtime"
	"strings"
	"sync"
	"time"

	"cuelabs.dev/go/oci/ociregistry"
	"cuelabs.dev/go/oci/ociregistry/ociunify"
	"verif/harness/hx"
)

// ---------------------------------------------------------------- schedule (the input)

type item struct {
	Ev   string `json:"ev"`            // start | ret | cancel | close
	M    int    `json:"m,omitempty"`   // ret: member
	Ans  string `json:"ans,omitempty"` // ret: succ | fail
	Wait bool   `json:"wait"`
}

type input struct {
	Entry string `json:"entry"` // GetBlob GetBlobRange GetManifest ResolveBlob ResolveManifest
	K0    string `json:"k0"`    // gated | oncancel-succ | oncancel-fail
	K1    string `json:"k1"`
	Sched []item `json:"sched"`
	// CloseErr makes every member reader's Close return an error (the property does not
	// depend on what Close returns; the model's prediction is the same).
	CloseErr bool `json:"close_err,omitempty"`
}

var entries = []string{"GetBlob", "GetBlobRange", "GetManifest", "ResolveBlob", "ResolveManifest"}
var kinds = []string{"gated", "oncancel-succ", "oncancel-fail"}

func isBlob(entry string) bool { return strings.HasPrefix(entry, "Get") }

// ---------------------------------------------------------------- fake members

var memberErr = [2]error{errors.New("member 0 says no"), errors.New("member 1 says no")}

func memberDigest(i int) ociregistry.Digest {
	return ociregistry.Digest("sha256:" + strings.Repeat(fmt.Sprint(i), 64))
}

type fakeReader struct {
	io.Reader
	desc   ociregistry.Descriptor
	mu     sync.Mutex
	closes int
	err    error
}

func (r *fakeReader) Close() error {
	r.mu.Lock()
	r.closes++
	r.mu.Unlock()
	return r.err
}
func (r *fakeReader) Descriptor() ociregistry.Descriptor { return r.desc }

type member struct {
	idx      int
	onCancel bool
	answer   bool      // onCancel: the answer given once the context is done
	gate     chan bool // gated: receives the answer
	opened   bool      // harness side: the gate has been opened

	mu        sync.Mutex
	started   bool
	ctx       context.Context
	returned  bool
	retAns    bool
	deadAtRet bool
	rd        *fakeReader
	calls     int
	closeErr  error // returned by Close of the readers this member hands out
}

// call is where a member call waits; its name is looked for in the goroutine profile.
//
//go:noinline
func (m *member) call(ctx context.Context) bool {
	m.mu.Lock()
	m.started = true
	m.ctx = ctx
	m.calls++
	m.mu.Unlock()
	if m.onCancel {
		<-ctx.Done()
		return m.answer
	}
	return <-m.gate
}

func (m *member) finish(ctx context.Context, ans bool, rd *fakeReader) {
	m.mu.Lock()
	m.returned = true
	m.retAns = ans
	m.deadAtRet = ctx.Err() != nil
	m.rd = rd
	m.mu.Unlock()
}

func (m *member) reader(ctx context.Context) (ociregistry.BlobReader, error) {
	if m.call(ctx) {
		content := fmt.Sprintf("content of member %d", m.idx)
		rd := &fakeReader{Reader: bytes.NewReader([]byte(content)),
			desc: ociregistry.Descriptor{MediaType: "application/octet-stream", Digest: memberDigest(m.idx), Size: int64(len(content))},
			err:  m.closeErr}
		m.finish(ctx, true, rd)
		return rd, nil
	}
	m.finish(ctx, false, nil)
	return nil, memberErr[m.idx]
}

func (m *member) descriptor(ctx context.Context) (ociregistry.Descriptor, error) {
	if m.call(ctx) {
		m.finish(ctx, true, nil)
		return ociregistry.Descriptor{MediaType: "application/octet-stream", Digest: memberDigest(m.idx), Size: 17}, nil
	}
	m.finish(ctx, false, nil)
	return ociregistry.Descriptor{}, memberErr[m.idx]
}

func (m *member) registry() ociregistry.Interface {
	return &ociregistry.Funcs{
		GetBlob_: func(ctx context.Context, repo string, digest ociregistry.Digest) (ociregistry.BlobReader, error) {
			return m.reader(ctx)
		},
		GetBlobRange_: func(ctx context.Context, repo string, digest ociregistry.Digest, o0, o1 int64) (ociregistry.BlobReader, error) {
			return m.reader(ctx)
		},
		GetManifest_: func(ctx context.Context, repo string, digest ociregistry.Digest) (ociregistry.BlobReader, error) {
			return m.reader(ctx)
		},
		ResolveBlob_: func(ctx context.Context, repo string, digest ociregistry.Digest) (ociregistry.Descriptor, error) {
			return m.descriptor(ctx)
		},
		ResolveManifest_: func(ctx context.Context, repo string, digest ociregistry.Digest) (ociregistry.Descriptor, error) {
			return m.descriptor(ctx)
		},
	}
}

func newMember(i int, kind string) *member {
	m := &member{idx: i, gate: make(chan bool, 1)}
	switch kind {
	case "oncancel-succ":
		m.onCancel, m.answer = true, true
	case "oncancel-fail":
		m.onCancel, m.answer = true, false
	}
	return m
}

// ---------------------------------------------------------------- goroutine profile

var hdrRe = regexp.MustCompile(`^goroutine (\d+) \[([^\],]+)`)

var waitingStates = map[string]bool{
	"chan receive": true, "chan send": true, "select": true, "semacquire": true,
	"chan receive (nil chan)": true, "chan send (nil chan)": true, "select (no cases)": true,
	"sync.Mutex.Lock": true, "sync.RWMutex.RLock": true, "sync.RWMutex.Lock": true,
	"sync.Cond.Wait": true, "sync.WaitGroup.Wait": true, "IO wait": true, "sleep": true,
}

type gor struct {
	id       string
	state    string
	inMember bool
}

var stackBuf = make([]byte, 1<<20)

// profile lists all goroutines; the first one is the caller.
func profile() []gor {
	for {
		n := runtime.Stack(stackBuf, true)
		if n < len(stackBuf) {
			var out []gor
			for _, blk := range strings.Split(string(stackBuf[:n]), "\n\n") {
				m := hdrRe.FindStringSubmatch(blk)
				if m == nil {
					continue
				}
				out = append(out, gor{id: m[1], state: m[2], inMember: strings.Contains(blk, "main.(*member).call(")})
			}
			return out
		}
		stackBuf = make([]byte, 2*len(stackBuf))
	}
}

// settle waits until every goroutine other than the caller is blocked (or gone).  Nothing in
// the system under test uses timers, so such a moment is stable until the harness acts.
func settle(limit time.Duration) ([]gor, bool) {
	deadline := time.Now().Add(limit)
	for {
		runtime.Gosched()
		p := profile()
		quiet := true
		for _, g := range p[1:] {
			if !waitingStates[g.state] {
				quiet = false
				break
			}
		}
		if quiet {
			return p, true
		}
		if time.Now().After(deadline) {
			return p, false
		}
	}
}

// ---------------------------------------------------------------- one case

type msnap struct {
	Started   bool   `json:"started"`
	Ret       string `json:"ret"` // "" | succ | fail
	DeadAtRet bool   `json:"ctx_done_at_return"`
	Dead      bool   `json:"ctx_done_now"`
	Reader    string `json:"reader"` // none | open | closed | closed-twice
}

type snapshot struct {
	After     string `json:"after"`
	Quiet     bool   `json:"quiet"`
	Started   bool   `json:"started"`
	Cancelled bool   `json:"cancelled"`
	Closed    bool   `json:"closed"`
	Res       string `json:"result"` // none | ok0 | ok1 | err0 | err1 | errctx | other:<what>
	M         [2]msnap
	Live      int `json:"goroutines_alive"`
	InMember  int `json:"goroutines_in_member_call"`
}

type runResult struct {
	snaps        []snapshot
	leftover     int // goroutines of this case still alive after the harness's own clean-up
	numGoroutine int
}

// settleLimit is how long the harness waits for a quiet moment.  Nothing in the system under
// test spins or sleeps, so on an idle machine a quiet moment arrives within microseconds; the
// limit only matters when the machine is so loaded that a runnable goroutine is not scheduled.
func settleLimit() time.Duration { return 30 * time.Second }

func runCase(in input) runResult {
	base := map[string]bool{}
	for _, g := range profile() {
		base[g.id] = true
	}
	ms := [2]*member{newMember(0, in.K0), newMember(1, in.K1)}
	if in.CloseErr {
		ms[0].closeErr = errors.New("close of member 0's reader fails")
		ms[1].closeErr = errors.New("close of member 1's reader fails")
	}
	u := ociunify.New(ms[0].registry(), ms[1].registry(), &ociunify.Options{ReadPolicy: ociunify.ReadConcurrent})
	ctx, cancel := context.WithCancel(context.Background())
	defer cancel()

	var (
		started, cancelled, closeIssued bool
		callDone                        = make(chan struct{})
		closeDone                       = make(chan struct{})
		rd                              ociregistry.BlobReader
		desc                            ociregistry.Descriptor
		err                             error
		panicked                        bool
		pval                            string
	)
	isDone := func(c chan struct{}) bool {
		select {
		case <-c:
			return true
		default:
			return false
		}
	}
	blob := isBlob(in.Entry)
	theCall := func() {
		defer close(callDone)
		panicked, pval = hx.Recover(func() {
			dig := ociregistry.Digest("sha256:" + strings.Repeat("a", 64))
			switch in.Entry {
			case "GetBlob":
				rd, err = u.GetBlob(ctx, "repo", dig)
			case "GetBlobRange":
				rd, err = u.GetBlobRange(ctx, "repo", dig, 1, 5)
			case "GetManifest":
				rd, err = u.GetManifest(ctx, "repo", dig)
			case "ResolveBlob":
				desc, err = u.ResolveBlob(ctx, "repo", dig)
			case "ResolveManifest":
				desc, err = u.ResolveManifest(ctx, "repo", dig)
			default:
				panic("unknown entry " + in.Entry)
			}
		})
	}
	result := func() string {
		if !isDone(callDone) {
			return "none"
		}
		switch {
		case panicked:
			return "other:panic " + pval
		case err == nil:
			var d ociregistry.Digest
			if blob {
				if rd == nil {
					return "other:nil reader and nil error"
				}
				d = rd.Descriptor().Digest
			} else {
				d = desc.Digest
			}
			for i := 0; i < 2; i++ {
				if d == memberDigest(i) {
					return fmt.Sprintf("ok%d", i)
				}
			}
			return "other:answer of neither member"
		case blob && rd != nil:
			return "other:reader returned with an error"
		case errors.Is(err, memberErr[0]) && errors.Is(err, memberErr[1]):
			return "other:error of both members"
		case errors.Is(err, memberErr[0]):
			return "err0"
		case errors.Is(err, memberErr[1]):
			return "err1"
		case errors.Is(err, context.Canceled):
			return "errctx"
		}
		return "other:error " + err.Error()
	}
	observe := func(after string) snapshot {
		p, quiet := settle(settleLimit())
		s := snapshot{After: after, Quiet: quiet, Started: started, Cancelled: cancelled, Closed: isDone(closeDone), Res: result()}
		for _, g := range p[1:] {
			if base[g.id] {
				continue
			}
			s.Live++
			if g.inMember {
				s.InMember++
			}
		}
		for i, m := range ms {
			m.mu.Lock()
			x := msnap{Started: m.started, Reader: "none"}
			if m.returned {
				x.Ret = map[bool]string{true: "succ", false: "fail"}[m.retAns]
				x.DeadAtRet = m.deadAtRet
			}
			if m.started {
				x.Dead = m.ctx.Err() != nil
			}
			if m.calls > 1 {
				x.Reader = "called-more-than-once"
			} else if m.rd != nil {
				m.rd.mu.Lock()
				switch m.rd.closes {
				case 0:
					x.Reader = "open"
				case 1:
					x.Reader = "closed"
				default:
					x.Reader = "closed-twice"
				}
				m.rd.mu.Unlock()
			}
			m.mu.Unlock()
			s.M[i] = x
		}
		return s
	}
	openGate := func(i int, ans bool) {
		if ms[i].onCancel || ms[i].opened {
			return
		}
		ms[i].opened = true
		ms[i].gate <- ans
	}
	closeReader := func() {
		if closeIssued || !blob || !isDone(callDone) || panicked || err != nil || rd == nil {
			return
		}
		closeIssued = true
		go func() {
			defer close(closeDone)
			hx.Recover(func() { rd.Close() })
		}()
	}

	var res runResult
	for _, it := range in.Sched {
		switch it.Ev {
		case "start":
			if !started {
				started = true
				go theCall()
			}
		case "ret":
			openGate(it.M, it.Ans == "succ")
		case "cancel":
			if !cancelled {
				cancelled = true
				cancel()
			}
		case "close":
			closeReader()
		}
		if it.Wait {
			res.snaps = append(res.snaps, observe(evName(it)))
		}
	}
	// clean-up outside the case: let everything that can still finish do so
	openGate(0, false)
	openGate(1, false)
	cancel()
	settle(settleLimit())
	closeReader()
	p, _ := settle(settleLimit())
	for _, g := range p[1:] {
		if !base[g.id] {
			res.leftover++
		}
	}
	res.numGoroutine = runtime.NumGoroutine()
	return res
}

func evName(it item) string {
	if it.Ev == "ret" {
		return fmt.Sprintf("ret%d-%s", it.M, it.Ans)
	}
	return it.Ev
}

// ---------------------------------------------------------------- Coq printing

func coqKind(k string) string {
	switch k {
	case "oncancel-succ":
		return "(OnCancel Succ)"
	case "oncancel-fail":
		return "(OnCancel Fail)"
	}
	return "Gated"
}

func coqEv(it item) string {
	switch it.Ev {
	case "start":
		return "EStart"
	case "ret":
		a := "Fail"
		if it.Ans == "succ" {
			a = "Succ"
		}
		return fmt.Sprintf("ERet M%d %s", it.M, a)
	case "cancel":
		return "ECancel"
	}
	return "EClose"
}

func coqRes(r string) string {
	switch r {
	case "none":
		return "(Some RNone)"
	case "ok0":
		return "(Some (ROk M0))"
	case "ok1":
		return "(Some (ROk M1))"
	case "err0":
		return "(Some (RErrM M0))"
	case "err1":
		return "(Some (RErrM M1))"
	case "errctx":
		return "(Some RErrCtx)"
	}
	return "None"
}

func coqMsnap(m msnap) string {
	ret := "NotRet"
	switch m.Ret {
	case "succ":
		ret = "(Ret Succ)"
	case "fail":
		ret = "(Ret Fail)"
	}
	rd := map[string]string{"none": "RdNone", "open": "RdOpen", "closed": "RdClosed", "closed-twice": "RdTwice",
		"called-more-than-once": "RdTwice"}[m.Reader]
	return fmt.Sprintf("(mkMsnap %s %s %s %s %s)", hx.Bool(m.Started), ret, hx.Bool(m.DeadAtRet), hx.Bool(m.Dead), rd)
}

func coqSnap(s snapshot) string {
	return fmt.Sprintf("(mkSnap %s %s %s %s %s %s %s %d %d)", hx.Bool(s.Quiet), hx.Bool(s.Started), hx.Bool(s.Cancelled),
		hx.Bool(s.Closed), coqRes(s.Res), coqMsnap(s.M[0]), coqMsnap(s.M[1]), s.Live, s.InMember)
}

func coqCase(in input, snaps []snapshot) string {
	var evs, sn []string
	for _, it := range in.Sched {
		evs = append(evs, fmt.Sprintf("(%s, %s)", coqEv(it), hx.Bool(it.Wait)))
	}
	for _, s := range snaps {
		sn = append(sn, coqSnap(s))
	}
	return fmt.Sprintf("{| c_entry := %s; c_k0 := %s; c_k1 := %s; c_sched := %s; c_snaps := %s |}",
		in.Entry, coqKind(in.K0), coqKind(in.K1), hx.List(evs), hx.List(sn))
}

// ---------------------------------------------------------------- generation

func permutations(xs []item) [][]item {
	if len(xs) <= 1 {
		return [][]item{append([]item{}, xs...)}
	}
	var out [][]item
	for i := range xs {
		rest := append(append([]item{}, xs[:i]...), xs[i+1:]...)
		for _, p := range permutations(rest) {
			out = append(out, append([]item{xs[i]}, p...))
		}
	}
	return out
}

// enumerate yields, for one entry point, every schedule of the property's quantifier: member
// kinds x answers x every order of {the gated members' answers, the caller's cancellation,
// the caller's Close}, with the cancellation also before the call is made; every event waited
// for.  The cancellation placed last is the "no cancellation" run (its last snapshot aside).
func enumerate(entry string, emit func(input)) {
	anss := []string{"succ", "fail"}
	for _, k0 := range kinds {
		for _, k1 := range kinds {
			a0s, a1s := []string{""}, []string{""}
			if k0 == "gated" {
				a0s = anss
			}
			if k1 == "gated" {
				a1s = anss
			}
			for _, a0 := range a0s {
				for _, a1 := range a1s {
					var items []item
					if a0 != "" {
						items = append(items, item{Ev: "ret", M: 0, Ans: a0, Wait: true})
					}
					if a1 != "" {
						items = append(items, item{Ev: "ret", M: 1, Ans: a1, Wait: true})
					}
					if isBlob(entry) {
						items = append(items, item{Ev: "close", Wait: true})
					}
					start := item{Ev: "start", Wait: true}
					cancel := item{Ev: "cancel", Wait: true}
					for _, p := range permutations(append(append([]item{}, items...), cancel)) {
						emit(input{Entry: entry, K0: k0, K1: k1, Sched: append([]item{start}, p...)})
					}
					for _, p := range permutations(items) {
						emit(input{Entry: entry, K0: k0, K1: k1, Sched: append([]item{cancel, start}, p...)})
					}
				}
			}
		}
	}
}

func main() {
	cfg := hx.ParseFlags()
	out := hx.NewOut(cfg, "Obs.C16")
	maxLeft, maxNum := 0, 0
	discarded := 0
	add := func(in input, origin string) {
		r := runCase(in)
		for _, s := range r.snaps {
			if !s.Quiet {
				// no quiet moment within the limit: the snapshot was taken while a goroutine was
				// still runnable, so it describes no state of the protocol; the run is not an
				// observation (counted, and the harness fails below if it happens more than rarely)
				discarded++
				out.Count("discarded-not-quiet")
				return
			}
		}
		if r.leftover > maxLeft {
			maxLeft = r.leftover
		}
		if r.numGoroutine > maxNum {
			maxNum = r.numGoroutine
		}
		style := "resolve"
		if isBlob(in.Entry) {
			style = "blob"
		}
		final := "none"
		if n := len(r.snaps); n > 0 {
			final = r.snaps[n-1].Res
			if strings.HasPrefix(final, "other") {
				final = "other"
			}
		}
		c := hx.Case{Coq: coqCase(in, r.snaps),
			Desc: map[string]any{"input": in, "observed": r.snaps, "origin": origin,
				"goroutines_left_after_cleanup": r.leftover},
			Tags: map[string]any{"class": style + "/" + in.K0 + "," + in.K1, "entry": in.Entry, "final": final}}
		if out.Add(c) {
			out.Count("entry:" + in.Entry)
			out.Count("kinds:" + in.K0 + "," + in.K1)
			out.Count("origin:" + origin)
			out.Count("final:" + final)
			out.Count(fmt.Sprintf("events:%d", len(in.Sched)))
			for _, s := range r.snaps {
				if !s.Quiet {
					out.Count("snapshot-not-quiet")
				}
			}
		}
	}
	finish := func() {
		out.Extra["discarded_not_quiet"] = discarded
		if discarded > 5 && discarded*100 > out.Len() {
			fmt.Fprintf(os.Stderr, "c16: %d of %d runs never reached a quiet moment within %v\n", discarded, out.Len()+discarded, settleLimit())
			os.Exit(3)
		}
		out.Extra["max_goroutines_left_after_cleanup"] = maxLeft
		out.Extra["max_runtime_NumGoroutine_after_case"] = maxNum
		if err := out.Flush(); err != nil {
			panic(err)
		}
	}
	readInput := func(b []byte) (input, bool) {
		var r struct {
			Input input `json:"input"`
		}
		if json.Unmarshal(b, &r) != nil || r.Input.Entry == "" {
			return input{}, false
		}
		return r.Input, true
	}
	if cfg.Replay != "" {
		b, err := os.ReadFile(cfg.Replay)
		if err != nil {
			panic(err)
		}
		in, ok := readInput(b)
		if !ok {
			panic("replay file has no input")
		}
		for i := 0; i < 20; i++ { // the same schedule may be answered in more than one way
			add(in, "replay")
		}
		finish()
		return
	}
	for _, raw := range hx.LoadCorpus(cfg.Corpus) {
		if in, ok := readInput(raw); ok {
			add(in, "corpus")
		}
	}
	reps := 2
	if cfg.Thorough() {
		reps = 25
	}
	for rep := 0; rep < reps; rep++ {
		for _, e := range entries {
			enumerate(e, func(in input) {
				in.CloseErr = rep%2 == 1 // every schedule is played with and without a failing Close
				add(in, "enumerated")
			})
		}
	}
	// bursts: the same events, but not every one waited for, so that answers, cancellation
	// and the selects really race
	rnd := cfg.Rand()
	n := 1500
	if cfg.Thorough() {
		n = 60000
	}
	for i := 0; i < n; i++ {
		entry := entries[rnd.Intn(len(entries))]
		k0, k1 := kinds[rnd.Intn(3)], kinds[rnd.Intn(3)]
		if rnd.Intn(3) > 0 {
			k0 = "gated"
		}
		if rnd.Intn(3) > 0 {
			k1 = "gated"
		}
		var items []item
		for m, k := range []string{k0, k1} {
			if k == "gated" {
				items = append(items, item{Ev: "ret", M: m, Ans: []string{"succ", "fail"}[rnd.Intn(2)]})
			}
		}
		items = append(items, item{Ev: "cancel"}, item{Ev: "start"})
		rnd.Shuffle(len(items), func(a, b int) { items[a], items[b] = items[b], items[a] })
		pWait := rnd.Float64() * 0.6
		var sched []item
		for _, it := range items {
			it.Wait = rnd.Float64() < pWait
			sched = append(sched, it)
		}
		sched[len(sched)-1].Wait = true
		if isBlob(entry) {
			// Close is only issued at a quiet moment (the harness must know whether a reader
			// has been returned): after some waited-for event that follows the start
			seenStart := false
			var cands []int
			for j, it := range sched {
				if it.Ev == "start" {
					seenStart = true
				}
				if seenStart && it.Wait {
					cands = append(cands, j)
				}
			}
			if len(cands) > 0 {
				j := cands[rnd.Intn(len(cands))]
				cl := item{Ev: "close", Wait: true}
				sched = append(sched[:j+1], append([]item{cl}, sched[j+1:]...)...)
			}
		}
		add(input{Entry: entry, K0: k0, K1: k1, Sched: sched, CloseErr: rnd.Intn(2) == 0}, "burst")
	}
	finish()
}
