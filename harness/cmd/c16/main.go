// Harness for C16: drives the real ociunify (ReadConcurrent policy) over two gated fake
// members.  A schedule is a list of (event, wait): start the call, open a member's gate with
// its answer, cancel the caller's context, use the returned reader (read part of it, read it
// to the end, ask for its descriptor), close the returned reader.  A member is the fake
// registry itself or something built around it (an inner ociunify registry of either read
// policy, a pass-through wrapper, a reader with more methods than BlobReader).  A member's
// failure comes in flavours (a plain error, the member's own cancellation or deadline while the
// caller's context is live, OCI and HTTP errors, ...) and the caller's context ends by cancel
// or by deadline, or it is a context of a foreign type (package context then forwards its
// cancellation through goroutines that show in the profile as long as a derived context has not
// been cancelled): the property does not tell them apart, so the unifier must not.  The readers
// the members hand out may be stalled streams (Read blocks until the member's context is
// cancelled): the protocol has no business reading them.  After an event with
// wait set the harness lets everything run until every goroutine is blocked or gone (decided
// from the goroutine profile, not by sleeping) and records a snapshot: the call's result, per
// member whether its call started / returned, its context state when it returned and now, the
// Close count of the reader it handed out, whether its context carries a deadline the caller's
// does not have, and how many goroutines are alive / inside a
// member call.  Coq compares the snapshot list with the set the protocol model allows
// (model_agrees) and judges it against the specification (obs_ok).
package main

import (
	"bytes"
	"context"
	"encoding/json"
	"errors"
	"fmt"
	"io"
	"os"
	"regexp"
	"runtime"
	"strings"
	"sync"
	"sync/atomic"
	"time"

	"cuelabs.dev/go/oci/ociregistry"
	"cuelabs.dev/go/oci/ociregistry/ociunify"
	"verif/harness/hx"
)

// ---------------------------------------------------------------- schedule (the input)

type item struct {
	Ev   string `json:"ev"`            // start | ret | cancel | close | use
	M    int    `json:"m,omitempty"`   // ret: member
	Ans  string `json:"ans,omitempty"` // ret: succ | fail
	Use  string `json:"use,omitempty"` // use: partial | drain | desc
	Wait bool   `json:"wait"`
}

type input struct {
	Entry string `json:"entry"` // GetBlob GetBlobRange GetManifest ResolveBlob ResolveManifest
	K0    string `json:"k0"`    // gated | oncancel-succ | oncancel-fail
	K1    string `json:"k1"`
	Sched []item `json:"sched"`
	// S0, S1: what the member is made of (the model's prediction does not depend on it):
	// "" (the fake registry itself) | rich | seq-l | seq-r | wrap-seq-l | wrap-seq-r |
	// wrap-conc-l | wrap-conc-r - see shapes below.
	S0 string `json:"s0,omitempty"`
	S1 string `json:"s1,omitempty"`
	// F0, F1: what the member's failure looks like to errors.Is / errors.As (failKinds below).
	// The property knows success and failure only, so the prediction does not depend on it.
	F0 string `json:"f0,omitempty"`
	F1 string `json:"f1,omitempty"`
	// End: how the caller's context ends at the "cancel" event: "" - its cancel function is
	// called (Err() = context.Canceled); "deadline" - it expires (Err() = context.DeadlineExceeded).
	// "foreign" - the caller's context is not one of package context's own types (foreignCtx
	// below) and ends by its own cancel function.
	// Either way the caller has given up: the prediction does not depend on it.
	End string `json:"end,omitempty"`
	// Stall: the readers the members hand out are streams that have stalled - Read blocks until
	// the member's context is cancelled or the reader is closed (the caller does not read).
	Stall bool `json:"stall,omitempty"`
	// CloseErr makes every member reader's Close return an error (the property does not
	// depend on what Close returns; the model's prediction is the same).
	CloseErr bool `json:"close_err,omitempty"`
	// ReadErr makes every member reader's Read fail (not with io.EOF) half way through the
	// content (the same holds for what Read returns).
	ReadErr bool `json:"read_err,omitempty"`
}

// shapes of a member.  rich: the fake hands out a reader that also implements io.WriterTo,
// io.Seeker and io.ReaderAt.  seq-*/conc-*: the member is ociunify.New(fake, dud) (-l) or
// ociunify.New(dud, fake) (-r) with the sequential / concurrent read policy, dud being a
// registry that fails every read at once with the member's error: unify(unify(a, b), c).
// wrap-: behind a wrapper that passes every call through unchanged (and hides the type); the
// context observed for the member is then the one the wrapper was called with.  conc is only
// played behind the wrapper (the fake inside sees a context derived by the inner unifier) and
// only where an inner concurrent unifier behaves as a gated member: see concFits.
var shapes = []string{"", "rich", "seq-l", "seq-r", "wrap-seq-l", "wrap-seq-r", "wrap-conc-l", "wrap-conc-r"}
var uses = []string{"partial", "drain", "desc"}

func isConc(shape string) bool { return strings.HasPrefix(shape, "wrap-conc") }

// concFits: an inner concurrent unifier returns the context error as soon as its context is
// cancelled, its fake still waiting - the model has no such member kind.  It is an ordinary
// gated member in schedules where the caller does not cancel before a quiet moment at which
// the call has been made and the member's gate has been opened.
func concFits(m int, kind string, sched []item) bool {
	if kind != "gated" {
		return false
	}
	started, answered := false, false
	for _, it := range sched {
		switch {
		case it.Ev == "cancel":
			return false
		case it.Ev == "start":
			started = true
		case it.Ev == "ret" && it.M == m:
			answered = true
		}
		if started && answered && it.Wait {
			return true
		}
	}
	return true
}

// fit replaces a concurrent inner unifier by a sequential one where it would not be a gated member.
func fit(in input) input {
	if isConc(in.S0) && !concFits(0, in.K0, in.Sched) {
		in.S0 = strings.Replace(in.S0, "conc", "seq", 1)
	}
	if isConc(in.S1) && !concFits(1, in.K1, in.Sched) {
		in.S1 = strings.Replace(in.S1, "conc", "seq", 1)
	}
	return in
}

var entries = []string{"GetBlob", "GetBlobRange", "GetManifest", "ResolveBlob", "ResolveManifest"}
var kinds = []string{"gated", "oncancel-succ", "oncancel-fail"}

func isBlob(entry string) bool { return strings.HasPrefix(entry, "Get") }

// ---------------------------------------------------------------- fake members

var memberErr = [2]error{errors.New("member 0 says no"), errors.New("member 1 says no")}

// failKinds: the flavours of a member's failure.  Each is an error that still answers
// errors.Is(memberErr[i]) (that is how the harness tells whose error came back) and besides
// looks to errors.Is / errors.As / interface tests like something a real member produces:
//
//	""                 nothing else
//	ctx-canceled       wraps context.Canceled: the member's OWN cancellation (an upstream abort),
//	                   whatever the state of the context it was given
//	ctx-deadline       wraps context.DeadlineExceeded: the member's own deadline (an ociclient
//	                   over an http.Client with a Timeout, a per-request deadline)
//	timeout            a net.Error-like error (Timeout() and Temporary() true) wrapping os.ErrDeadlineExceeded
//	oci-unknown        the entry point's not-found code (BLOB_UNKNOWN / MANIFEST_UNKNOWN)
//	oci-name-unknown   NAME_UNKNOWN
//	oci-denied         DENIED
//	oci-unauthorized   UNAUTHORIZED
//	http-503           an ociregistry.HTTPError with status 503
//	range-invalid      an ociregistry.HTTPError with status 416 (answers Is(ErrRangeInvalid))
//	eof                wraps io.ErrUnexpectedEOF
var failKinds = []string{"", "ctx-canceled", "ctx-deadline", "timeout", "oci-unknown", "oci-name-unknown",
	"oci-denied", "oci-unauthorized", "http-503", "range-invalid", "eof"}

type timeoutErr struct{ error }

func (timeoutErr) Timeout() bool   { return true }
func (timeoutErr) Temporary() bool { return true }
func (e timeoutErr) Unwrap() error { return e.error }

// flavoured gives the error base (one of the harness's own sentinels) the flavour of kind.
func flavoured(base error, kind, entry string) error {
	with := func(e error) error { return fmt.Errorf("%w: %w", base, e) }
	switch kind {
	case "":
		return base
	case "ctx-canceled":
		return with(context.Canceled)
	case "ctx-deadline":
		return with(context.DeadlineExceeded)
	case "timeout":
		return timeoutErr{with(os.ErrDeadlineExceeded)}
	case "oci-unknown":
		if strings.Contains(entry, "Manifest") {
			return with(ociregistry.ErrManifestUnknown)
		}
		return with(ociregistry.ErrBlobUnknown)
	case "oci-name-unknown":
		return with(ociregistry.ErrNameUnknown)
	case "oci-denied":
		return with(ociregistry.ErrDenied)
	case "oci-unauthorized":
		return with(ociregistry.ErrUnauthorized)
	case "http-503":
		return ociregistry.NewHTTPError(base, 503, nil, nil)
	case "range-invalid":
		return ociregistry.NewHTTPError(base, 416, nil, nil)
	case "eof":
		return with(io.ErrUnexpectedEOF)
	}
	panic("unknown failure kind " + kind)
}

func memberDigest(i int) ociregistry.Digest {
	return ociregistry.Digest("sha256:" + strings.Repeat(fmt.Sprint(i), 64))
}

var errRead = errors.New("reading the member's content fails")

func memberContent(i int) string {
	return fmt.Sprintf("content of member %d, long enough to be read in several pieces", i)
}

type fakeReader struct {
	src    *bytes.Reader
	desc   ociregistry.Descriptor
	mu     sync.Mutex
	closes int
	err    error // returned by Close
	failAt int   // Read fails with rdErr once this many bytes have been delivered (-1: never)
	rdErr  error // errRead in some flavour
	served int
	// a stalled stream: Read (ReadAt, Seek) blocks until the member's context is done or the
	// reader is closed - what an HTTP body does on a connection on which nothing arrives
	stall  context.Context
	closed chan struct{}
	// what the reader sees of the context of the call that opened it (a reader over a network
	// stream releases / drains the stream under that context): sampled at the start of every
	// method for as long as the reader has not been closed - see sample
	ctx     context.Context // the context the member was called with
	caller  context.Context // the caller's context
	early   bool            // some method started with ctx cancelled while the caller's context was live
	earlyAt string          // the first such method
}

// sample is called at the start of every method of a member's reader (closing: the method is
// Close).  It looks at the context of the call that opened the reader first and at the caller's
// context second: "done" then "live" means the member's context was cancelled by somebody other
// than the caller (a context never comes back to life, so the caller's was live at the first
// look too).  Only a reader that has not been closed counts: the count of Closes is read last,
// so a Close that has completed in the meantime (after which the context is rightly cancelled)
// takes the sample out.
func (r *fakeReader) sample(method string) {
	if r.ctx == nil {
		return
	}
	dead := r.ctx.Err() != nil
	live := r.caller.Err() == nil
	r.mu.Lock()
	if r.closes == 0 && dead && live && !r.early {
		r.early, r.earlyAt = true, method
	}
	r.mu.Unlock()
}

// wait is where a stalled reader's Read waits.
//
//go:noinline
func (r *fakeReader) wait() error {
	if r.stall == nil {
		return nil
	}
	select {
	case <-r.stall.Done():
		return fmt.Errorf("%w: %w", r.rdErr, r.stall.Err())
	case <-r.closed:
		return fmt.Errorf("%w: read on a closed reader", r.rdErr)
	}
}

func (r *fakeReader) Read(buf []byte) (int, error) {
	r.sample("Read")
	if err := r.wait(); err != nil {
		return 0, err
	}
	r.mu.Lock()
	defer r.mu.Unlock()
	if r.failAt >= 0 {
		if r.served >= r.failAt {
			return 0, r.rdErr
		}
		if len(buf) > r.failAt-r.served {
			buf = buf[:r.failAt-r.served]
		}
	}
	n, err := r.src.Read(buf)
	r.served += n
	return n, err
}

func (r *fakeReader) Close() error {
	r.sample("Close")
	r.mu.Lock()
	r.closes++
	if r.closes == 1 && r.closed != nil {
		close(r.closed)
	}
	r.mu.Unlock()
	return r.err
}
func (r *fakeReader) Descriptor() ociregistry.Descriptor {
	r.sample("Descriptor")
	return r.desc
}

// richReader is a member reader with more methods than ociregistry.BlobReader asks for.
type richReader struct{ *fakeReader }

func (r richReader) WriteTo(w io.Writer) (int64, error) {
	r.sample("WriteTo")
	return io.Copy(w, struct{ io.Reader }{r.fakeReader})
}
func (r richReader) Seek(off int64, whence int) (int64, error) {
	r.sample("Seek")
	if err := r.wait(); err != nil {
		return 0, err
	}
	r.mu.Lock()
	defer r.mu.Unlock()
	return r.src.Seek(off, whence)
}
func (r richReader) ReadAt(buf []byte, off int64) (int, error) {
	r.sample("ReadAt")
	if err := r.wait(); err != nil {
		return 0, err
	}
	r.mu.Lock()
	defer r.mu.Unlock()
	return r.src.ReadAt(buf, off)
}

type member struct {
	idx      int
	onCancel bool
	answer   bool      // onCancel: the answer given once the context is done
	gate     chan bool // gated: receives the answer
	opened   bool      // harness side: the gate has been opened

	mu        sync.Mutex
	started   bool
	ctx       context.Context
	returned  bool
	retAns    bool
	deadAtRet bool
	rd        *fakeReader
	calls     int
	fail      error           // what the member fails with (memberErr[idx] in the flavour of the case)
	closeErr  error           // returned by Close of the readers this member hands out
	readErrV  error           // what Read of those readers fails with when readErr is set
	readErr   bool            // the readers this member hands out fail half way through
	rich      bool            // ... and are richReaders
	stall     bool            // ... and are stalled streams
	gid       string          // the goroutine that made the call
	caller    context.Context // the caller's context (for the readers' samples)

	// filled in by the pass-through wrapper, when there is one
	wrapped    bool
	wStarted   bool
	wReturned  bool
	wCtx       context.Context
	wDeadAtRet bool
	wGid       string
}

// call is where a member call waits; its name is looked for in the goroutine profile.
//
//go:noinline
func (m *member) call(ctx context.Context) bool {
	gid := myGID()
	m.mu.Lock()
	m.started = true
	m.ctx = ctx
	m.calls++
	m.gid = gid
	m.mu.Unlock()
	if m.onCancel {
		<-ctx.Done()
		return m.answer
	}
	return <-m.gate
}

func (m *member) finish(ctx context.Context, ans bool, rd *fakeReader) {
	m.mu.Lock()
	m.returned = true
	m.retAns = ans
	m.deadAtRet = ctx.Err() != nil
	m.rd = rd
	m.mu.Unlock()
}

func (m *member) reader(ctx context.Context) (ociregistry.BlobReader, error) {
	if m.call(ctx) {
		content := memberContent(m.idx)
		rd := &fakeReader{src: bytes.NewReader([]byte(content)),
			desc: ociregistry.Descriptor{MediaType: "application/octet-stream", Digest: memberDigest(m.idx), Size: int64(len(content))},
			err:  m.closeErr, failAt: -1, rdErr: m.readErrV, ctx: ctx, caller: m.caller}
		if m.stall {
			rd.stall, rd.closed = ctx, make(chan struct{})
		}
		if m.readErr {
			rd.failAt = len(content) / 2
		}
		m.finish(ctx, true, rd)
		if m.rich {
			return richReader{rd}, nil
		}
		return rd, nil
	}
	m.finish(ctx, false, nil)
	return nil, m.fail
}

func (m *member) descriptor(ctx context.Context) (ociregistry.Descriptor, error) {
	if m.call(ctx) {
		m.finish(ctx, true, nil)
		return ociregistry.Descriptor{MediaType: "application/octet-stream", Digest: memberDigest(m.idx), Size: 17}, nil
	}
	m.finish(ctx, false, nil)
	return ociregistry.Descriptor{}, m.fail
}

func (m *member) registry() ociregistry.Interface {
	return &ociregistry.Funcs{
		GetBlob_: func(ctx context.Context, repo string, digest ociregistry.Digest) (ociregistry.BlobReader, error) {
			return m.reader(ctx)
		},
		GetBlobRange_: func(ctx context.Context, repo string, digest ociregistry.Digest, o0, o1 int64) (ociregistry.BlobReader, error) {
			return m.reader(ctx)
		},
		GetManifest_: func(ctx context.Context, repo string, digest ociregistry.Digest) (ociregistry.BlobReader, error) {
			return m.reader(ctx)
		},
		ResolveBlob_: func(ctx context.Context, repo string, digest ociregistry.Digest) (ociregistry.Descriptor, error) {
			return m.descriptor(ctx)
		},
		ResolveManifest_: func(ctx context.Context, repo string, digest ociregistry.Digest) (ociregistry.Descriptor, error) {
			return m.descriptor(ctx)
		},
	}
}

// dud is a registry that fails every read at once, with the member's error.
func dud(fail error) ociregistry.Interface {
	rd := func() (ociregistry.BlobReader, error) { return nil, fail }
	ds := func() (ociregistry.Descriptor, error) { return ociregistry.Descriptor{}, fail }
	return &ociregistry.Funcs{
		GetBlob_: func(ctx context.Context, repo string, digest ociregistry.Digest) (ociregistry.BlobReader, error) {
			return rd()
		},
		GetBlobRange_: func(ctx context.Context, repo string, digest ociregistry.Digest, o0, o1 int64) (ociregistry.BlobReader, error) {
			return rd()
		},
		GetManifest_: func(ctx context.Context, repo string, digest ociregistry.Digest) (ociregistry.BlobReader, error) {
			return rd()
		},
		ResolveBlob_: func(ctx context.Context, repo string, digest ociregistry.Digest) (ociregistry.Descriptor, error) {
			return ds()
		},
		ResolveManifest_: func(ctx context.Context, repo string, digest ociregistry.Digest) (ociregistry.Descriptor, error) {
			return ds()
		},
	}
}

// wrapReg passes every call through to the registry inside it, unchanged, noting for the
// five read entry points the context it was called with and the moment the call came back.
type wrapReg struct {
	ociregistry.Interface
	m *member
}

func (w *wrapReg) enter(ctx context.Context) {
	gid := myGID()
	w.m.mu.Lock()
	w.m.wStarted = true
	w.m.wCtx = ctx
	w.m.wGid = gid
	w.m.mu.Unlock()
}

func (w *wrapReg) leave(ctx context.Context) {
	w.m.mu.Lock()
	w.m.wReturned = true
	w.m.wDeadAtRet = ctx.Err() != nil
	w.m.mu.Unlock()
}

func (w *wrapReg) GetBlob(ctx context.Context, repo string, digest ociregistry.Digest) (ociregistry.BlobReader, error) {
	w.enter(ctx)
	defer w.leave(ctx)
	return w.Interface.GetBlob(ctx, repo, digest)
}

func (w *wrapReg) GetBlobRange(ctx context.Context, repo string, digest ociregistry.Digest, o0, o1 int64) (ociregistry.BlobReader, error) {
	w.enter(ctx)
	defer w.leave(ctx)
	return w.Interface.GetBlobRange(ctx, repo, digest, o0, o1)
}

func (w *wrapReg) GetManifest(ctx context.Context, repo string, digest ociregistry.Digest) (ociregistry.BlobReader, error) {
	w.enter(ctx)
	defer w.leave(ctx)
	return w.Interface.GetManifest(ctx, repo, digest)
}

func (w *wrapReg) ResolveBlob(ctx context.Context, repo string, digest ociregistry.Digest) (ociregistry.Descriptor, error) {
	w.enter(ctx)
	defer w.leave(ctx)
	return w.Interface.ResolveBlob(ctx, repo, digest)
}

func (w *wrapReg) ResolveManifest(ctx context.Context, repo string, digest ociregistry.Digest) (ociregistry.Descriptor, error) {
	w.enter(ctx)
	defer w.leave(ctx)
	return w.Interface.ResolveManifest(ctx, repo, digest)
}

// build makes the member's registry according to its shape.
func (m *member) build(shape string) ociregistry.Interface {
	leaf := m.registry()
	switch shape {
	case "":
		return leaf
	case "rich":
		m.rich = true
		return leaf
	}
	policy := ociunify.ReadSequential
	if strings.Contains(shape, "conc") {
		policy = ociunify.ReadConcurrent
	}
	var inner ociregistry.Interface
	if strings.HasSuffix(shape, "-l") {
		inner = ociunify.New(leaf, dud(m.fail), &ociunify.Options{ReadPolicy: policy})
	} else {
		inner = ociunify.New(dud(m.fail), leaf, &ociunify.Options{ReadPolicy: policy})
	}
	if strings.HasPrefix(shape, "wrap-") {
		m.wrapped = true
		return &wrapReg{Interface: inner, m: m}
	}
	return inner
}

func newMember(i int, kind string) *member {
	m := &member{idx: i, gate: make(chan bool, 1), fail: memberErr[i], readErrV: errRead}
	switch kind {
	case "oncancel-succ":
		m.onCancel, m.answer = true, true
	case "oncancel-fail":
		m.onCancel, m.answer = true, false
	}
	return m
}

// ---------------------------------------------------------------- the caller's context

// expiringCtx is a caller's context that ends by running out of time, at the moment the
// harness says so (a context.WithDeadline would need a real timer).  It offers AfterFunc, which
// is how package context (Go 1.21 and later) hooks a derived context to a parent that is not
// its own: no helper goroutine, and - as with a standard parent - the derived contexts are done
// before expire returns.
type expiringCtx struct {
	mu    sync.Mutex
	done  chan struct{}
	err   error
	funcs map[int]func()
	next  int
	when  time.Time
}

func newExpiringCtx() *expiringCtx {
	return &expiringCtx{done: make(chan struct{}), funcs: map[int]func(){}, when: time.Now().Add(time.Hour)}
}

func (c *expiringCtx) Deadline() (time.Time, bool) { return c.when, true }
func (c *expiringCtx) Done() <-chan struct{}       { return c.done }
func (c *expiringCtx) Value(any) any               { return nil }
func (c *expiringCtx) Err() error {
	c.mu.Lock()
	defer c.mu.Unlock()
	return c.err
}

func (c *expiringCtx) AfterFunc(f func()) (stop func() bool) {
	c.mu.Lock()
	defer c.mu.Unlock()
	if c.err != nil {
		go f()
		return func() bool { return false }
	}
	id := c.next
	c.next++
	c.funcs[id] = f
	return func() bool {
		c.mu.Lock()
		defer c.mu.Unlock()
		_, ok := c.funcs[id]
		delete(c.funcs, id)
		return ok
	}
}

func (c *expiringCtx) expire() {
	c.mu.Lock()
	if c.err != nil {
		c.mu.Unlock()
		return
	}
	c.err = context.DeadlineExceeded
	close(c.done)
	fs := c.funcs
	c.funcs = nil
	c.mu.Unlock()
	for _, f := range fs {
		f()
	}
}

// foreignCtx is a caller's context that is not one of package context's own types and offers
// no AfterFunc: its own Done channel, the way a framework's request context or a merged
// context is made.  Package context hooks a derived context to such a parent with a goroutine
// of its own (propagateCancel) that stays parked until the parent or the derived context is
// done - so a derived context that nobody cancels is a goroutine in the profile for as long as
// the caller's context lives.
type foreignCtx struct {
	mu   sync.Mutex
	done chan struct{}
	err  error
}

func newForeignCtx() *foreignCtx { return &foreignCtx{done: make(chan struct{})} }

func (c *foreignCtx) Deadline() (time.Time, bool) { return time.Time{}, false }
func (c *foreignCtx) Done() <-chan struct{}       { return c.done }
func (c *foreignCtx) Value(any) any               { return nil }
func (c *foreignCtx) Err() error {
	c.mu.Lock()
	defer c.mu.Unlock()
	return c.err
}

func (c *foreignCtx) cancel() {
	c.mu.Lock()
	defer c.mu.Unlock()
	if c.err == nil {
		c.err = context.Canceled
		close(c.done)
	}
}

// ownTimer: the context carries a deadline that the caller's context does not have.
func ownTimer(ctx, caller context.Context) bool {
	d, ok := ctx.Deadline()
	if !ok {
		return false
	}
	cd, cok := caller.Deadline()
	return !cok || !d.Equal(cd)
}

// ---------------------------------------------------------------- goroutine profile

var hdrRe = regexp.MustCompile(`^goroutine (\d+) \[([^\],]+)`)

var waitingStates = map[string]bool{
	"chan receive": true, "chan send": true, "select": true, "semacquire": true,
	"chan receive (nil chan)": true, "chan send (nil chan)": true, "select (no cases)": true,
	"sync.Mutex.Lock": true, "sync.RWMutex.RLock": true, "sync.RWMutex.Lock": true,
	"sync.Cond.Wait": true, "sync.WaitGroup.Wait": true, "IO wait": true, "sleep": true,
}

type gor struct {
	id      string
	state   string
	creator string // id of the goroutine that started it ("" for the main goroutine)
	inLeaf  bool   // inside the fake registry's call
	inWrap  bool   // inside a pass-through wrapper
	fwd     bool   // package context's goroutine forwarding a foreign parent's cancellation
}

var creatorRe = regexp.MustCompile(`(?m)^created by .* in goroutine (\d+)$`)

// myGID is the id of the calling goroutine.  It is called from goroutines of the case under
// observation, so it must not touch anything the harness goroutine locks while it reads the
// profile (regexp and fmt keep pools behind mutexes): a goroutine parked on such a lock for
// a moment would pass for a blocked one.
func myGID() string {
	var buf [64]byte
	n := runtime.Stack(buf[:], false)
	s := strings.TrimPrefix(string(buf[:n]), "goroutine ")
	if i := strings.IndexByte(s, ' '); i > 0 {
		return s[:i]
	}
	return "?"
}

var stackBuf = make([]byte, 1<<20)

// profile lists all goroutines; the first one is the caller.
func profile() []gor {
	for {
		n := runtime.Stack(stackBuf, true)
		if n < len(stackBuf) {
			var out []gor
			for _, blk := range strings.Split(string(stackBuf[:n]), "\n\n") {
				m := hdrRe.FindStringSubmatch(blk)
				if m == nil {
					continue
				}
				g := gor{id: m[1], state: m[2], inLeaf: strings.Contains(blk, "main.(*member).call("),
					inWrap: strings.Contains(blk, "main.(*wrapReg)."),
					fwd:    strings.Contains(blk, "context.(*cancelCtx).propagateCancel.func")}
				if c := creatorRe.FindStringSubmatch(blk); c != nil {
					g.creator = c[1]
				}
				out = append(out, g)
			}
			return out
		}
		stackBuf = make([]byte, 2*len(stackBuf))
	}
}

// settle waits until every goroutine other than the caller is blocked (or gone).  Nothing in
// the system under test uses timers, so such a moment is stable until the harness acts.
func settle(limit time.Duration) ([]gor, bool) {
	deadline := time.Now().Add(limit)
	var prev []gor
	for {
		runtime.Gosched()
		p := profile()
		quiet := true
		for _, g := range p[1:] {
			if !waitingStates[g.state] {
				quiet = false
				break
			}
		}
		// two profiles in a row must show the same goroutines, all blocked: a goroutine that
		// was parked only for an instant (on a lock inside the runtime or a library that the
		// harness goroutine happened to hold) has moved on by the second look
		if quiet && prev != nil && sameGoroutines(prev, p) {
			return p, true
		}
		if quiet {
			prev = p
		} else {
			prev = nil
		}
		if time.Now().After(deadline) {
			return p, false
		}
	}
}

func sameGoroutines(a, b []gor) bool {
	if len(a) != len(b) {
		return false
	}
	for i := range a {
		if a[i].id != b[i].id || a[i].state != b[i].state || a[i].inLeaf != b[i].inLeaf || a[i].inWrap != b[i].inWrap {
			return false
		}
	}
	return true
}

// ---------------------------------------------------------------- one case

type msnap struct {
	Started   bool   `json:"started"`
	Ret       string `json:"ret"` // "" | succ | fail
	DeadAtRet bool   `json:"ctx_done_at_return"`
	Dead      bool   `json:"ctx_done_now"`
	Reader    string `json:"reader"` // none | open | closed | closed-twice
	// the context given to the member carries a deadline that the caller's context does not have
	Timer bool `json:"ctx_has_own_deadline"`
	// foreign caller context: package context's forwarding goroutine for this member's context
	// is parked (the context has not been cancelled)
	Fwd bool `json:"ctx_forwarder_parked,omitempty"`
	// some method of the reader the member handed out (Close above all) started, the reader
	// not yet closed, with the member's context already cancelled while the caller's was live;
	// which method it was
	Early   bool   `json:"ctx_cancelled_under_open_reader"`
	EarlyAt string `json:"ctx_cancelled_under_open_reader_seen_by,omitempty"`
}

type snapshot struct {
	After     string `json:"after"`
	Quiet     bool   `json:"quiet"`
	Started   bool   `json:"started"`
	Cancelled bool   `json:"cancelled"`
	Closed    bool   `json:"closed"`
	Res       string `json:"result"` // none | ok0 | ok1 | err0 | err1 | errctx | other:<what>
	M         [2]msnap
	Live      int `json:"goroutines_alive"`
	InMember  int `json:"goroutines_in_member_call"`
}

type runResult struct {
	snaps        []snapshot
	leftover     int // goroutines of this case still alive after the harness's own clean-up
	numGoroutine int
}

// settleLimit is how long the harness waits for a quiet moment.  Nothing in the system under
// test spins or sleeps, so on an idle machine a quiet moment arrives within microseconds; the
// limit only matters when the machine is so loaded that a runnable goroutine is not scheduled.
func settleLimit() time.Duration { return 30 * time.Second }

func runCase(in input) runResult {
	base := map[string]bool{}
	for _, g := range profile() {
		base[g.id] = true
	}
	ms := [2]*member{newMember(0, in.K0), newMember(1, in.K1)}
	for i, fk := range []string{in.F0, in.F1} {
		ms[i].fail = flavoured(memberErr[i], fk, in.Entry)
		ms[i].readErrV = flavoured(errRead, fk, in.Entry)
		if in.CloseErr {
			ms[i].closeErr = flavoured(fmt.Errorf("close of member %d's reader fails", i), fk, in.Entry)
		}
	}
	ms[0].readErr, ms[1].readErr = in.ReadErr, in.ReadErr
	ms[0].stall, ms[1].stall = in.Stall, in.Stall
	foreign := in.End == "foreign"
	u := ociunify.New(ms[0].build(in.S0), ms[1].build(in.S1), &ociunify.Options{ReadPolicy: ociunify.ReadConcurrent})
	harnessGID := myGID()
	var ctx context.Context
	var cancel func()
	ctxEnd := context.Canceled // what the caller's context says once the caller has given up
	if in.End == "deadline" {
		ec := newExpiringCtx()
		ctx, cancel, ctxEnd = ec, ec.expire, context.DeadlineExceeded
	} else if foreign {
		fc := newForeignCtx()
		ctx, cancel = fc, fc.cancel
	} else {
		ctx, cancel = context.WithCancel(context.Background())
	}
	defer cancel()
	ms[0].caller, ms[1].caller = ctx, ctx

	var (
		started, cancelled, closeIssued bool
		callDone                        = make(chan struct{})
		closeDone                       = make(chan struct{})
		rd                              ociregistry.BlobReader
		desc                            ociregistry.Descriptor
		err                             error
		panicked                        bool
		pval                            string
		callGID                         atomic.Value // string: id of the goroutine running the call

		// use of the returned reader: one operation at a time, each in its own goroutine
		useMu    sync.Mutex
		useDone  chan struct{} // of the operation issued last
		consumed []byte        // what the caller has read so far
		useBad   string        // the returned reader misbehaved as a reader
	)
	isDone := func(c chan struct{}) bool {
		select {
		case <-c:
			return true
		default:
			return false
		}
	}
	blob := isBlob(in.Entry)
	theCall := func() {
		defer close(callDone)
		callGID.Store(myGID())
		panicked, pval = hx.Recover(func() {
			dig := ociregistry.Digest("sha256:" + strings.Repeat("a", 64))
			switch in.Entry {
			case "GetBlob":
				rd, err = u.GetBlob(ctx, "repo", dig)
			case "GetBlobRange":
				rd, err = u.GetBlobRange(ctx, "repo", dig, 1, 5)
			case "GetManifest":
				rd, err = u.GetManifest(ctx, "repo", dig)
			case "ResolveBlob":
				desc, err = u.ResolveBlob(ctx, "repo", dig)
			case "ResolveManifest":
				desc, err = u.ResolveManifest(ctx, "repo", dig)
			default:
				panic("unknown entry " + in.Entry)
			}
		})
	}
	result := func() string {
		if !isDone(callDone) {
			return "none"
		}
		useMu.Lock()
		bad := useBad
		useMu.Unlock()
		switch {
		case panicked:
			return "other:panic " + pval
		case bad != "":
			return "other:" + bad
		case err == nil:
			var d ociregistry.Digest
			if blob {
				if rd == nil {
					return "other:nil reader and nil error"
				}
				d = rd.Descriptor().Digest
			} else {
				d = desc.Digest
			}
			for i := 0; i < 2; i++ {
				if d == memberDigest(i) {
					return fmt.Sprintf("ok%d", i)
				}
			}
			return "other:answer of neither member"
		case blob && rd != nil:
			return "other:reader returned with an error"
		case errors.Is(err, memberErr[0]) && errors.Is(err, memberErr[1]):
			return "other:error of both members"
		case errors.Is(err, memberErr[0]):
			return "err0"
		case errors.Is(err, memberErr[1]):
			return "err1"
		case errors.Is(err, ctxEnd):
			return "errctx"
		}
		return "other:error " + err.Error()
	}
	observe := func(after string) snapshot {
		p, quiet := settle(settleLimit())
		s := snapshot{After: after, Quiet: quiet, Started: started, Cancelled: cancelled, Closed: isDone(closeDone), Res: result()}
		cg, _ := callGID.Load().(string)
		var senderGID [2]string
		for i, m := range ms {
			m.mu.Lock()
			senderGID[i] = m.gid
			if m.wrapped {
				senderGID[i] = m.wGid
			}
			m.mu.Unlock()
		}
		var fwdParked [2]bool
		for _, g := range p[1:] {
			if base[g.id] {
				continue
			}
			if g.fwd {
				// the forwarder of the context that member i's sender derived from the caller's
				// is not a goroutine of the protocol: it is how that context's state shows in the
				// profile (parked = not cancelled).  Any other forwarder is one too many.
				mine := false
				for i := range ms {
					if g.creator != "" && g.creator == senderGID[i] && !fwdParked[i] {
						fwdParked[i], mine = true, true
						break
					}
				}
				if !mine {
					s.Live++
				}
				continue
			}
			// goroutines of the call under test are started by the harness (the call, Close,
			// Read) or by the call's goroutine (the senders); anything else was started from
			// inside a member (an inner concurrent unifier's senders) and is that member's
			// own business as long as it is inside the fake's call
			own := g.creator == harnessGID || g.creator == cg
			if !own && g.inLeaf && !g.inWrap {
				continue
			}
			s.Live++
			if g.inWrap || (own && g.inLeaf) {
				s.InMember++
			}
		}
		for i, m := range ms {
			m.mu.Lock()
			x := msnap{Started: m.started, Reader: "none"}
			if m.returned {
				x.Ret = map[bool]string{true: "succ", false: "fail"}[m.retAns]
				x.DeadAtRet = m.deadAtRet
			}
			if m.started {
				x.Dead = m.ctx.Err() != nil
				x.Timer = ownTimer(m.ctx, ctx)
			}
			if m.wrapped {
				// the context the unifier under test gave to this member is the wrapper's
				x.Started = m.wStarted
				if m.wStarted {
					x.Dead = m.wCtx.Err() != nil
					x.Timer = ownTimer(m.wCtx, ctx)
				}
				if m.wReturned != m.returned {
					x.Reader = "wrapper-and-fake-differ"
				} else if m.wReturned {
					x.DeadAtRet = m.wDeadAtRet
				}
			}
			x.Fwd = fwdParked[i]
			if foreign && x.Started && x.Dead == x.Fwd {
				// under a foreign caller context a derived context is live exactly as long as
				// its forwarder is parked
				x.Reader = "ctx-and-forwarder-differ"
			}
			if x.Reader != "none" {
			} else if m.calls > 1 {
				x.Reader = "called-more-than-once"
			} else if m.rd != nil {
				m.rd.mu.Lock()
				x.Early, x.EarlyAt = m.rd.early, m.rd.earlyAt
				switch m.rd.closes {
				case 0:
					x.Reader = "open"
				case 1:
					x.Reader = "closed"
				default:
					x.Reader = "closed-twice"
				}
				m.rd.mu.Unlock()
			}
			m.mu.Unlock()
			s.M[i] = x
		}
		return s
	}
	openGate := func(i int, ans bool) {
		if ms[i].onCancel || ms[i].opened {
			return
		}
		ms[i].opened = true
		ms[i].gate <- ans
	}
	useBusy := func() bool { return useDone != nil && !isDone(useDone) }
	useReader := func(how string) {
		if closeIssued || !blob || !isDone(callDone) || panicked || err != nil || rd == nil || useBusy() {
			return
		}
		if in.Stall {
			how = "desc" // the caller of a stalled stream does not read (stalled rewrites the schedule accordingly)
		}
		var want string
		for i := 0; i < 2; i++ {
			if rd.Descriptor().Digest == memberDigest(i) {
				want = memberContent(i)
			}
		}
		done := make(chan struct{})
		useDone = done
		go func() {
			defer close(done)
			var got []byte
			var rerr error
			var d ociregistry.Descriptor
			pn, pv := hx.Recover(func() {
				switch how {
				case "partial":
					buf := make([]byte, 5)
					var n int
					n, rerr = io.ReadFull(rd, buf)
					got = buf[:n]
				case "drain":
					got, rerr = io.ReadAll(rd)
				case "desc":
					d = rd.Descriptor()
				}
			})
			useMu.Lock()
			defer useMu.Unlock()
			consumed = append(consumed, got...)
			switch {
			case pn:
				useBad = "use of the returned reader panics: " + pv
			case !strings.HasPrefix(want, string(consumed)):
				useBad = "the returned reader does not deliver the chosen member's content"
			case how == "drain" && !in.ReadErr && (rerr != nil || string(consumed) != want):
				useBad = "the returned reader does not deliver all of the chosen member's content"
			case how == "drain" && in.ReadErr && !errors.Is(rerr, errRead):
				useBad = "the returned reader hides the member reader's error"
			case how == "desc" && want != "" && d.Size != int64(len(want)):
				useBad = "the returned reader's descriptor is not the chosen member's"
			}
		}()
	}
	closeReader := func() {
		if useBusy() {
			return
		}
		if closeIssued || !blob || !isDone(callDone) || panicked || err != nil || rd == nil {
			return
		}
		closeIssued = true
		go func() {
			defer close(closeDone)
			hx.Recover(func() { rd.Close() })
		}()
	}

	var res runResult
	for _, it := range in.Sched {
		switch it.Ev {
		case "start":
			if !started {
				started = true
				go theCall()
			}
		case "ret":
			openGate(it.M, it.Ans == "succ")
		case "cancel":
			if !cancelled {
				cancelled = true
				cancel()
			}
		case "close":
			closeReader()
		case "use":
			useReader(it.Use)
		}
		if it.Wait {
			res.snaps = append(res.snaps, observe(evName(it)))
		}
	}
	// clean-up outside the case: let everything that can still finish do so
	openGate(0, false)
	openGate(1, false)
	cancel()
	settle(settleLimit())
	closeReader()
	p, _ := settle(settleLimit())
	for _, g := range p[1:] {
		if !base[g.id] {
			res.leftover++
		}
	}
	res.numGoroutine = runtime.NumGoroutine()
	return res
}

func shapeClass(sh string) string {
	switch {
	case sh == "":
		return "fake"
	case sh == "rich":
		return "rich"
	case isConc(sh):
		return "inner-conc"
	}
	return "inner-seq"
}

func evName(it item) string {
	if it.Ev == "ret" {
		return fmt.Sprintf("ret%d-%s", it.M, it.Ans)
	}
	if it.Ev == "use" {
		return "use-" + it.Use
	}
	return it.Ev
}

// ---------------------------------------------------------------- Coq printing

func coqKind(k string) string {
	switch k {
	case "oncancel-succ":
		return "(OnCancel Succ)"
	case "oncancel-fail":
		return "(OnCancel Fail)"
	}
	return "Gated"
}

func coqEv(it item) string {
	switch it.Ev {
	case "start":
		return "EStart"
	case "ret":
		a := "Fail"
		if it.Ans == "succ" {
			a = "Succ"
		}
		return fmt.Sprintf("ERet M%d %s", it.M, a)
	case "cancel":
		return "ECancel"
	case "use":
		return "(EUse " + map[string]string{"partial": "UPartial", "drain": "UDrain", "desc": "UDesc"}[it.Use] + ")"
	}
	return "EClose"
}

func coqShape(sh string) string {
	switch sh {
	case "":
		return "ShLeaf"
	case "rich":
		return "ShRich"
	}
	l := hx.Bool(strings.HasSuffix(sh, "-l"))
	if isConc(sh) {
		return "(ShConc " + l + ")"
	}
	return "(ShSeq " + hx.Bool(strings.HasPrefix(sh, "wrap-")) + " " + l + ")"
}

func coqFail(k string) string {
	return map[string]string{"": "FkPlain", "ctx-canceled": "FkCtxCanceled", "ctx-deadline": "FkCtxDeadline",
		"timeout": "FkTimeout", "oci-unknown": "FkOciUnknown", "oci-name-unknown": "FkOciNameUnknown",
		"oci-denied": "FkOciDenied", "oci-unauthorized": "FkOciUnauthorized", "http-503": "FkHttp503",
		"range-invalid": "FkRange", "eof": "FkEof"}[k]
}

func coqRes(r string) string {
	switch r {
	case "none":
		return "(Some RNone)"
	case "ok0":
		return "(Some (ROk M0))"
	case "ok1":
		return "(Some (ROk M1))"
	case "err0":
		return "(Some (RErrM M0))"
	case "err1":
		return "(Some (RErrM M1))"
	case "errctx":
		return "(Some RErrCtx)"
	}
	return "None"
}

func coqMsnap(m msnap) string {
	ret := "NotRet"
	switch m.Ret {
	case "succ":
		ret = "(Ret Succ)"
	case "fail":
		ret = "(Ret Fail)"
	}
	rd := map[string]string{"none": "RdNone", "open": "RdOpen", "closed": "RdClosed", "closed-twice": "RdTwice",
		"called-more-than-once": "RdTwice", "wrapper-and-fake-differ": "RdTwice", "ctx-and-forwarder-differ": "RdTwice"}[m.Reader]
	return fmt.Sprintf("(mkMsnap %s %s %s %s %s %s %s)", hx.Bool(m.Started), ret, hx.Bool(m.DeadAtRet), hx.Bool(m.Dead), rd, hx.Bool(m.Timer), hx.Bool(m.Early))
}

func coqSnap(s snapshot) string {
	return fmt.Sprintf("(mkSnap %s %s %s %s %s %s %s %d %d)", hx.Bool(s.Quiet), hx.Bool(s.Started), hx.Bool(s.Cancelled),
		hx.Bool(s.Closed), coqRes(s.Res), coqMsnap(s.M[0]), coqMsnap(s.M[1]), s.Live, s.InMember)
}

func coqCase(in input, snaps []snapshot) string {
	var evs, sn []string
	for _, it := range in.Sched {
		evs = append(evs, fmt.Sprintf("(%s, %s)", coqEv(it), hx.Bool(it.Wait)))
	}
	for _, s := range snaps {
		sn = append(sn, coqSnap(s))
	}
	return fmt.Sprintf("{| c_entry := %s; c_k0 := %s; c_k1 := %s; c_sh0 := %s; c_sh1 := %s; c_f0 := %s; c_f1 := %s; c_end := %s; c_stall := %s; c_sched := %s; c_snaps := %s |}",
		in.Entry, coqKind(in.K0), coqKind(in.K1), coqShape(in.S0), coqShape(in.S1), coqFail(in.F0), coqFail(in.F1),
		map[string]string{"": "EndCancel", "deadline": "EndDeadline", "foreign": "EndForeign"}[in.End], hx.Bool(in.Stall), hx.List(evs), hx.List(sn))
}

// ---------------------------------------------------------------- generation

func permutations(xs []item) [][]item {
	if len(xs) <= 1 {
		return [][]item{append([]item{}, xs...)}
	}
	var out [][]item
	for i := range xs {
		rest := append(append([]item{}, xs[:i]...), xs[i+1:]...)
		for _, p := range permutations(rest) {
			out = append(out, append([]item{xs[i]}, p...))
		}
	}
	return out
}

// enumerate yields, for one entry point, every schedule of the property's quantifier: member
// kinds x answers x every order of {the gated members' answers, the caller's cancellation,
// the caller's Close}, with the cancellation also before the call is made; every event waited
// for.  The cancellation placed last is the "no cancellation" run (its last snapshot aside).
func enumerate(entry string, emit func(input)) {
	anss := []string{"succ", "fail"}
	for _, k0 := range kinds {
		for _, k1 := range kinds {
			a0s, a1s := []string{""}, []string{""}
			if k0 == "gated" {
				a0s = anss
			}
			if k1 == "gated" {
				a1s = anss
			}
			for _, a0 := range a0s {
				for _, a1 := range a1s {
					var items []item
					if a0 != "" {
						items = append(items, item{Ev: "ret", M: 0, Ans: a0, Wait: true})
					}
					if a1 != "" {
						items = append(items, item{Ev: "ret", M: 1, Ans: a1, Wait: true})
					}
					if isBlob(entry) {
						items = append(items, item{Ev: "close", Wait: true})
					}
					start := item{Ev: "start", Wait: true}
					cancel := item{Ev: "cancel", Wait: true}
					for _, p := range permutations(append(append([]item{}, items...), cancel)) {
						emit(input{Entry: entry, K0: k0, K1: k1, Sched: append([]item{start}, p...)})
					}
					for _, p := range permutations(items) {
						emit(input{Entry: entry, K0: k0, K1: k1, Sched: append([]item{cancel, start}, p...)})
					}
				}
			}
		}
	}
}

// withUses puts a use of the returned reader after every waited-for event that follows the
// start (the harness skips it while no reader is held); which use rotates.
func withUses(sched []item, salt int) []item {
	var out []item
	started := false
	for j, it := range sched {
		out = append(out, it)
		if it.Ev == "start" {
			started = true
		}
		if started && it.Wait {
			out = append(out, item{Ev: "use", Use: uses[(j+salt)%len(uses)], Wait: true})
		}
	}
	return out
}

// ends: the ways the caller's context is made and ends (every schedule of the enumeration is
// played with each of them over three consecutive rounds).
var ends = []string{"deadline", "foreign", ""}

// stalled makes the members' readers stalled streams; the caller of a stalled stream does not
// read it, so the uses become requests for the descriptor.  Only the reader-style entry points
// hand out readers.
func stalled(in input) input {
	if !isBlob(in.Entry) {
		return in
	}
	in.Stall, in.ReadErr = true, false
	sched := append([]item{}, in.Sched...)
	for j := range sched {
		if sched[j].Ev == "use" {
			sched[j].Use = "desc"
		}
	}
	in.Sched = sched
	return in
}

// flavourMatrix yields, for one entry point, the schedules in which the flavour of a failure
// could matter to a unifier that looked at it - both members gated, no cancellation until the
// end: one member fails and the other succeeds (every flavour x which member fails x which
// answers first), both fail (every flavour paired with itself and with the next one x both
// orders); then the caller's Close where there is a reader, then the cancellation.
func flavourMatrix(entry string, emit func(input)) {
	tail := []item{{Ev: "cancel", Wait: true}}
	if isBlob(entry) {
		tail = append([]item{{Ev: "close", Wait: true}}, tail...)
	}
	played := 0
	play := func(f0, f1, a0, a1 string, first int) {
		rets := []item{{Ev: "ret", M: 0, Ans: a0, Wait: true}, {Ev: "ret", M: 1, Ans: a1, Wait: true}}
		if first == 1 {
			rets[0], rets[1] = rets[1], rets[0]
		}
		sched := append(append([]item{{Ev: "start", Wait: true}}, rets...), tail...)
		in := input{Entry: entry, K0: "gated", K1: "gated", F0: f0, F1: f1, Sched: sched}
		played++
		in.End = ends[played%3]
		if played%4 < 2 {
			in = stalled(in)
		}
		emit(in)
	}
	for j, fk := range failKinds {
		next := failKinds[(j+1)%len(failKinds)]
		for first := 0; first < 2; first++ {
			play(fk, next, "fail", "succ", first)
			play(next, fk, "succ", "fail", first)
			play(fk, fk, "fail", "fail", first)
			play(fk, next, "fail", "fail", first)
		}
	}
}

// firstAnswer: the member whose answer the schedule lets out first after the call is made,
// the caller's context being live until then - and whether that answer is a failure while the
// other member's is a success (gated members only: the others answer after a cancellation).
func firstAnswer(in input) (m int, failsAlone bool, ok bool) {
	started := false
	ans := map[int]string{}
	for _, it := range in.Sched {
		if it.Ev == "ret" {
			ans[it.M] = it.Ans
		}
	}
	for _, it := range in.Sched {
		switch it.Ev {
		case "start":
			started = true
		case "cancel":
			return 0, false, false
		case "ret":
			if k := []string{in.K0, in.K1}[it.M]; k != "gated" {
				continue
			}
			if !started {
				return 0, false, false // ready when the call starts: no saying which answer is taken first
			}
			other := []string{in.K0, in.K1}[1-it.M]
			return it.M, it.Ans == "fail" && (ans[1-it.M] == "succ" && other == "gated" || other == "oncancel-succ"), true
		}
	}
	return 0, false, false
}

func main() {
	cfg := hx.ParseFlags()
	out := hx.NewOut(cfg, "Obs.C16")
	out.ShardMax = 300 // burst cases are expensive for the model to predict: more, smaller shards
	maxLeft, maxNum := 0, 0
	discarded := 0
	// Goroutines that a case leaves behind stay in the profile for good, and every later
	// quiescence test has to read past them: once a few hundred have piled up (each of them is
	// a violation that the cases recorded so far already show) the harness stops producing
	// cases instead of crawling to its time limit.
	leaked, stopped := 0, false
	add := func(in input, origin string) {
		if stopped {
			return
		}
		r := runCase(in)
		leaked += r.leftover
		if leaked > 300 {
			stopped = true
		}
		for _, s := range r.snaps {
			if !s.Quiet {
				// no quiet moment within the limit: the snapshot was taken while a goroutine was
				// still runnable, so it describes no state of the protocol; the run is not an
				// observation (counted, and the harness fails below if it happens more than rarely)
				discarded++
				out.Count("discarded-not-quiet")
				return
			}
		}
		if r.leftover > maxLeft {
			maxLeft = r.leftover
		}
		if r.numGoroutine > maxNum {
			maxNum = r.numGoroutine
		}
		style := "resolve"
		if isBlob(in.Entry) {
			style = "blob"
		}
		final := "none"
		if n := len(r.snaps); n > 0 {
			final = r.snaps[n-1].Res
			if strings.HasPrefix(final, "other") {
				final = "other"
			}
		}
		c := hx.Case{Coq: coqCase(in, r.snaps),
			Desc: map[string]any{"input": in, "observed": r.snaps, "origin": origin,
				"goroutines_left_after_cleanup": r.leftover},
			Tags: map[string]any{"class": style + "/" + in.K0 + "," + in.K1, "entry": in.Entry, "final": final}}
		if out.Add(c) {
			out.Count("entry:" + in.Entry)
			out.Count("kinds:" + in.K0 + "," + in.K1)
			out.Count("origin:" + origin)
			out.Count("shapes:" + shapeClass(in.S0) + "," + shapeClass(in.S1))
			out.Count("caller-context-ends-by:" + map[string]string{"": "cancel", "deadline": "deadline", "foreign": "cancel-of-a-foreign-context"}[in.End])
			if in.Stall {
				out.Count("member-readers:stalled-stream")
			}
			out.Count("failure-flavour-m0:" + in.F0)
			out.Count("failure-flavour-m1:" + in.F1)
			if m, alone, ok := firstAnswer(in); ok && alone {
				// the schedules in which an error-sniffing unifier would go wrong
				out.Count("first-answer-fails-other-would-succeed:" + in.Entry + ":" + []string{in.F0, in.F1}[m])
			}
			if in.CloseErr {
				out.Count("member-readers:close-fails")
			}
			if in.ReadErr {
				out.Count("member-readers:read-fails")
			}
			for _, it := range in.Sched {
				if it.Ev == "use" {
					out.Count("with-use-of-returned-reader")
					break
				}
			}
			out.Count("final:" + final)
			out.Count(fmt.Sprintf("events:%d", len(in.Sched)))
			for _, s := range r.snaps {
				if !s.Quiet {
					out.Count("snapshot-not-quiet")
				}
			}
		}
	}
	finish := func() {
		out.Extra["discarded_not_quiet"] = discarded
		if discarded > 5 && discarded*100 > out.Len() {
			fmt.Fprintf(os.Stderr, "c16: %d of %d runs never reached a quiet moment within %v\n", discarded, out.Len()+discarded, settleLimit())
			os.Exit(3)
		}
		out.Extra["max_goroutines_left_after_cleanup"] = maxLeft
		out.Extra["goroutines_left_after_cleanup_total"] = leaked
		out.Extra["stopped_early_because_of_leaked_goroutines"] = stopped
		out.Extra["max_runtime_NumGoroutine_after_case"] = maxNum
		if err := out.Flush(); err != nil {
			panic(err)
		}
	}
	readInput := func(b []byte) (input, bool) {
		var r struct {
			Input input `json:"input"`
		}
		if json.Unmarshal(b, &r) != nil || r.Input.Entry == "" {
			return input{}, false
		}
		return r.Input, true
	}
	if cfg.Replay != "" {
		b, err := os.ReadFile(cfg.Replay)
		if err != nil {
			panic(err)
		}
		in, ok := readInput(b)
		if !ok {
			panic("replay file has no input")
		}
		for i := 0; i < 20; i++ { // the same schedule may be answered in more than one way
			add(in, "replay")
		}
		finish()
		return
	}
	for _, raw := range hx.LoadCorpus(cfg.Corpus) {
		if in, ok := readInput(raw); ok {
			add(in, "corpus")
		}
	}
	// The enumeration is played several times (Go's select may answer one schedule in several
	// ways), each time in another setting that the model's prediction does not depend on:
	//   0: as it is;  1: member readers whose Close fails;  2: the returned reader is used
	//   (read in part / to the end / asked for its descriptor) after every event, member readers
	//   whose Read fails on every other schedule;  3 and up: members of other shapes (every
	//   pair of shapes in turn), with and without the above.
	// In every round the flavours of the two members' failures rotate through all pairs.
	nk := len(failKinds)
	reps := 4
	if cfg.Thorough() {
		reps = 25
	}
	for rep := 0; rep < reps; rep++ {
		n := 0
		for _, e := range entries {
			enumerate(e, func(in input) {
				n++
				fk := (n*7 + rep*29) % (nk * nk)
				in.F0, in.F1 = failKinds[fk%nk], failKinds[fk/nk]
				in.End = ends[(n+rep)%3]
				switch {
				case rep == 0:
					if n%2 == 0 {
						in = stalled(in)
					}
				case rep == 1:
					in.CloseErr = true
					if n%2 == 1 {
						in = stalled(in)
					}
				case rep == 2:
					in.Sched = withUses(in.Sched, n)
					in.ReadErr = n%2 == 1
				default:
					k := (n*37 + (rep-3)*17) % (len(shapes) * len(shapes))
					in.S0, in.S1 = shapes[k%len(shapes)], shapes[k/len(shapes)]
					in.CloseErr = (n+rep)%2 == 1
					if (n/2+rep)%2 == 0 {
						in.Sched = withUses(in.Sched, n+rep)
						in.ReadErr = (n/4)%2 == 1
					}
					if (n/4+rep)%2 == 0 {
						in = stalled(in)
					}
				}
				add(fit(in), "enumerated")
			})
		}
	}
	// every flavour of failure in the schedules where a member's failure is looked at
	for _, e := range entries {
		flavourMatrix(e, func(in input) { add(in, "flavours") })
	}
	// bursts: the same events, but not every one waited for, so that answers, cancellation
	// and the selects really race
	rnd := cfg.Rand()
	n := 1500
	if cfg.Thorough() {
		n = 60000
	}
	for i := 0; i < n; i++ {
		entry := entries[rnd.Intn(len(entries))]
		k0, k1 := kinds[rnd.Intn(3)], kinds[rnd.Intn(3)]
		if rnd.Intn(3) > 0 {
			k0 = "gated"
		}
		if rnd.Intn(3) > 0 {
			k1 = "gated"
		}
		var items []item
		for m, k := range []string{k0, k1} {
			if k == "gated" {
				items = append(items, item{Ev: "ret", M: m, Ans: []string{"succ", "fail"}[rnd.Intn(2)]})
			}
		}
		items = append(items, item{Ev: "cancel"}, item{Ev: "start"})
		rnd.Shuffle(len(items), func(a, b int) { items[a], items[b] = items[b], items[a] })
		pWait := rnd.Float64() * 0.6
		var sched []item
		for _, it := range items {
			it.Wait = rnd.Float64() < pWait
			sched = append(sched, it)
		}
		sched[len(sched)-1].Wait = true
		in := input{Entry: entry, K0: k0, K1: k1, CloseErr: rnd.Intn(2) == 0, ReadErr: rnd.Intn(2) == 0,
			F0: failKinds[rnd.Intn(nk)], F1: failKinds[rnd.Intn(nk)]}
		if rnd.Intn(3) == 0 {
			in.End = "deadline"
		}
		if rnd.Intn(2) == 0 {
			in.S0 = shapes[rnd.Intn(len(shapes))]
		}
		if rnd.Intn(2) == 0 {
			in.S1 = shapes[rnd.Intn(len(shapes))]
		}
		if isBlob(entry) {
			// Close and the uses of the returned reader are only issued at a quiet moment (the
			// harness must know whether a reader has been returned): after some waited-for
			// event that follows the start
			seenStart := false
			var cands []int
			for j, it := range sched {
				if it.Ev == "start" {
					seenStart = true
				}
				if seenStart && it.Wait {
					cands = append(cands, j)
				}
			}
			if len(cands) > 0 {
				extra := map[int][]item{}
				j := cands[rnd.Intn(len(cands))]
				extra[j] = append(extra[j], item{Ev: "close", Wait: true})
				for k := rnd.Intn(4); k > 0; k-- {
					j := cands[rnd.Intn(len(cands))]
					u := item{Ev: "use", Use: uses[rnd.Intn(len(uses))], Wait: true}
					if rnd.Intn(2) == 0 {
						extra[j] = append([]item{u}, extra[j]...)
					} else {
						extra[j] = append(extra[j], u)
					}
				}
				var s2 []item
				for j, it := range sched {
					s2 = append(s2, it)
					s2 = append(s2, extra[j]...)
				}
				sched = s2
			}
		}
		in.Sched = sched
		// (a foreign caller context is not played in bursts: its cancellation reaches the derived
		// contexts through goroutines, not before the cancel function returns as the model has it)
		if rnd.Intn(3) == 0 {
			in = stalled(in)
		}
		add(fit(in), "burst")
	}
	finish()
}
