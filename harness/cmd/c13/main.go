// Harness for C13: drives ocifilter.Sub over a recording backend (ociregistry.Funcs with
// every field set, scripted or in front of a real ocimem registry), yield by yield over a
// raw iterator, over a Lister-contract backend holding arbitrary names, and differentially
// against a second in-memory registry addressed with prefix/name directly. A view is built
// either in one step, Sub(r, "a/b/c"), or as a view of a view, Sub(Sub(r, "a"), "b/c");
// a sequence returned by a listing method may be iterated more than once, at once or later
// in the history. A view is a value that lives for a whole history: the calls of a history
// may each carry their own context scope (wider, narrower, equal, unrelated to the one of
// the call before), and several views may be alive together over one backend, the calls
// of the history going to one or the other. The repository names of the scope entries are
// not only the names callers use: every pool also holds names that read as something else
// (wildcards, nothing, dots, the catalog, the prefix itself and names related to it).
package main

import (
	"context"
	"encoding/json"
	"fmt"
	"math"
	"os"
	"path"
	"reflect"
	"sort"
	"strings"

	"github.com/opencontainers/go-digest"

	"cuelabs.dev/go/oci/ociregistry"
	"cuelabs.dev/go/oci/ociregistry/ociauth"
	"cuelabs.dev/go/oci/ociregistry/ocifilter"
	"cuelabs.dev/go/oci/ociregistry/ocimem"

	"verif/harness/filt"
	"verif/harness/hx"
)

type S = filt.S

// backendCfg decides the recording backend's answers.
type backendCfg struct {
	Fail    bool      `json:"fail,omitempty"`     // every call is answered with an error
	List    []S       `json:"list,omitempty"`     // items of Repositories / Tags
	ListErr *filt.Err `json:"list_err,omitempty"` // the error the iteration ends with
	Mem     []S       `json:"mem,omitempty"`      // forward to an ocimem registry holding these repositories
}

// opCtx is what one call of a history with per-call contexts is made with.
type opCtx struct {
	Scope *filt.Scope `json:"scope,omitempty"` // nil: no scope in the context
	View  int         `json:"view,omitempty"`  // 0: the case's view; k > 0: the view for Views[k-1]
}

type input struct {
	Kind   string `json:"kind"` // hist | seq | list | twin | promoted | join
	Prefix S      `json:"prefix"`
	// Ctxs, when not empty, runs parallel to Hist (hist cases) and replaces Scope: call i is
	// made under Ctxs[i].Scope on the view Ctxs[i].View. Views are the prefixes of further
	// views, each one Sub value built over the same backend before the first call.
	Ctxs  []opCtx `json:"ctxs,omitempty"`
	Views []S     `json:"views,omitempty"`
	// Warm (seq cases): scopes of calls made on the same view before the listing that is
	// observed (not part of the observation).
	Warm []*filt.Scope `json:"warm,omitempty"`
	// Stack, when not empty, says how the view is built: Sub applied once per element,
	// innermost first; Prefix is then the elements joined with "/" (see view).
	Stack []S `json:"stack,omitempty"`
	// Again runs parallel to Hist (hist and twin cases): Again[i] = j+1 > 0 says that
	// operation i, a copy of the listing operation j < i, is performed by iterating once
	// more the sequence value that operation j returned instead of calling the method.
	Again []int `json:"again,omitempty"`
	// PrevStops (seq cases) / Pass (list cases): the iterations made over the same sequence
	// value before the one that is observed; for seq, where each of them stopped (-1: never).
	PrevStops []int        `json:"prev_stops,omitempty"`
	Pass      int          `json:"pass,omitempty"`
	Scope     *filt.Scope  `json:"scope,omitempty"` // nil: no scope in the context
	Hist      []filt.Op    `json:"hist,omitempty"`
	Backend   backendCfg   `json:"backend"`
	Events    []filt.Yield `json:"events,omitempty"`
	Stop      *int         `json:"stop,omitempty"`
	Start     S            `json:"start,omitempty"`
	Names     []S          `json:"names,omitempty"`
	Method    string       `json:"method,omitempty"`
	Name      S            `json:"name,omitempty"`
}

func ctxFor(sc *filt.Scope) (context.Context, filt.Scope) {
	ctx := context.Background()
	if sc == nil {
		return ctx, filt.Scope{}
	}
	s := sc.Go()
	return ociauth.ContextWithScope(ctx, s), filt.ScopeOf(s)
}

// joinStack is the prefix that a view of a view ... of a view stands for.
func joinStack(stack []S) S {
	var parts []string
	for _, p := range stack {
		if p != "" { // Sub(r, "") is r
			parts = append(parts, string(p))
		}
	}
	return S(strings.Join(parts, "/"))
}

// view builds the sub-registry view of the case over r.
func view(r ociregistry.Interface, in input) ociregistry.Interface {
	if len(in.Stack) == 0 {
		return ocifilter.Sub(r, string(in.Prefix))
	}
	if joinStack(in.Stack) != in.Prefix {
		panic(fmt.Sprintf("harness: stack %q does not spell prefix %q", in.Stack, in.Prefix))
	}
	for _, p := range in.Stack {
		r = ocifilter.Sub(r, string(p))
	}
	return r
}

// lazy gives the listing methods of a registry the behaviour of a remote registry's:
// calling the method does nothing yet, every iteration of the returned sequence is a fresh
// call of the wrapped method. Behind it, one iteration is one recorded backend call, whether
// the sequence value is new or is being iterated again.
type lazy struct{ ociregistry.Interface }

func (l lazy) Repositories(ctx context.Context, startAfter string) ociregistry.Seq[string] {
	return func(yield func(string, error) bool) { l.Interface.Repositories(ctx, startAfter)(yield) }
}

func (l lazy) Tags(ctx context.Context, repo, startAfter string) ociregistry.Seq[string] {
	return func(yield func(string, error) bool) { l.Interface.Tags(ctx, repo, startAfter)(yield) }
}

func (l lazy) Referrers(ctx context.Context, repo string, digest ociregistry.Digest, artifactType string) ociregistry.Seq[ociregistry.Descriptor] {
	return func(yield func(ociregistry.Descriptor, error) bool) {
		l.Interface.Referrers(ctx, repo, digest, artifactType)(yield)
	}
}

// seqs keeps the sequence values the listing operations of a history returned, by the
// index of the operation.
type seqs struct {
	str  map[int]ociregistry.Seq[string]
	desc map[int]ociregistry.Seq[ociregistry.Descriptor]
}

func newSeqs() *seqs {
	return &seqs{map[int]ociregistry.Seq[string]{}, map[int]ociregistry.Seq[ociregistry.Descriptor]{}}
}

func isListing(m string) bool { return m == "Repositories" || m == "Tags" || m == "Referrers" }

func drainStrings(seq ociregistry.Seq[string]) filt.Res {
	r := filt.Res{Kind: "list", List: []S{}}
	seq(func(x string, err error) bool {
		if err != nil {
			r.SeqErr = filt.ErrOf(err)
			return false
		}
		r.List = append(r.List, S(x))
		return true
	})
	return r
}

func drainDescs(seq ociregistry.Seq[ociregistry.Descriptor]) filt.Res {
	r := filt.Res{Kind: "descs", Descs: []filt.Desc{}}
	seq(func(x ociregistry.Descriptor, err error) bool {
		if err != nil {
			r.SeqErr = filt.ErrOf(err)
			return false
		}
		r.Descs = append(r.Descs, filt.DescOf(x))
		return true
	})
	return r
}

// perform is filt.Invoke, except that the sequence a listing method returns is kept under
// the operation's index i, and that with again = j+1 > 0 no method is called: the sequence
// kept under j is iterated once more (when operation j did not get as far as returning a
// sequence, the method is called as usual).
func perform(ctx context.Context, r ociregistry.Interface, op filt.Op, ws *filt.Writers, i, again int, kept *seqs) (res filt.Res) {
	if !isListing(op.M) {
		return filt.Invoke(ctx, r, op, ws)
	}
	panicked, pv := hx.Recover(func() {
		if op.M == "Referrers" {
			seq, ok := kept.desc[again-1]
			if !ok {
				seq = r.Referrers(ctx, string(op.Repo), ociregistry.Digest(op.Digest), string(op.Art))
			}
			kept.desc[i] = seq
			res = drainDescs(seq)
			return
		}
		seq, ok := kept.str[again-1]
		if !ok {
			if op.M == "Repositories" {
				seq = r.Repositories(ctx, string(op.Start))
			} else {
				seq = r.Tags(ctx, string(op.Repo), string(op.Start))
			}
		}
		kept.str[i] = seq
		res = drainStrings(seq)
	})
	if panicked {
		return filt.Res{Kind: "panic", Panic: pv}
	}
	return res
}

// againOf reports Again[i] when it names an earlier operation that is the same call.
func (in input) againOf(i int) int {
	if i < len(in.Again) && in.Again[i] > 0 && in.Again[i] <= i && reflect.DeepEqual(in.Hist[in.Again[i]-1], in.Hist[i]) {
		if len(in.Ctxs) > 0 && !reflect.DeepEqual(in.Ctxs[in.Again[i]-1], in.Ctxs[i]) {
			return 0 // not the same call: another context or another view
		}
		return in.Again[i]
	}
	return 0
}

var errCodes = []string{"BLOB_UNKNOWN", "MANIFEST_UNKNOWN", "NAME_UNKNOWN", "DENIED", "UNAUTHORIZED", "", "TOOMANYREQUESTS", "MY_CODE"}

func (cfg backendCfg) answer(b *filt.Backend) func(op filt.Op) filt.Res {
	return func(op filt.Op) filt.Res {
		tag := op.M + ":" + string(op.Repo)
		if op.M == "MountBlob" {
			tag += ">" + string(op.Repo2)
		}
		berr := &filt.Err{Code: errCodes[len(tag)%len(errCodes)], Tag: S("backend-error:" + tag)}
		desc := &filt.Desc{Media: S("result/" + op.M), Digest: S("sha256:" + fmt.Sprintf("%064x", len(tag)*7919)), Size: int64(100 + len(tag)), Artifact: S("art/" + op.M)}
		switch op.M {
		case "Repositories", "Tags":
			if cfg.Fail {
				return filt.Res{Kind: "list", List: []S{}, SeqErr: berr}
			}
			l := cfg.List
			if l == nil {
				l = []S{}
			}
			return filt.Res{Kind: "list", List: l, SeqErr: cfg.ListErr}
		case "Referrers":
			if cfg.Fail {
				return filt.Res{Kind: "descs", Descs: []filt.Desc{}, SeqErr: berr}
			}
			return filt.Res{Kind: "descs", Descs: []filt.Desc{*desc, {Media: "second"}}, SeqErr: cfg.ListErr}
		case "WSize":
			return filt.Res{Kind: "n", N: 4242}
		case "WChunkSize":
			return filt.Res{Kind: "n", N: 777}
		case "WID":
			return filt.Res{Kind: "str", Str: S(fmt.Sprintf("upload-id-%d", op.W))}
		}
		if cfg.Fail {
			return filt.Res{Kind: "err", Err: berr}
		}
		switch op.M {
		case "GetBlob", "GetBlobRange", "GetManifest", "GetTag":
			return filt.Res{Kind: "read", Desc: desc, Data: S("content-of:" + tag)}
		case "ResolveBlob", "ResolveManifest", "ResolveTag", "PushBlob", "MountBlob", "PushManifest", "WCommit":
			return filt.Res{Kind: "desc", Desc: desc}
		case "PushBlobChunked", "PushBlobChunkedResume":
			return filt.Res{Kind: "writer", W: b.NextWriter()}
		case "DeleteBlob", "DeleteManifest", "DeleteTag", "WClose", "WCancel":
			return filt.Res{Kind: "unit"}
		case "WWrite":
			return filt.Res{Kind: "n", N: int64(len(op.Data))}
		}
		panic("unhandled " + op.M)
	}
}

// ---- an ocimem registry with one blob, one manifest and one tag per repository ----

const configContent = "{}"

func layerContent(repo string) string { return "layer of " + repo }

func dig(s string) S { return S(digest.FromString(s)) }

func manifestContent(repo string) string {
	l := layerContent(repo)
	return fmt.Sprintf(`{"schemaVersion":2,"mediaType":"application/vnd.oci.image.manifest.v1+json","config":{"mediaType":"application/vnd.oci.image.config.v1+json","digest":%q,"size":%d},"layers":[{"mediaType":"application/octet-stream","digest":%q,"size":%d}]}`,
		string(dig(configContent)), len(configContent), string(dig(l)), len(l))
}

const manifestMedia = "application/vnd.oci.image.manifest.v1+json"

func newMem(repos []S) *ocimem.Registry {
	r := ocimem.New()
	ctx := context.Background()
	for _, rp := range repos {
		repo := string(rp)
		push := func(content, media string) bool {
			_, err := r.PushBlob(ctx, repo, ociregistry.Descriptor{MediaType: media, Digest: digest.FromString(content), Size: int64(len(content))}, strings.NewReader(content))
			return err == nil
		}
		if !push(configContent, "application/vnd.oci.image.config.v1+json") || !push(layerContent(repo), "application/octet-stream") {
			continue // not a valid repository name: the registry does not hold it
		}
		if _, err := r.PushManifest(ctx, repo, "t1", []byte(manifestContent(repo)), manifestMedia); err != nil {
			panic(fmt.Sprintf("harness: cannot fill %q: %v", repo, err))
		}
	}
	return r
}

// ---- running a case ----

type obsOp struct {
	Res    filt.Res    `json:"res"`
	Calls  []filt.Call `json:"calls,omitempty"`
	Direct *filt.Res   `json:"direct,omitempty"`
}

type observed struct {
	Ops          []obsOp      `json:"ops,omitempty"`
	Yields       []filt.Yield `json:"yields,omitempty"`
	Delivered    int          `json:"delivered,omitempty"`
	BackendScope *filt.Scope  `json:"backend_scope,omitempty"`
	BackendStart S            `json:"backend_start,omitempty"`
	EmbeddedNil  bool         `json:"embedded_nil,omitempty"`
	Res          *filt.Res    `json:"res,omitempty"`
	Joined       S            `json:"joined,omitempty"`
	BackendCalls int          `json:"backend_calls"`
}

func callsCoq(calls []filt.Call) string {
	cs := make([]string, len(calls))
	for i, c := range calls {
		cs[i] = "(" + c.Scope.Coq() + ", (" + c.Op.Coq() + ", " + c.Res.Coq() + "))"
	}
	return hx.List(cs)
}

func runHist(in input) (string, observed) {
	ctx, csc := ctxFor(in.Scope)
	b := &filt.Backend{}
	if in.Backend.Mem != nil {
		b.Inner = newMem(in.Backend.Mem)
	} else {
		b.Answer = in.Backend.answer(b)
	}
	base := lazy{b.Interface()}
	w := view(base, in)
	ws := &filt.Writers{Index: b.WriterIndex}
	kept := newSeqs()
	var obs observed
	var terms []string
	if len(in.Ctxs) > 0 {
		// every call under its own context, on one of the views alive over the backend
		if len(in.Ctxs) != len(in.Hist) {
			panic("harness: ctxs does not run parallel to hist")
		}
		views, prefixes := []ociregistry.Interface{w}, []S{in.Prefix}
		for _, p := range in.Views {
			views, prefixes = append(views, ocifilter.Sub(base, string(p))), append(prefixes, p)
		}
		var steps []string
		for i, op := range in.Hist {
			oc := in.Ctxs[i]
			if oc.View < 0 || oc.View >= len(views) {
				panic("harness: no such view")
			}
			ctx, csc := ctxFor(oc.Scope)
			mark := b.Mark()
			res := perform(ctx, views[oc.View], op, ws, i, in.againOf(i), kept)
			calls := b.Since(mark)
			obs.Ops = append(obs.Ops, obsOp{Res: res, Calls: calls})
			terms = append(terms, "("+res.Coq()+", "+callsCoq(calls)+")")
			steps = append(steps, "(("+filt.B(prefixes[oc.View])+", "+csc.Coq()+"), "+op.Coq()+")")
		}
		obs.BackendCalls = len(b.Calls)
		return fmt.Sprintf("CHistV %s %s", hx.List(steps), hx.List(terms)), obs
	}
	for i, op := range in.Hist {
		mark := b.Mark()
		res := perform(ctx, w, op, ws, i, in.againOf(i), kept)
		calls := b.Since(mark)
		obs.Ops = append(obs.Ops, obsOp{Res: res, Calls: calls})
		terms = append(terms, "("+res.Coq()+", "+callsCoq(calls)+")")
	}
	obs.BackendCalls = len(b.Calls)
	return fmt.Sprintf("CHist %s %s %s %s", filt.B(in.Prefix), csc.Coq(), filt.OpsCoq(in.Hist), hx.List(terms)), obs
}

func runSeq(in input) (string, observed) {
	ctx, csc := ctxFor(in.Scope)
	b := &filt.Backend{RawRepos: in.Events}
	if b.RawRepos == nil {
		b.RawRepos = []filt.Yield{}
	}
	b.Answer = in.Backend.answer(b)
	w := view(lazy{b.Interface()}, in)
	var obs observed
	var mark, delivered0 int
	panicked, pv := hx.Recover(func() {
		// the calls the view served before, each under its own scope
		for i, sc := range in.Warm {
			wctx, _ := ctxFor(sc)
			if i%2 == 0 {
				w.ResolveTag(wctx, "warm/up", "sometag")
			} else {
				drainStrings(w.Repositories(wctx, "warm"))
			}
		}
		seq := w.Repositories(ctx, string(in.Start))
		// the earlier iterations over the same sequence value: not part of the observation
		for _, stop := range in.PrevStops {
			n := 0
			hx.Recover(func() {
				seq(func(string, error) bool { n++; return n-1 != stop })
			})
		}
		mark, delivered0 = b.Mark(), b.Delivered
		obs.Yields = []filt.Yield{}
		seq(func(item string, err error) bool {
			obs.Yields = append(obs.Yields, filt.Yield{Item: S(item), Err: filt.ErrOf(err)})
			return in.Stop == nil || len(obs.Yields)-1 != *in.Stop
		})
	})
	if panicked {
		obs.Yields = append(obs.Yields, filt.Yield{Item: "PANIC", Err: &filt.Err{Tag: S(pv)}})
	}
	calls := b.Since(mark)
	obs.Delivered = b.Delivered - delivered0
	obs.BackendCalls = len(calls)
	bsc, bstart := filt.Scope{Items: []filt.RS{{Type: "NO-BACKEND-CALL"}}}, S("NO-BACKEND-CALL")
	if len(calls) == 1 {
		bsc, bstart = calls[0].Scope, calls[0].Op.Start
	}
	obs.BackendScope, obs.BackendStart = &bsc, bstart
	stop := "None"
	if in.Stop != nil {
		stop = fmt.Sprintf("(Some %d)", *in.Stop)
	}
	return fmt.Sprintf("CSeq %s %s %s %s %s %s %s %s %d", filt.B(in.Prefix), filt.B(in.Start), csc.Coq(), filt.YieldsCoq(in.Events), stop,
		bsc.Coq(), filt.B(bstart), filt.YieldsCoq(obs.Yields), obs.Delivered), obs
}

func sortedNames(names []S) []S {
	out := append([]S{}, names...)
	sort.Slice(out, func(i, j int) bool { return out[i] < out[j] })
	var ded []S
	for i, n := range out {
		if i == 0 || n != out[i-1] {
			ded = append(ded, n)
		}
	}
	return ded
}

// runList: the backend holds exactly the given names and honours the Lister contract.
func runList(in input) (string, observed) {
	ctx, _ := ctxFor(nil)
	names := sortedNames(in.Names)
	b := &filt.Backend{}
	b.Answer = func(op filt.Op) filt.Res {
		if op.M != "Repositories" {
			return filt.Res{Kind: "err", Err: &filt.Err{Code: "UNSUPPORTED", Tag: "lister"}}
		}
		l := []S{}
		for _, n := range names {
			if op.Start == "" || n > op.Start {
				l = append(l, n)
			}
		}
		return filt.Res{Kind: "list", List: l}
	}
	w := view(lazy{b.Interface()}, in)
	// one sequence value, iterated in.Pass times before the iteration that is observed
	op := filt.Op{M: "Repositories", Start: in.Start}
	kept := newSeqs()
	res := perform(ctx, w, op, nil, 0, 0, kept)
	for i := 1; i <= in.Pass; i++ {
		res = perform(ctx, w, op, nil, i, i, kept)
	}
	obs := observed{Res: &res, BackendCalls: len(b.Calls)}
	return fmt.Sprintf("CList %s %s %s %s", filt.B(in.Prefix), filt.Bs(names), filt.B(in.Start), res.Coq()), obs
}

// prefixed is the operation as the property says it must act: on prefix/name.
func prefixed(prefix string, op filt.Op) filt.Op {
	switch {
	case op.IsWriterOp():
		return op
	case op.M == "Repositories":
		return filt.Op{M: "Repositories"} // the complete listing
	}
	op.Repo = S(prefix + "/" + string(op.Repo))
	if op.M == "MountBlob" {
		op.Repo2 = S(prefix + "/" + string(op.Repo2))
	}
	return op
}

func runTwin(in input) (string, observed) {
	ctx, _ := ctxFor(in.Scope)
	var base ociregistry.Interface = newMem(in.Backend.Mem)
	if len(in.Again) > 0 {
		// a sequence iterated again later in the history lists the registry as it is then
		base = lazy{base}
	}
	w := view(base, in)
	twin := newMem(in.Backend.Mem)
	wsA, wsB := &filt.Writers{}, &filt.Writers{}
	kept := newSeqs()
	var obs observed
	var terms []string
	var hist []filt.Op
	for i, op := range in.Hist {
		opB := prefixed(string(in.Prefix), op)
		if op.IsWriterOp() && op.W < 0 {
			// the writer obtained last, when both sides have one
			if len(wsA.W) == 0 || len(wsB.W) == 0 {
				continue
			}
			op.W, opB.W = len(wsA.W)-1, len(wsB.W)-1
		}
		rs := perform(ctx, w, op, wsA, i, in.againOf(i), kept)
		rd := filt.Invoke(ctx, twin, opB, wsB) // always a call of the method
		hist = append(hist, op)
		obs.Ops = append(obs.Ops, obsOp{Res: rs, Direct: &rd})
		terms = append(terms, "("+rs.Coq()+", "+rd.Coq()+")")
	}
	return fmt.Sprintf("CTwin %s %s %s", filt.B(in.Prefix), filt.OpsCoq(hist), hx.List(terms)), obs
}

// runPromoted calls method in.Method of the *ociregistry.Funcs embedded in the wrapper
// value: that is the method Go would promote if the wrapper type did not declare it.
func runPromoted(in input) (string, observed) {
	b := &filt.Backend{}
	b.Answer = in.Backend.answer(b)
	w := view(b.Interface(), in)
	var obs observed
	fld := reflect.ValueOf(w).Elem().FieldByName("Funcs")
	res := filt.Res{Kind: "err", Err: &filt.Err{Tag: "no embedded Funcs field"}}
	if fld.IsValid() && fld.Type() == reflect.TypeOf((*ociregistry.Funcs)(nil)) {
		obs.EmbeddedNil = fld.IsNil()
		f := fld.Interface().(*ociregistry.Funcs)
		res = filt.Invoke(context.Background(), f, sampleOp(in.Method, "some/repo", "other/repo", 0), &filt.Writers{})
	}
	obs.Res = &res
	obs.BackendCalls = len(b.Calls)
	return fmt.Sprintf("CPromoted M%s %s %s %d", in.Method, hx.Bool(obs.EmbeddedNil), res.Coq(), len(b.Calls)), obs
}

// runJoin: what the code before the repair computed for a name.
func runJoin(in input) (string, observed) {
	joined := ""
	if in.Name != "" {
		joined = path.Join(string(in.Prefix), string(in.Name))
	}
	return fmt.Sprintf("CJoin %s %s %s", filt.B(in.Prefix), filt.B(in.Name), hx.B(joined)), observed{Joined: S(joined)}
}

var someDigest = S("sha256:ffffffffffffffffffffffffffffffffffffffffffffffffffffffffffffffff")

// specialScopeNames: repository names for scope entries that read as something else than a
// plain repository under the view with prefix p: wildcards, nothing, dots, the catalog, the
// prefix itself, names already under it, starting with it, ending in it, its other case.
func specialScopeNames(p string) []string {
	last := p
	if i := strings.LastIndex(p, "/"); i >= 0 {
		last = p[i+1:]
	}
	return []string{"*", "**", "*/*", "b/*", "*/b", "?", "", ".", "..", "../*", "/", "_catalog", "catalog", "registry",
		p, p + "/", p + "/*", p + "/b/c", p + "ey", "x/" + p, "x" + p, "*/" + p, last, strings.ToUpper(p), strings.ToLower(p) + "/b", "repository:b/c:pull", "b/c:pull", "\x00", "%2a"}
}

func sampleOp(m string, repo, repo2 string, variant int) filt.Op {
	op := filt.Op{M: m, Repo: S(repo)}
	dg := someDigest
	switch m {
	case "GetBlob", "GetManifest", "ResolveBlob", "ResolveManifest", "DeleteBlob", "DeleteManifest":
		op.Digest = dg
	case "GetBlobRange":
		op.Digest, op.O0, op.O1 = dg, 3, 17
	case "GetTag", "ResolveTag", "DeleteTag":
		op.Tag = "sometag"
	case "PushBlob":
		op.Desc = &filt.Desc{Media: "application/json", Digest: dg, Size: 3}
		op.Content = "foo"
	case "PushBlobChunked":
		op.Hint = 11
	case "PushBlobChunkedResume":
		op.ID, op.Off, op.Hint = "/someid", 3, 5
	case "MountBlob":
		op.Repo2, op.Digest = S(repo2), dg
	case "PushManifest":
		op.Tag, op.Content, op.Media = "sometag", "something", "application/json"
	case "Repositories":
		op.Repo = ""
		op.Start = S(repo) // the name plays the start point
	case "Tags":
		if variant%2 == 0 {
			op.Start = "starttag"
		}
	case "Referrers":
		op.Digest, op.Art = dg, "some/artifact"
	}
	return op
}

// ---- boundary values of the arguments that are not repository names ----
//
// A wrapper may treat particular argument values specially (the whole-blob range, the empty
// upload id, a tag that reads as a digest, an empty start point ...): every method is
// therefore called with each of these tuples, under every shape of context scope, and the
// backend must see the same method with the same arguments under the once-rewritten scope.

const maxI, minI = int64(math.MaxInt64), int64(math.MinInt64)

var sha512Digest = S("sha512:" + strings.Repeat("0123456789abcdef", 8))

// digest arguments: well-formed, empty, too short, another algorithm, not a digest at all
var digestArgs = []S{someDigest, "", "sha256:ffff", sha512Digest, "latest"}

// tag arguments: plain, empty, one that reads as a digest, with a slash, long
var tagArgs = []S{"sometag", "", "latest", someDigest, "a/b", "Tag.with-odd_chars", S(strings.Repeat("t", 130))}

// ranges of GetBlobRange: the whole blob in its several spellings, from the start, to the end,
// empty, inverted, negative start, the extreme values
var rangeArgs = [][2]int64{{3, 17}, {0, -1}, {0, -5}, {0, minI}, {0, 0}, {0, 1}, {0, 5}, {0, maxI}, {1, -1}, {5, -1}, {2, 4},
	{3, 3}, {4, 2}, {-1, -1}, {-3, 7}, {maxI, -1}, {minI, minI}, {maxI, maxI}}

// memRanges: the ranges that mean something to a 10-20 byte blob of newMem
var memRanges = [][2]int64{{1, 5}, {0, -1}, {0, -7}, {0, 0}, {0, 5}, {0, 1000}, {1, -1}, {3, 3}, {5, 2}, {-1, 3}, {100, -1}, {0, 1}}

// argTuples lists the operations of method m on repo (and repo2) with every boundary tuple
// of the remaining arguments; the first one is sampleOp's.
func argTuples(m, repo, repo2 string) []filt.Op {
	base := sampleOp(m, repo, repo2, 0)
	ops := []filt.Op{base}
	with := func(f func(o *filt.Op)) {
		o := base
		f(&o)
		for _, x := range ops {
			if reflect.DeepEqual(x, o) {
				return
			}
		}
		ops = append(ops, o)
	}
	switch m {
	case "GetBlob", "GetManifest", "ResolveBlob", "ResolveManifest", "DeleteBlob", "DeleteManifest":
		for _, d := range digestArgs {
			with(func(o *filt.Op) { o.Digest = d })
		}
	case "GetBlobRange":
		for _, r := range rangeArgs {
			with(func(o *filt.Op) { o.O0, o.O1 = r[0], r[1] })
		}
		for _, d := range digestArgs {
			with(func(o *filt.Op) { o.Digest, o.O0, o.O1 = d, 0, -1 })
		}
	case "GetTag", "ResolveTag", "DeleteTag":
		for _, t := range tagArgs {
			with(func(o *filt.Op) { o.Tag = t })
		}
	case "PushBlob":
		empty := dig("")
		for _, v := range []struct {
			d *filt.Desc
			c S
		}{
			{nil, ""}, {nil, "foo"},
			{&filt.Desc{Media: "application/json", Digest: empty, Size: 0}, ""},
			{&filt.Desc{Media: "application/json", Digest: someDigest, Size: -1}, "foo"},
			{&filt.Desc{Media: "application/json", Digest: someDigest, Size: 100}, "foo"},
			{&filt.Desc{Media: "application/json", Digest: "", Size: 3}, "foo"},
			{&filt.Desc{Digest: someDigest, Size: 3, Artifact: "some/artifact"}, "foo"},
			{&filt.Desc{Media: "application/json", Digest: someDigest, Size: maxI}, ""},
		} {
			with(func(o *filt.Op) { o.Desc, o.Content = v.d, v.c })
		}
	case "PushBlobChunked":
		for _, h := range []int64{0, -1, 1, maxI, minI} {
			with(func(o *filt.Op) { o.Hint = h })
		}
	case "PushBlobChunkedResume":
		// the empty id with offset 0 is how a caller says: a new upload
		for _, v := range []struct {
			id       S
			off, hnt int64
		}{
			{"", 0, 0}, {"", 0, 7}, {"", 5, 0}, {"", -1, -1}, {"/someid", 0, 0}, {"/someid", -1, 0}, {"/someid", maxI, -1},
			{S("/v2/" + repo + "/blobs/uploads/1"), 0, 0}, {S(repo), 1, 1}, {"../someid", 2, minI},
		} {
			with(func(o *filt.Op) { o.ID, o.Off, o.Hint = v.id, v.off, v.hnt })
		}
	case "MountBlob":
		for _, d := range digestArgs {
			with(func(o *filt.Op) { o.Digest = d })
		}
		// from and to the same repository
		with(func(o *filt.Op) { o.Repo2 = o.Repo })
		with(func(o *filt.Op) { o.Repo = o.Repo2 })
	case "PushManifest":
		for _, t := range tagArgs {
			with(func(o *filt.Op) { o.Tag = t })
		}
		with(func(o *filt.Op) { o.Tag, o.Content, o.Media = "", "", "" })
		with(func(o *filt.Op) { o.Content = "" })
		with(func(o *filt.Op) { o.Media = "" })
		with(func(o *filt.Op) { o.Tag, o.Content, o.Media = someDigest, S(manifestContent(repo)), manifestMedia })
	case "Repositories":
		with(func(o *filt.Op) { o.Start = "" })
		with(func(o *filt.Op) { o.Start = S(repo2) })
	case "Tags":
		for _, st := range []S{"", "starttag", S(repo), "/", someDigest} {
			with(func(o *filt.Op) { o.Start = st })
		}
	case "Referrers":
		for _, d := range digestArgs {
			with(func(o *filt.Op) { o.Digest = d })
			with(func(o *filt.Op) { o.Digest, o.Art = d, "" })
		}
	}
	return ops
}

// memOp: an operation that means something to the ocimem contents of newMem.
func memOp(prefix, m string, repo, repo2 string, variant int) filt.Op {
	op := sampleOp(m, repo, repo2, variant)
	// the digests are those of the repository the name would denote if the path were
	// cleaned: for a clean name prefix/name, for a name with dot-dot elements the repository
	// a path-cleaning wrapper would escape to
	src := path.Join(prefix, repo)
	if variant%3 == 1 {
		src = path.Join(prefix, repo2) // a digest that lives in the other repository
	}
	switch m {
	case "GetBlob", "ResolveBlob", "DeleteBlob", "MountBlob":
		op.Digest = dig(layerContent(src))
	case "GetBlobRange":
		op.Digest, op.O0, op.O1 = dig(layerContent(src)), 1, 5
	case "GetManifest", "ResolveManifest", "DeleteManifest":
		op.Digest = dig(manifestContent(src))
	case "GetTag", "ResolveTag", "DeleteTag":
		op.Tag = "t1"
	case "PushBlob":
		c := fmt.Sprintf("new content %d", variant)
		op.Content = S(c)
		op.Desc = &filt.Desc{Media: "application/octet-stream", Digest: dig(c), Size: int64(len(c))}
	case "PushBlobChunkedResume":
		op.ID, op.Off = "", 0
	case "PushManifest":
		op.Tag, op.Content, op.Media = "t2", S(manifestContent(src)), manifestMedia
	case "Tags":
		op.Start = ""
	case "Referrers":
		op.Digest, op.Art = dig(manifestContent(src)), ""
	}
	return op
}

func runCase(in input) (string, observed) {
	switch in.Kind {
	case "hist":
		return runHist(in)
	case "seq":
		return runSeq(in)
	case "list":
		return runList(in)
	case "twin":
		return runTwin(in)
	case "promoted":
		return runPromoted(in)
	case "join":
		return runJoin(in)
	}
	panic("unknown case kind " + in.Kind)
}

// nameClass describes a caller name for the distribution.
func nameClass(n string) string {
	switch {
	case n == "":
		return "empty"
	case n == "." || n == "..":
		return "dot"
	case strings.Contains("/"+n+"/", "/../"):
		return "dotdot-element"
	case strings.Contains("/"+n+"/", "/./"):
		return "dot-element"
	case strings.HasPrefix(n, "/"), strings.HasSuffix(n, "/"), strings.Contains(n, "//"):
		return "slashes"
	case strings.ToLower(n) != n:
		return "upper"
	}
	for i := 0; i < len(n); i++ {
		if n[i] < 0x21 || n[i] > 0x7e {
			return "non-printable"
		}
	}
	return "clean"
}

func scopeClass(sc *filt.Scope) string {
	switch {
	case sc == nil:
		return "none"
	case sc.Unlimited:
		return "unlimited"
	case len(sc.Items) == 0:
		return "empty"
	}
	for _, it := range sc.Items {
		if it.Type == "repository" {
			return "with-repository"
		}
	}
	return "no-repository"
}

// scopeNameClass says what the repository name of a scope entry reads as under prefix p.
func scopeNameClass(p, n string) string {
	switch {
	case n == "":
		return "empty"
	case n == "*":
		return "star"
	case strings.ContainsAny(n, "*?"):
		return "other-wildcard"
	case n == "." || n == ".." || strings.HasPrefix(n, "../") || strings.Contains(n, "/../") || strings.HasSuffix(n, "/.."):
		return "dots"
	case n == "_catalog" || n == "catalog" || n == "registry":
		return "catalog-like"
	case p != "" && n == p:
		return "the-prefix"
	case p != "" && strings.HasPrefix(n, p+"/"):
		return "under-the-prefix"
	case p != "" && strings.HasPrefix(n, p):
		return "starts-with-the-prefix"
	case p != "" && strings.HasSuffix(n, p):
		return "ends-in-the-prefix"
	}
	return "plain"
}

func countScopeNames(out *hx.Out, p string, sc *filt.Scope) {
	if sc == nil {
		return
	}
	for _, it := range sc.Items {
		if it.Type == "repository" {
			out.Count("scope-repository-name:" + scopeNameClass(p, string(it.Resource)))
		}
	}
}

// scopeRel says how the scope of a call stands to the scope of the call before it.
func scopeRel(a, b *filt.Scope) string {
	if a == nil || b == nil || a.Unlimited || b.Unlimited || len(a.Items) == 0 || len(b.Items) == 0 {
		return "one-is-none-unlimited-or-empty"
	}
	set := func(s *filt.Scope) map[filt.RS]bool {
		m := map[filt.RS]bool{}
		for _, it := range s.Items {
			m[it] = true
		}
		return m
	}
	sa, sb := set(a), set(b)
	aInB, bInA := true, true
	common := false
	for it := range sa {
		if sb[it] {
			common = true
		} else {
			aInB = false
		}
	}
	for it := range sb {
		if !sa[it] {
			bInA = false
		}
	}
	switch {
	case aInB && bInA:
		return "equal"
	case bInA:
		return "narrower"
	case aInB:
		return "wider"
	case common:
		return "overlapping"
	}
	return "disjoint"
}

func main() {
	cfg := hx.ParseFlags()
	out := hx.NewOut(cfg, "Obs.C13")
	add := func(in input, origin string) {
		coq, obs := runCase(in)
		m := in.Method
		if len(in.Hist) > 0 {
			m = in.Hist[0].M
		}
		switch in.Kind {
		case "seq", "list":
			m = "Repositories"
		case "join":
			m = "repo"
		}
		outcome := "ok"
		for _, o := range obs.Ops {
			if o.Res.Kind == "panic" {
				outcome = "panic"
			}
		}
		class := in.Kind + "/" + m + "/" + outcome
		if len(in.Stack) > 0 {
			class += "/view-of-view"
		}
		if len(in.Again) > 0 || len(in.PrevStops) > 0 || in.Pass > 0 {
			class += "/iterated-again"
		}
		if len(in.Ctxs) > 0 || len(in.Warm) > 0 {
			class += "/per-call-scope"
		}
		if len(in.Views) > 0 {
			class += "/views-together"
		}
		if out.Add(hx.Case{Coq: coq, Desc: map[string]any{"input": in, "observed": obs, "origin": origin},
			Tags: map[string]any{"class": class, "method": m, "kind": in.Kind}}) {
			out.Count("kind:" + in.Kind)
			out.Count("method:" + m)
			out.Count("origin:" + origin)
			if len(in.Ctxs) == 0 {
				out.Count("scope:" + scopeClass(in.Scope))
			} else {
				out.Count("scope:per-call")
				for i := range in.Ctxs {
					out.Count("call-scope:" + scopeClass(in.Ctxs[i].Scope))
					if i > 0 {
						out.Count("call-scope-vs-previous:" + scopeRel(in.Ctxs[i-1].Scope, in.Ctxs[i].Scope))
					}
				}
				out.Count(fmt.Sprintf("views-alive-together:%d", 1+len(in.Views)))
			}
			// what the repository names of the scope entries read as, under the view of the call
			if len(in.Ctxs) == 0 {
				countScopeNames(out, string(in.Prefix), in.Scope)
			}
			for _, oc := range in.Ctxs {
				vp := string(in.Prefix)
				if oc.View > 0 && oc.View <= len(in.Views) {
					vp = string(in.Views[oc.View-1])
				}
				countScopeNames(out, vp, oc.Scope)
			}
			if len(in.Warm) > 0 {
				out.Count("seq:after-earlier-calls-on-the-view")
			}
			if in.Prefix == "" {
				out.Count("prefix:empty")
			} else {
				out.Count(fmt.Sprintf("prefix:%d-elements", strings.Count(string(in.Prefix), "/")+1))
			}
			for _, op := range in.Hist {
				for _, r := range op.Repos() {
					out.Count("name:" + nameClass(string(r)))
				}
			}
			if in.Kind == "join" {
				out.Count("name:" + nameClass(string(in.Name)))
			}
			if in.Kind != "join" && in.Kind != "promoted" {
				out.Count(fmt.Sprintf("view:sub-applied-%d-times", max(len(in.Stack), 1)))
				again := len(in.PrevStops) + in.Pass
				for i := range in.Hist {
					if in.againOf(i) > 0 {
						again++
					}
				}
				out.Count(fmt.Sprintf("iterated-again:%d", min(again, 3)))
			}
			if in.Kind == "list" || in.Kind == "seq" || (len(in.Hist) > 0 && in.Hist[0].M == "Repositories") {
				st := in.Start
				if in.Kind == "hist" || in.Kind == "twin" {
					st = in.Hist[0].Start
				}
				if st == "" {
					out.Count("start:empty")
				} else {
					out.Count("start:non-empty")
				}
			}
		}
	}
	if cfg.Replay != "" {
		data, err := os.ReadFile(cfg.Replay)
		if err != nil {
			panic(err)
		}
		var r struct {
			Input input `json:"input"`
		}
		if err := json.Unmarshal(data, &r); err != nil {
			panic(err)
		}
		add(r.Input, "replay")
		if err := out.Flush(); err != nil {
			panic(err)
		}
		return
	}
	for _, raw := range hx.LoadCorpus(cfg.Corpus) {
		var r struct {
			Input input `json:"input"`
		}
		if json.Unmarshal(raw, &r) == nil && r.Input.Kind != "" {
			add(r.Input, "corpus")
		}
	}
	rnd := cfg.Rand()

	prefixes := []string{"a", "foo", "foo/bar", "a/b/c", "Foo", ""}
	// caller names: clean, empty, dot, dot-dot, dot-dot elements, leading / trailing / double
	// slashes, upper case, a name that repeats the prefix, non-printable bytes
	names := []string{"b", "b/c", "", ".", "..", "../other", "x/../../other", "b/..", "b/../c", "./b", "b/./c",
		"/b", "b/", "b//c", "//", "B", "b/C", "...", "foo", "a/b", "../foo/b", "b\x00c", "\xff\xfe"}
	seqErr := &filt.Err{Code: "TOOMANYREQUESTS", Tag: "backend-iteration-error"}
	rs := func(t, r, a string) filt.RS { return filt.RS{Type: S(t), Resource: S(r), Action: S(a)} }
	// scopes a caller may carry for name n (and n2)
	scopesFor := func(n, n2 string, k int) *filt.Scope {
		switch k % 8 {
		case 0:
			return nil
		case 1:
			return &filt.Scope{Unlimited: true}
		case 2:
			return &filt.Scope{Items: []filt.RS{rs("repository", n, "pull")}}
		case 3:
			return &filt.Scope{Items: []filt.RS{rs("repository", n, "push"), rs("repository", n, "pull"), rs("repository", n2, "pull"), rs("registry", "catalog", "*")}}
		case 4:
			// unknown action, unknown type, a duplicate, a type-only scope
			return &filt.Scope{Items: []filt.RS{rs("repository", n, "delete"), rs("other", n, "pull"), rs("repository", n, "pull"), rs("repository", n, "pull"), rs("whole-scope-string", "", "")}}
		case 5:
			return &filt.Scope{Items: []filt.RS{}}
		case 6:
			// names that sort differently once prefixed, the empty repository name
			return &filt.Scope{Items: []filt.RS{rs("repository", "", "pull"), rs("repository", n2, "push"), rs("repository", n, "*"), rs("registry", n, "pull"), rs("Repository", n, "pull"), rs("repository", "*", "pull")}}
		default:
			return &filt.Scope{Items: []filt.RS{rs("registry", "catalog", "*"), rs("zzz", "../x", "pull")}}
		}
	}
	single := []string{"GetBlob", "GetBlobRange", "GetManifest", "GetTag", "ResolveBlob", "ResolveManifest", "ResolveTag",
		"PushBlob", "PushBlobChunked", "PushBlobChunkedResume", "PushManifest", "DeleteBlob", "DeleteManifest", "DeleteTag", "Tags", "Referrers"}
	listingFor := func(p string) []S {
		// names under the prefix, siblings that share its text, the prefix itself, the
		// bare "prefix/", unrelated names, a name under the prefix with odd bytes
		return []S{S(p + "/one"), S(p + "ey/x"), S(p), S(p + "/"), "other/" + S(p) + "/y", S(p + "/two/three"), S(p + "//d"), S(p + "/../up"), S(strings.ToUpper(p) + "/u"), "zed", S(p + "0/s")}
	}
	writerUse := func(variant int) []filt.Op {
		ops := []filt.Op{{M: "WID"}, {M: "WWrite", Data: "some data"}, {M: "WSize"}, {M: "WChunkSize"}}
		switch variant {
		case 0:
			ops = append(ops, filt.Op{M: "WCommit", Digest: someDigest})
		case 1:
			ops = append(ops, filt.Op{M: "WClose"})
		default:
			ops = append(ops, filt.Op{M: "WCancel"}, filt.Op{M: "WCancel"})
		}
		return ops
	}

	// the ways the views of the stack enumeration are built
	stacks := [][]S{{"foo", "bar"}, {"a", "b", "c"}, {"a", "b/c"}, {"a/b", "c"}, {"a", "a"}, {"foo", "a"}, {"a", "foo"},
		{"foo/bar", "foo"}, {"", "a", "b"}, {"a", "", "b"}, {"Foo", "foo"}}
	stackNames := []string{"b", "", "../other", "b/../c", "/b", "foo", "a/b", "\xff\xfe"}
	// splits is every way of building the view for prefix p from two or more applications of Sub
	var splits func(p string) [][]S
	splits = func(p string) [][]S {
		var out [][]S
		for i := 0; i < len(p); i++ {
			if p[i] != '/' {
				continue
			}
			head, tail := S(p[:i]), p[i+1:]
			out = append(out, []S{head, S(tail)})
			for _, rest := range splits(tail) {
				out = append(out, append([]S{head}, rest...))
			}
		}
		return out
	}
	// randStack: nil (one application of Sub) or one of the splits
	randStack := func(p string) []S {
		sp := splits(p)
		if len(sp) == 0 || rnd.Intn(2) == 0 {
			return nil
		}
		return sp[rnd.Intn(len(sp))]
	}
	// withAgain adds to a history, for some of its listing operations, a later operation
	// that iterates the returned sequence once more
	withAgain := func(h []filt.Op) ([]filt.Op, []int) {
		again := make([]int, len(h))
		any := false
		for j := 0; j < len(h) && len(h) < 12; j++ {
			if again[j] > 0 || !isListing(h[j].M) || rnd.Intn(2) == 0 {
				continue
			}
			// at once, or after the operations that follow
			at := j + 1
			if rnd.Intn(2) == 0 {
				at += rnd.Intn(len(h) - j)
			}
			h = append(h[:at], append([]filt.Op{h[j]}, h[at:]...)...)
			again = append(again[:at], append([]int{j + 1}, again[at:]...)...)
			for i := at + 1; i < len(again); i++ {
				if again[i] > at {
					again[i]++
				}
			}
			any = true
		}
		if !any {
			return h, nil
		}
		return h, again
	}

	// ---- complete enumeration: prefix x name x method, scopes and backend answers in rotation ----
	k := 0
	for _, p := range prefixes {
		for ni, n := range names {
			n2 := names[(ni+5)%len(names)]
			for _, m := range single {
				k++
				add(input{Kind: "hist", Prefix: S(p), Scope: scopesFor(n, n2, k), Hist: []filt.Op{sampleOp(m, n, "", k)},
					Backend: backendCfg{Fail: k%5 == 0, List: []S{"t1", "t2"}}}, "enum")
			}
			// mount: the name on either side
			k++
			add(input{Kind: "hist", Prefix: S(p), Scope: scopesFor(n, n2, k), Hist: []filt.Op{sampleOp("MountBlob", n, n2, k)}, Backend: backendCfg{Fail: k%5 == 0}}, "enum")
			k++
			add(input{Kind: "hist", Prefix: S(p), Scope: scopesFor(n2, n, k), Hist: []filt.Op{sampleOp("MountBlob", n2, n, k)}, Backend: backendCfg{Fail: k%5 == 0}}, "enum")
			// Repositories: the name as start point, over a listing with siblings
			for _, le := range []*filt.Err{nil, seqErr} {
				k++
				add(input{Kind: "hist", Prefix: S(p), Scope: scopesFor(n, n2, k), Hist: []filt.Op{{M: "Repositories", Start: S(n)}},
					Backend: backendCfg{Fail: k%7 == 0, List: listingFor(p), ListErr: le}}, "enum")
			}
			// what the code before the repair computed
			add(input{Kind: "join", Prefix: S(p), Name: S(n)}, "join")
		}
		// every scope shape with every method (the name is clean: the scopes are the subject)
		if p != "" {
			for sk := 0; sk < 8; sk++ {
				for _, m := range filt.Methods {
					add(input{Kind: "hist", Prefix: S(p), Scope: scopesFor("b/c", "../other", sk), Hist: []filt.Op{sampleOp(m, "b/c", "d", sk)},
						Backend: backendCfg{List: listingFor(p)}}, "enum-scope")
				}
			}
		}
		// BlobWriter use after PushBlobChunked / PushBlobChunkedResume
		for _, m := range []string{"PushBlobChunked", "PushBlobChunkedResume"} {
			for variant := 0; variant < 3; variant++ {
				h := append([]filt.Op{sampleOp(m, "b/c", "", 0)}, writerUse(variant)...)
				add(input{Kind: "hist", Prefix: S(p), Scope: scopesFor("b/c", "b", 2+variant), Hist: h}, "writer")
			}
		}
	}
	// ---- a view of a view: Sub applied once per element of the stack, innermost first. It
	// stands for the joined prefix whatever the elements are (equal, nested three deep, with
	// several path elements each, an empty one anywhere). Every method, the names that tell
	// prefixes and orders apart, every scope shape, listings from a start point. ----
	for _, st := range stacks {
		p := string(joinStack(st))
		for ni, n := range stackNames {
			n2 := stackNames[(ni+3)%len(stackNames)]
			for _, m := range filt.Methods {
				k++
				bc := backendCfg{Fail: k%5 == 0, List: []S{"t1", "t2"}}
				if m == "Repositories" {
					bc.List = listingFor(p)
				}
				add(input{Kind: "hist", Prefix: S(p), Stack: st, Scope: scopesFor(n, n2, k), Hist: []filt.Op{sampleOp(m, n, n2, k)}, Backend: bc}, "enum-stack")
			}
		}
		for sk := 0; sk < 8; sk++ {
			add(input{Kind: "hist", Prefix: S(p), Stack: st, Scope: scopesFor("b/c", "../other", sk),
				Hist:    []filt.Op{sampleOp("GetTag", "b/c", "", sk), sampleOp("MountBlob", "b/c", "d", sk), {M: "Repositories", Start: "one"}},
				Backend: backendCfg{List: listingFor(p)}}, "enum-stack")
		}
	}
	// ---- every boundary tuple of the other arguments x every method x the scope shapes: the
	// argument values a wrapper could single out (whole-blob range, empty upload id, a tag
	// that reads as a digest, empty start point, mount onto itself ...) must reach the backend
	// as the same method with the same arguments, under the scope rewritten once. Views built
	// in one step and as views of views; a clean name under every scope shape, and a name that
	// repeats the prefix under the scopes that hold repository entries. ----
	for _, v := range []struct {
		p     string
		stack []S
	}{{"foo", nil}, {"a/b/c", nil}, {"foo/bar", []S{"foo", "bar"}}, {"a/a", []S{"a", "a"}}} {
		for ni, n := range []string{"bar", "foo", "a"} {
			shapes := []int{0, 1, 2, 3, 4, 5, 6, 7}
			if ni > 0 {
				shapes = []int{2, 3, 6}
			}
			if ni == 2 && v.p != "a/a" {
				continue
			}
			for _, m := range filt.Methods {
				for _, op := range argTuples(m, n, "x/y") {
					for _, sk := range shapes {
						k++
						bc := backendCfg{Fail: k%5 == 0, List: []S{"t1", "t2"}}
						if m == "Repositories" {
							bc.List = listingFor(v.p)
						}
						add(input{Kind: "hist", Prefix: S(v.p), Stack: v.stack, Scope: scopesFor(n, "x/y", sk), Hist: []filt.Op{op}, Backend: bc}, "enum-args")
					}
				}
			}
		}
	}
	// ---- a sequence value iterated more than once: every iteration is the listing again
	// (the start point, the name and the scope mean what they meant the first time) ----
	for _, p := range prefixes {
		for ni, n := range names {
			n2 := names[(ni+5)%len(names)]
			for _, m := range []string{"Repositories", "Tags", "Referrers"} {
				k++
				op := sampleOp(m, n, "", 0)
				bc := backendCfg{Fail: k%7 == 0, List: []S{"t1", "t2"}}
				if m == "Repositories" {
					bc.List = listingFor(p)
				}
				if k%3 == 0 {
					bc.ListErr = seqErr
				}
				add(input{Kind: "hist", Prefix: S(p), Scope: scopesFor(n, n2, k), Hist: []filt.Op{op, op, op}, Again: []int{0, 1, 1}, Backend: bc}, "enum-again")
			}
		}
	}
	// ---- a view serves many calls, each with its own context: the scope the backend sees
	// is the rewritten scope of THIS call, whatever the calls before carried. The pool holds
	// the 8 shapes and scopes that are parts of them / share entries with them, so that every
	// ordered pair (equal, narrower, wider, overlapping, disjoint, same size, none, unlimited,
	// empty) follows one another on one view value: X, Y, X. Methods in rotation. ----
	scopePool := func(n, n2 string) []*filt.Scope {
		var pool []*filt.Scope
		for sk := 0; sk < 8; sk++ {
			pool = append(pool, scopesFor(n, n2, sk))
		}
		return append(pool,
			&filt.Scope{Items: []filt.RS{rs("repository", n, "push")}},
			&filt.Scope{Items: []filt.RS{rs("repository", n2, "pull")}},
			&filt.Scope{Items: []filt.RS{rs("repository", n, "pull"), rs("repository", n2, "pull")}},
			&filt.Scope{Items: []filt.RS{rs("registry", "catalog", "*")}},
			&filt.Scope{Items: []filt.RS{rs("repository", n, "pull"), rs("registry", "catalog", "*")}},
			&filt.Scope{Items: []filt.RS{rs("repository", n, "pull"), rs("repository", n, "push")}},
			&filt.Scope{Items: []filt.RS{rs("other", n, "pull")}},
			// names that read as something else: a wildcard; the catalog and dots; with n
			&filt.Scope{Items: []filt.RS{rs("repository", "*", "pull")}},
			&filt.Scope{Items: []filt.RS{rs("repository", "_catalog", "*"), rs("repository", "..", "pull"), rs("repository", "**", "push")}},
			&filt.Scope{Items: []filt.RS{rs("repository", n, "pull"), rs("repository", "*", "pull")}})
	}
	type viewCfg struct {
		p     string
		stack []S
	}
	viewCfgs := []viewCfg{{"foo", nil}, {"a/b/c", nil}, {"foo/bar", []S{"foo", "bar"}}, {"a/a", []S{"a", "a"}}}
	nthMethod := func(i int) string { return filt.Methods[((i%len(filt.Methods))+len(filt.Methods))%len(filt.Methods)] }
	opFor := func(m, n, n2 string, v int) filt.Op { return sampleOp(m, n, n2, v) }
	// the scopes and the views are the subject here: a short listing with a name under the
	// prefix, a sibling sharing its text, an unrelated name
	shortListing := func(p string) []S { return []S{S(p + "/one"), S(p + "ey/x"), "zed"} }
	{
		pool := scopePool("b/c", "d")
		for xi, x := range pool {
			for yi, y := range pool {
				if xi == yi {
					continue
				}
				k++
				v := viewCfgs[k%len(viewCfgs)]
				h := []filt.Op{opFor(nthMethod(k), "b/c", "d", k), opFor(nthMethod(k*7+3), "b/c", "d", k), opFor(nthMethod(k*5+1), "d", "b/c", k)}
				add(input{Kind: "hist", Prefix: S(v.p), Stack: v.stack, Hist: h, Ctxs: []opCtx{{Scope: x}, {Scope: y}, {Scope: x}},
					Backend: backendCfg{Fail: k%5 == 0, List: shortListing(v.p)}}, "enum-ctxs")
			}
		}
		// every method as the call that follows a wider, a narrower, an overlapping scope, and as
		// the call that leaves the scope behind for the next one
		wide, narrow, other, part := pool[3], pool[2], pool[9], pool[10]
		for vi, v := range viewCfgs {
			for mi, m := range filt.Methods {
				if (vi+mi)%2 == 1 {
					continue // every method on two of the four views
				}
				k++
				m2 := nthMethod(mi + 5)
				h := []filt.Op{opFor(m, "b/c", "d", 0), opFor(m, "b/c", "d", 1), opFor(m2, "d", "b/c", 0), opFor(m, "d", "b/c", 0), opFor(m, "b/c", "d", 0), opFor(m2, "b/c", "d", 0)}
				add(input{Kind: "hist", Prefix: S(v.p), Stack: v.stack, Hist: h,
					Ctxs:    []opCtx{{Scope: wide}, {Scope: narrow}, {Scope: part}, {Scope: other}, {Scope: wide}, {Scope: pool[12]}},
					Backend: backendCfg{Fail: k%5 == 0, List: shortListing(v.p)}}, "enum-ctxs")
			}
		}
		// ---- several views alive together over one backend (other prefixes, the same prefix as
		// a second value, a prefix that extends the first, the empty prefix = the backend itself):
		// the calls go from one to the other under equal and under different scopes; each is
		// judged by its own view's prefix ----
		for _, vs := range [][]S{{"foo", "a"}, {"foo", "foo/bar"}, {"a", "a/b/c", "a/b"}, {"foo", "foo"}, {"foo", ""}, {"Foo", "foo"}, {"a/b/c", "a"}} {
			for mi, m := range filt.Methods {
				{
					k++
					// equal scopes, then a narrower one; a wider one; an overlapping one
					pr := [][2]*filt.Scope{{pool[3], pool[3]}, {pool[3], pool[2]}, {pool[2], pool[10]}}[k%3]
					last := len(vs) - 1
					m2 := nthMethod(mi + 7)
					h := []filt.Op{opFor(m, "b/c", "d", k), opFor(m, "b/c", "d", k), opFor(m2, "b/c", "d", k), opFor(m, "d", "b/c", k), opFor(m2, "b/c", "d", k)}
					add(input{Kind: "hist", Prefix: vs[0], Views: vs[1:], Hist: h,
						Ctxs:    []opCtx{{Scope: pr[0]}, {Scope: pr[0], View: 1}, {Scope: pr[1]}, {Scope: pr[0], View: last}, {Scope: pr[1], View: 1}},
						Backend: backendCfg{Fail: k%5 == 0, List: shortListing(string(vs[0]))}}, "enum-views")
				}
			}
		}
		// ---- one view, one scope, names that are related to the name of the call before (a
		// parent, a child, another case, with a slash more, the empty name, the name the
		// previous one would clean to): n1, n2, n1 ----
		related := [][2]string{{"b/c", "b"}, {"b", "b/c"}, {"b", "B"}, {"b", "b/"}, {"b", ""}, {"../other", "other"}, {"b/../c", "c"}, {"foo", "b"}}
		{
			for _, pr := range related {
				for _, m := range filt.Methods {
					k++
					v := viewCfgs[k%3]
					add(input{Kind: "hist", Prefix: S(v.p), Stack: v.stack, Scope: scopesFor(pr[0], pr[1], 2+k%3),
						Hist:    []filt.Op{sampleOp(m, pr[0], pr[1], k), sampleOp(m, pr[1], pr[0], k), sampleOp(m, pr[0], pr[1], k)},
						Backend: backendCfg{Fail: k%5 == 0, List: shortListing(v.p)}}, "enum-names")
				}
			}
		}
	}
	// ---- repository names in the SCOPE that look special: the rewrite must treat every
	// repository entry alike, whatever its name reads as (a wildcard, nothing, dots, the
	// catalog, the prefix itself, a name already under the prefix, a name ending in it, a
	// sibling sharing its text, the name of the call). Every such name x every method x
	// views built in one step and as views of views; the entry alone, among others, under a
	// known, an unknown, the wildcard and the empty action, and next to an entry of another
	// resource type with the same name (which must stay as it is). ----
	{
		type vc struct {
			p     string
			stack []S
		}
		views := []vc{{"a", nil}, {"foo", nil}, {"foo/bar", nil}, {"a/b/c", nil}, {"Foo", nil}, {"foo/bar", []S{"foo", "bar"}}, {"a/a", []S{"a", "a"}}}
		for _, v := range views {
			for si, sn := range specialScopeNames(v.p) {
				for mi, m := range filt.Methods {
					k++
					var sc *filt.Scope
					switch (si + mi) % 5 {
					case 0:
						sc = &filt.Scope{Items: []filt.RS{rs("repository", sn, "pull")}}
					case 1:
						sc = &filt.Scope{Items: []filt.RS{rs("repository", sn, "*"), rs("repository", "b/c", "pull"), rs("registry", "catalog", "*")}}
					case 2:
						sc = &filt.Scope{Items: []filt.RS{rs("repository", "b/c", "push"), rs("repository", sn, "frobnicate")}}
					case 3:
						sc = &filt.Scope{Items: []filt.RS{rs("registry", sn, "pull"), rs("repository", sn, "push"), rs("repository", sn, "pull"), rs("other", sn, "pull")}}
					default:
						sc = &filt.Scope{Items: []filt.RS{rs("repository", sn, ""), rs("repository", "d", "pull")}}
					}
					add(input{Kind: "hist", Prefix: S(v.p), Stack: v.stack, Scope: sc, Hist: []filt.Op{sampleOp(m, "b/c", "d", k)},
						Backend: backendCfg{Fail: k%5 == 0, List: shortListing(v.p)}}, "enum-scope-names")
				}
			}
			// the special name is also the name of the call (and of the mount's other side)
			for si, sn := range specialScopeNames(v.p) {
				m := nthMethod(si)
				k++
				add(input{Kind: "hist", Prefix: S(v.p), Stack: v.stack, Scope: &filt.Scope{Items: []filt.RS{rs("repository", sn, "pull"), rs("repository", "d", "push")}},
					Hist: []filt.Op{sampleOp(m, sn, "d", k), sampleOp("MountBlob", "d", sn, k)}, Backend: backendCfg{List: shortListing(v.p)}}, "enum-scope-names")
			}
		}
		// per-call contexts: a special name comes and goes between the calls of one view
		for vi, v := range views[:4] {
			sns := specialScopeNames(v.p)
			for si, sn := range sns {
				k++
				sn2 := sns[(si+3)%len(sns)]
				x := &filt.Scope{Items: []filt.RS{rs("repository", sn, "pull")}}
				y := &filt.Scope{Items: []filt.RS{rs("repository", "b/c", "pull"), rs("repository", sn2, "pull")}}
				h := []filt.Op{opFor(nthMethod(k), "b/c", "d", k), opFor(nthMethod(k*7+3), "b/c", "d", k), opFor(nthMethod(k*5+1), "d", "b/c", k)}
				add(input{Kind: "hist", Prefix: S(v.p), Stack: v.stack, Hist: h, Ctxs: []opCtx{{Scope: x}, {Scope: y}, {Scope: x}},
					Backend: backendCfg{Fail: (k+vi)%5 == 0, List: shortListing(v.p)}}, "enum-scope-names")
			}
		}
	}
	// promoted methods of the embedded Funcs
	for _, m := range filt.Methods {
		add(input{Kind: "promoted", Prefix: "foo", Method: m}, "promoted")
	}

	// ---- the Lister-contract backend: arbitrary names, every interesting start point ----
	for _, p := range []string{"a", "foo", "foo/bar", ""} {
		base := []S{S(p + "/b"), S(p + "/c"), S(p + "/c/d"), S(p + "ey/x"), S(p), S(p + "/"), "b", "c", "zed", S(p + "/B"), S(p + "//x"), S(p + "/..")}
		starts := []S{"", "b", "c", "c/d", "a", "zz", "B", "/", S(p + "/b"), S(p), "c/", "bz", "..", "."}
		for _, st := range starts {
			add(input{Kind: "list", Prefix: S(p), Names: base, Start: st}, "enum-list")
			// the same listing from the second iteration of the sequence, from a view of a view
			add(input{Kind: "list", Prefix: S(p), Names: base, Start: st, Pass: 1}, "enum-list")
			for _, sp := range splits(p) {
				add(input{Kind: "list", Prefix: S(p), Stack: sp, Names: base, Start: st}, "enum-list")
			}
		}
	}

	nh, nseq, nlist, ntwin := 150, 300, 300, 360
	if cfg.Thorough() {
		nh, nseq, nlist, ntwin = 6000, 12000, 12000, 9000
	}
	randName := func() string {
		if rnd.Intn(3) == 0 {
			// assemble from elements
			elems := []string{"b", "c", "..", ".", "", "foo", "B", "other", "a", "*", "**", "_catalog", "bar", "?"}
			var parts []string
			for i := 1 + rnd.Intn(4); i > 0; i-- {
				parts = append(parts, elems[rnd.Intn(len(elems))])
			}
			return strings.Join(parts, "/")
		}
		if rnd.Intn(5) == 0 {
			sp := specialScopeNames(prefixes[rnd.Intn(len(prefixes)-1)])
			return sp[rnd.Intn(len(sp))]
		}
		return names[rnd.Intn(len(names))]
	}
	randScope := func() *filt.Scope {
		switch rnd.Intn(6) {
		case 0:
			return nil
		case 1:
			return &filt.Scope{Unlimited: true}
		}
		sc := &filt.Scope{Items: []filt.RS{}}
		types := []string{"repository", "repository", "repository", "registry", "other", "Repository"}
		actions := []string{"pull", "push", "*", "delete", ""}
		for i := rnd.Intn(6); i > 0; i-- {
			sc.Items = append(sc.Items, rs(types[rnd.Intn(len(types))], randName(), actions[rnd.Intn(len(actions))]))
		}
		if rnd.Intn(4) == 0 {
			sc.Items = append(sc.Items, rs("registry", "catalog", "*"))
		}
		return sc
	}
	// randCtxs: for half of the histories, a context of its own for every call. The scopes
	// walk: the same as the call before, a part of it, it and more, or a fresh one; the calls
	// go to the case's view or to one of up to two further views. An operation that iterates
	// a kept sequence again is the call that made the sequence: same context, same view.
	randCtxs := func(h []filt.Op, again []int) ([]opCtx, []S) {
		if rnd.Intn(2) == 0 {
			return nil, nil
		}
		var views []S
		if rnd.Intn(3) == 0 {
			for n := 1 + rnd.Intn(2); n > 0; n-- {
				views = append(views, S(prefixes[rnd.Intn(len(prefixes))]))
			}
		}
		ctxs := make([]opCtx, len(h))
		prev := randScope()
		for i := range h {
			if i < len(again) && again[i] > 0 {
				ctxs[i] = ctxs[again[i]-1]
				continue
			}
			sc := prev
			limited := prev != nil && !prev.Unlimited && len(prev.Items) > 0
			switch r := rnd.Intn(10); {
			case r < 2: // the same
			case r < 5 && limited: // a part of it (not empty when it has two entries or more)
				var items []filt.RS
				for _, it := range prev.Items {
					if rnd.Intn(2) == 0 {
						items = append(items, it)
					}
				}
				if len(items) == 0 {
					items = []filt.RS{prev.Items[rnd.Intn(len(prev.Items))]}
				}
				sc = &filt.Scope{Items: items}
			case r < 7 && limited: // it and more
				items := append([]filt.RS{}, prev.Items...)
				if more := randScope(); more != nil {
					items = append(items, more.Items...)
				}
				items = append(items, rs("repository", randName(), "pull"))
				sc = &filt.Scope{Items: items}
			default:
				sc = randScope()
			}
			ctxs[i] = opCtx{Scope: sc, View: rnd.Intn(len(views) + 1)}
			prev = sc
		}
		return ctxs, views
	}
	// ---- random histories, scripted backend ----
	for i := 0; i < nh; i++ {
		p := prefixes[rnd.Intn(len(prefixes))]
		stack := randStack(p)
		if rnd.Intn(4) == 0 {
			stack = stacks[rnd.Intn(len(stacks))]
			p = string(joinStack(stack))
		}
		var h []filt.Op
		for n := 1 + rnd.Intn(5); n > 0; n-- {
			m := filt.Methods[rnd.Intn(len(filt.Methods))]
			if rnd.Intn(4) == 0 {
				m = "Repositories"
			}
			op := sampleOp(m, randName(), randName(), rnd.Intn(4))
			if rnd.Intn(2) == 0 {
				// a boundary tuple of the other arguments
				ts := argTuples(m, string(op.Repo), string(op.Repo2))
				if m == "Repositories" {
					ts = argTuples(m, string(op.Start), randName())
				}
				op = ts[rnd.Intn(len(ts))]
			}
			h = append(h, op)
		}
		h, again := withAgain(h)
		bc := backendCfg{Fail: rnd.Intn(4) == 0, List: listingFor(p)}
		if rnd.Intn(3) == 0 {
			bc.ListErr = seqErr
		}
		ctxs, views := randCtxs(h, again)
		add(input{Kind: "hist", Prefix: S(p), Stack: stack, Scope: randScope(), Ctxs: ctxs, Views: views, Hist: h, Again: again, Backend: bc}, "random")
	}
	// ---- random histories over a recording backend in front of ocimem, and the same
	// histories differentially against a twin registry ----
	for i := 0; i < ntwin; i++ {
		p := []string{"foo", "a", "foo/bar", "a/a", "a/foo/bar"}[rnd.Intn(5)]
		content := []S{S(p), S(p + "/b"), S(p + "/b/c"), S(p + "/c"), S(p + "ey"), S(p + "ey/b"), "other", "b", "c", S(p + "/other"), S(p + "/" + p + "/b")}
		mnames := []string{"b", "b/c", "c", "other", p + "/b", "", ".", "..", "../other", "../" + p + "ey", "b/..", "b/../c", "./b", "/b", "b/", "b//c", "B", "new", "../" + p + "/b"}
		var h []filt.Op
		for n := 1 + rnd.Intn(6); n > 0; n-- {
			m := filt.Methods[rnd.Intn(len(filt.Methods))]
			pick := func() string {
				if rnd.Intn(2) == 0 {
					return mnames[rnd.Intn(5)] // a repository that exists under the prefix
				}
				return mnames[rnd.Intn(len(mnames))]
			}
			op := memOp(p, m, pick(), pick(), rnd.Intn(6))
			if m == "Repositories" {
				op.Start = S([]string{"", "b", "b/c", "c", "a", "other", "zz", "b/"}[rnd.Intn(8)])
			}
			switch m {
			case "GetBlobRange":
				r := memRanges[rnd.Intn(len(memRanges))]
				op.O0, op.O1 = r[0], r[1]
			case "Tags":
				op.Start = S([]string{"", "", "t1", "t0", "t2"}[rnd.Intn(5)])
			case "PushBlobChunked":
				op.Hint = []int64{11, 0, -1, 1}[rnd.Intn(4)]
			case "Referrers":
				if rnd.Intn(2) == 0 {
					op.Art = "application/vnd.oci.image.config.v1+json"
				}
			}
			h = append(h, op)
			if (m == "PushBlobChunked" || m == "PushBlobChunkedResume") && rnd.Intn(2) == 0 {
				// use the writer obtained last (W = -1; skipped when there is none)
				h = append(h, filt.Op{M: "WWrite", W: -1, Data: "chunk"}, filt.Op{M: "WSize", W: -1},
					filt.Op{M: "WCommit", W: -1, Digest: dig("chunk")})
			}
		}
		kind := "twin"
		if i%3 == 0 {
			kind = "hist"
		}
		if kind == "hist" {
			// writer indices of a recording backend are the backend's: drop writer use
			var h2 []filt.Op
			for _, op := range h {
				if !op.IsWriterOp() {
					h2 = append(h2, op)
				}
			}
			h = h2
		}
		var again []int
		if rnd.Intn(2) == 0 {
			h, again = withAgain(h)
		}
		var ctxs []opCtx
		var views []S
		if kind == "hist" && len(h) > 0 {
			ctxs, views = randCtxs(h, again)
		}
		add(input{Kind: kind, Prefix: S(p), Stack: randStack(p), Scope: randScope(), Ctxs: ctxs, Views: views, Hist: h, Again: again, Backend: backendCfg{Mem: content}}, "random-mem")
	}
	// ---- listings yield by yield: random contents, errors anywhere, consumers that stop anywhere ----
	for i := 0; i < nseq; i++ {
		p := []string{"a", "foo", "foo/bar", "a/b/c"}[rnd.Intn(4)]
		pool := listingFor(p)
		var evs []filt.Yield
		for n := rnd.Intn(9); n > 0; n-- {
			y := filt.Yield{Item: pool[rnd.Intn(len(pool))]}
			if rnd.Intn(7) == 0 {
				y.Err = &filt.Err{Code: errCodes[rnd.Intn(len(errCodes))], Tag: S(fmt.Sprintf("iteration-error-%d", len(evs)))}
				if rnd.Intn(2) == 0 {
					y.Item = ""
				}
			}
			evs = append(evs, y)
		}
		in := input{Kind: "seq", Prefix: S(p), Stack: randStack(p), Scope: randScope(), Events: evs, Start: S([]string{"", "", "one", "b", "../x", "two/"}[rnd.Intn(6)])}
		if rnd.Intn(3) > 0 {
			k := rnd.Intn(len(evs) + 2)
			in.Stop = &k
		}
		// the calls the view served before the listing, under scopes of their own
		for n := []int{0, 0, 1, 2, 3}[rnd.Intn(5)]; n > 0; n-- {
			sc := randScope()
			if in.Scope != nil && !in.Scope.Unlimited && rnd.Intn(2) == 0 {
				// the listing's scope and more
				sc = &filt.Scope{Items: append(append([]filt.RS{}, in.Scope.Items...), rs("repository", randName(), "pull"), rs("registry", "catalog", "*"))}
			}
			in.Warm = append(in.Warm, sc)
		}
		// the observed iteration is the first, second or third over the sequence value
		for n := []int{0, 0, 1, 1, 2}[rnd.Intn(5)]; n > 0; n-- {
			in.PrevStops = append(in.PrevStops, rnd.Intn(len(evs)+2)-1)
		}
		add(in, "random-seq")
	}
	// ---- the Lister-contract backend, random names and start points ----
	for i := 0; i < nlist; i++ {
		p := []string{"a", "foo", "foo/bar", "a/b/c", ""}[rnd.Intn(5)]
		var ns []S
		for n := rnd.Intn(10); n > 0; n-- {
			switch rnd.Intn(5) {
			case 0:
				ns = append(ns, S(randName()))
			case 1:
				ns = append(ns, S(p+"ey/"+randName()))
			default:
				ns = append(ns, S(p+"/"+randName()))
			}
		}
		st := S(randName())
		if rnd.Intn(4) == 0 {
			st = ""
		}
		if rnd.Intn(5) == 0 {
			st = S(p + "/" + string(st)) // a caller that passes the full name by mistake
		}
		add(input{Kind: "list", Prefix: S(p), Stack: randStack(p), Names: ns, Start: st, Pass: []int{0, 0, 1, 2}[rnd.Intn(4)]}, "random-list")
	}
	if err := out.Flush(); err != nil {
		panic(err)
	}
}
