// Package memsim executes operation histories (the op type of coq/Model/Iface.v) against
// any ociregistry.Interface, canonicalises the results and prints both as Coq terms.
package memsim

import (
	"bytes"
	"context"
	"crypto/sha256"
	"encoding/hex"
	"encoding/json"
	"errors"
	"fmt"
	"io"
	"sort"
	"strings"

	"cuelabs.dev/go/oci/ociregistry"
	ocispec "github.com/opencontainers/image-spec/specs-go/v1"
	"verif/harness/hx"
)

type Desc struct {
	Media  string `json:"media"`
	Digest string `json:"digest"`
	Size   int64  `json:"size"`
	// Extra: canonical rendering (ExtraOf) of every member of the descriptor other than media
	// type, digest and size - urls, annotations, platform, artifactType, data; "" when there is
	// none.  In a result: what the registry answered (the registry fills in media type, digest
	// and size only, so anything here is compared with the model's empty field); in the
	// descriptor argument of PushBlob: what the pusher's descriptor carries along.
	Extra string `json:"extra,omitempty"`
}

type Op struct {
	Kind    string `json:"kind"`
	Repo    string `json:"repo,omitempty"`
	From    string `json:"from,omitempty"`
	Digest  string `json:"digest,omitempty"`
	Tag     string `json:"tag,omitempty"`
	ID      string `json:"id,omitempty"`
	Media   string `json:"media,omitempty"`
	Art     string `json:"art,omitempty"`
	Start   string `json:"start,omitempty"`
	Content []byte `json:"content,omitempty"`
	Desc    *Desc  `json:"desc,omitempty"`
	O0      int64  `json:"o0,omitempty"`
	O1      int64  `json:"o1,omitempty"`
	Off     int64  `json:"off,omitempty"`
	Hint    int64  `json:"hint,omitempty"`
	W       int    `json:"w,omitempty"`
	// Opaque: PushBlob hands the content over as a reader of unknown length (no Len, no
	// GetBody for net/http); never part of the Coq case - the registry's answer may not depend on it
	Opaque bool `json:"opaque,omitempty"`
}

// opaqueReader hides what kind of reader it wraps.
type opaqueReader struct{ r io.Reader }

func (o opaqueReader) Read(p []byte) (int, error) { return o.r.Read(p) }

type Result struct {
	Kind  string   `json:"kind"` // desc read list descs writer n str unit err panic
	Desc  *Desc    `json:"desc,omitempty"`
	Data  []byte   `json:"data,omitempty"`
	List  []string `json:"list,omitempty"`
	Descs []Desc   `json:"descs,omitempty"`
	W     int      `json:"w,omitempty"`
	N     int64    `json:"n,omitempty"`
	Str   string   `json:"str,omitempty"`
	Code  string   `json:"code,omitempty"` // for err: OCI code or "" when the error carries none
	Msg   string   `json:"msg,omitempty"`  // readable only, never compared
	IterErrCode *string `json:"iter_err_code,omitempty"`
}

func coqDesc(d Desc) string {
	return fmt.Sprintf("{| d_media := %s; d_digest := %s; d_size := %s; d_artifact := %s |}", hx.B(d.Media), hx.B(d.Digest), hx.Z(d.Size), hx.B(d.Extra))
}

func (o Op) Coq() string {
	switch o.Kind {
	case "GetBlob", "GetManifest", "ResolveBlob", "ResolveManifest", "DeleteBlob", "DeleteManifest":
		return fmt.Sprintf("%s %s %s", o.Kind, hx.B(o.Repo), hx.B(o.Digest))
	case "GetBlobRange":
		return fmt.Sprintf("GetBlobRange %s %s %s %s", hx.B(o.Repo), hx.B(o.Digest), hx.Z(o.O0), hx.Z(o.O1))
	case "GetTag", "ResolveTag", "DeleteTag":
		return fmt.Sprintf("%s %s %s", o.Kind, hx.B(o.Repo), hx.B(o.Tag))
	case "PushBlob":
		return fmt.Sprintf("PushBlob %s %s %s", hx.B(o.Repo), coqDesc(*o.Desc), hx.BB(o.Content))
	case "PushBlobChunked":
		return fmt.Sprintf("PushBlobChunked %s %s", hx.B(o.Repo), hx.Z(o.Hint))
	case "PushBlobChunkedResume":
		return fmt.Sprintf("PushBlobChunkedResume %s %s %s %s", hx.B(o.Repo), hx.B(o.ID), hx.Z(o.Off), hx.Z(o.Hint))
	case "MountBlob":
		return fmt.Sprintf("MountBlob %s %s %s", hx.B(o.From), hx.B(o.Repo), hx.B(o.Digest))
	case "PushManifest":
		return fmt.Sprintf("PushManifest %s %s %s %s", hx.B(o.Repo), hx.B(o.Tag), hx.BB(o.Content), hx.B(o.Media))
	case "Repositories":
		return fmt.Sprintf("Repositories %s", hx.B(o.Start))
	case "Tags":
		return fmt.Sprintf("Tags %s %s", hx.B(o.Repo), hx.B(o.Start))
	case "Referrers":
		return fmt.Sprintf("Referrers %s %s %s", hx.B(o.Repo), hx.B(o.Digest), hx.B(o.Art))
	case "WWrite":
		return fmt.Sprintf("WWrite %d %s", o.W, hx.BB(o.Content))
	case "WClose", "WSize", "WChunkSize", "WID", "WCancel":
		return fmt.Sprintf("%s %d", o.Kind, o.W)
	case "WCommit":
		return fmt.Sprintf("WCommit %d %s", o.W, hx.B(o.Digest))
	}
	panic("unknown op kind " + o.Kind)
}

var codeNames = map[string]string{
	"BLOB_UNKNOWN": "BLOB_UNKNOWN", "BLOB_UPLOAD_INVALID": "BLOB_UPLOAD_INVALID", "BLOB_UPLOAD_UNKNOWN": "BLOB_UPLOAD_UNKNOWN",
	"DIGEST_INVALID": "DIGEST_INVALID", "MANIFEST_BLOB_UNKNOWN": "MANIFEST_BLOB_UNKNOWN", "MANIFEST_INVALID": "MANIFEST_INVALID",
	"MANIFEST_UNKNOWN": "MANIFEST_UNKNOWN", "NAME_INVALID": "NAME_INVALID", "NAME_UNKNOWN": "NAME_UNKNOWN",
	"SIZE_INVALID": "SIZE_INVALID", "UNAUTHORIZED": "UNAUTHORIZED", "DENIED": "DENIED", "UNSUPPORTED": "UNSUPPORTED",
	"TOOMANYREQUESTS": "TOOMANYREQUESTS", "RANGE_INVALID": "RANGE_INVALID",
}

func CoqCode(c string) string {
	if c == "" {
		return "ENone"
	}
	if n, ok := codeNames[c]; ok {
		return n
	}
	return "(ECustom " + hx.B(c) + ")"
}

func coqOptErr(c *string) string {
	if c == nil {
		return "None"
	}
	return "(Some " + CoqCode(*c) + ")"
}

// Coq renders an observed result as a term of type [oresult] (see coq/Obs/MemObs.v).
func (r Result) Coq() string {
	switch r.Kind {
	case "desc":
		return "OOk (RDesc " + coqDesc(*r.Desc) + ")"
	case "read":
		return "OOk (RRead " + coqDesc(*r.Desc) + " " + hx.BB(r.Data) + ")"
	case "list":
		return "OList " + hx.Bs(r.List) + " " + coqOptErr(r.IterErrCode)
	case "descs":
		ds := make([]string, len(r.Descs))
		for i, d := range r.Descs {
			ds[i] = coqDesc(d)
		}
		return "ODescs " + hx.List(ds) + " " + coqOptErr(r.IterErrCode)
	case "writer":
		return fmt.Sprintf("OOk (RWriter %d)", r.W)
	case "n":
		return "OOk (RN " + hx.Z(r.N) + ")"
	case "str":
		return "OOk (RStr " + hx.B(r.Str) + ")"
	case "unit":
		return "OOk RUnit"
	case "err":
		return "OErr " + CoqCode(r.Code)
	case "panic":
		return "OPanic"
	}
	panic("unknown result kind " + r.Kind)
}

// ErrCode extracts the OCI error code an error carries ("" when none).
func ErrCode(err error) string {
	var e ociregistry.Error
	if errors.As(err, &e) {
		return e.Code()
	}
	return ""
}

// Exec runs ops against one registry stack.
type Exec struct {
	Reg       ociregistry.Interface
	Writers   []ociregistry.BlobWriter
	byPtr     map[ociregistry.BlobWriter]int
	PtrIdent  bool // identify writers by pointer (ocimem returns the same *Buffer on resume)
	realID    map[string]string // canonical -> real
	canonID   map[string]string // real -> canonical
	freshIDs  int
	Ctx       context.Context
	// CallCtx: every call that does not hand out a BlobWriter gets a context of its own
	// (derived from Ctx) that is cancelled as soon as the call has returned and its result has
	// been consumed - what net/http does with the context of a request when the handler returns.
	// An implementation that keeps a context past the call and consults it later gives a wrong
	// answer afterwards.  PushBlobChunked / PushBlobChunkedResume are exempt (their context stays
	// active as long as the BlobWriter is around, says the interface): their caller passes the
	// context it manages itself to RunCtx.
	CallCtx bool
}

func NewExec(reg ociregistry.Interface, ptrIdent bool) *Exec {
	return &Exec{Reg: reg, byPtr: map[ociregistry.BlobWriter]int{}, PtrIdent: ptrIdent,
		realID: map[string]string{}, canonID: map[string]string{}, Ctx: context.Background()}
}

func fromDesc(d ociregistry.Descriptor) *Desc {
	return &Desc{Media: d.MediaType, Digest: string(d.Digest), Size: d.Size, Extra: ExtraOf(d)}
}

// ExtraOf renders every member of d beyond media type, digest and size canonically (JSON object,
// keys sorted; a member that is present but empty - a non-nil empty map or slice - is rendered
// too); "" when d has none.
func ExtraOf(d ociregistry.Descriptor) string {
	m := map[string]any{}
	if d.URLs != nil {
		m["urls"] = d.URLs
	}
	if d.Annotations != nil {
		m["annotations"] = d.Annotations
	}
	if d.Platform != nil {
		m["platform"] = d.Platform
	}
	if d.ArtifactType != "" {
		m["artifactType"] = d.ArtifactType
	}
	if d.Data != nil {
		m["data"] = d.Data
	}
	if len(m) == 0 {
		return ""
	}
	b, err := json.Marshal(m)
	if err != nil {
		panic(err)
	}
	return string(b)
}

// GoDesc is the descriptor a Desc stands for, optional members included (fresh maps / slices).
func (d Desc) GoDesc() ociregistry.Descriptor {
	r := ociregistry.Descriptor{MediaType: d.Media, Digest: ociregistry.Digest(d.Digest), Size: d.Size}
	if d.Extra != "" {
		var x struct {
			URLs         []string          `json:"urls"`
			Annotations  map[string]string `json:"annotations"`
			Platform     *ocispec.Platform `json:"platform"`
			ArtifactType string            `json:"artifactType"`
			Data         []byte            `json:"data"`
		}
		if err := json.Unmarshal([]byte(d.Extra), &x); err != nil {
			panic("memsim: Desc.Extra: " + err.Error())
		}
		r.URLs, r.Annotations, r.Platform, r.ArtifactType, r.Data = x.URLs, x.Annotations, x.Platform, x.ArtifactType, x.Data
	}
	return r
}

// scribbleDesc: the descriptor handed to a push is the caller's too - once the call has returned
// the caller may change its maps and slices (a layer descriptor that gets another annotation, a
// builder that reuses its url slice).  A registry that kept them shows the changes afterwards.
func scribbleDesc(d ociregistry.Descriptor) {
	for i := range d.URLs {
		d.URLs[i] = "https://scribbled.example/"
	}
	for k := range d.Annotations {
		d.Annotations[k] = "scribbled"
	}
	if d.Annotations != nil {
		d.Annotations["scribbled"] = "after the push"
	}
	if d.Platform != nil {
		d.Platform.OS = "scribbled"
	}
	for i := range d.Data {
		d.Data[i] = '#'
	}
}

func errResult(err error) Result {
	return Result{Kind: "err", Code: ErrCode(err), Msg: err.Error()}
}

func (e *Exec) canon(real string, fresh bool) string {
	if c, ok := e.canonID[real]; ok {
		return c
	}
	if !fresh {
		return real
	}
	c := fmt.Sprintf("#%d", e.freshIDs)
	e.freshIDs++
	e.canonID[real] = c
	e.realID[c] = real
	return c
}

func (e *Exec) addWriter(w ociregistry.BlobWriter, freshID bool) Result {
	if e.PtrIdent {
		if i, ok := e.byPtr[w]; ok {
			return Result{Kind: "writer", W: i}
		}
	}
	i := len(e.Writers)
	e.Writers = append(e.Writers, w)
	e.byPtr[w] = i
	if freshID {
		e.canon(w.ID(), true)
	}
	return Result{Kind: "writer", W: i}
}

// WriterCanonID returns the canonical ID of writer i.
func (e *Exec) WriterCanonID(i int) string { return e.canon(e.Writers[i].ID(), false) }

func readAll(r ociregistry.BlobReader) Result {
	defer r.Close()
	data, err := io.ReadAll(r)
	if err != nil {
		return Result{Kind: "err", Code: ErrCode(err), Msg: "read: " + err.Error()}
	}
	return Result{Kind: "read", Desc: fromDesc(r.Descriptor()), Data: data}
}

// Run executes one op; panics in the implementation are caught and reported.
func (e *Exec) Run(o Op) (res Result) { return e.RunCtx(nil, o) }

// RunCtx is Run with the context the call is made with (nil: the Exec's own, see CallCtx); the
// lifetime of a context given explicitly is the caller's business.
func (e *Exec) RunCtx(ctx context.Context, o Op) (res Result) {
	panicked, pv := hx.Recover(func() { res = e.run(ctx, o) })
	if panicked {
		return Result{Kind: "panic", Msg: pv}
	}
	return res
}

func (e *Exec) run(ctx context.Context, o Op) Result {
	if ctx == nil {
		ctx = e.Ctx
		if e.CallCtx && o.Kind != "PushBlobChunked" && o.Kind != "PushBlobChunkedResume" {
			var cancel context.CancelFunc
			ctx, cancel = context.WithCancel(ctx)
			defer cancel()
		}
	}
	dg := ociregistry.Digest(o.Digest)
	switch o.Kind {
	case "GetBlob":
		r, err := e.Reg.GetBlob(ctx, o.Repo, dg)
		if err != nil {
			return errResult(err)
		}
		return readAll(r)
	case "GetBlobRange":
		r, err := e.Reg.GetBlobRange(ctx, o.Repo, dg, o.O0, o.O1)
		if err != nil {
			return errResult(err)
		}
		return readAll(r)
	case "GetManifest":
		r, err := e.Reg.GetManifest(ctx, o.Repo, dg)
		if err != nil {
			return errResult(err)
		}
		return readAll(r)
	case "GetTag":
		r, err := e.Reg.GetTag(ctx, o.Repo, o.Tag)
		if err != nil {
			return errResult(err)
		}
		return readAll(r)
	case "ResolveBlob":
		d, err := e.Reg.ResolveBlob(ctx, o.Repo, dg)
		if err != nil {
			return errResult(err)
		}
		return Result{Kind: "desc", Desc: fromDesc(d)}
	case "ResolveManifest":
		d, err := e.Reg.ResolveManifest(ctx, o.Repo, dg)
		if err != nil {
			return errResult(err)
		}
		return Result{Kind: "desc", Desc: fromDesc(d)}
	case "ResolveTag":
		d, err := e.Reg.ResolveTag(ctx, o.Repo, o.Tag)
		if err != nil {
			return errResult(err)
		}
		return Result{Kind: "desc", Desc: fromDesc(d)}
	case "PushBlob":
		buf := callerCopy(o.Content)
		var content io.Reader = bytes.NewReader(buf)
		if o.Opaque {
			content = opaqueReader{content}
		}
		arg := o.Desc.GoDesc()
		d, err := e.Reg.PushBlob(ctx, o.Repo, arg, content)
		scribble(buf)
		if err != nil {
			scribbleDesc(arg)
			return errResult(err)
		}
		res := Result{Kind: "desc", Desc: fromDesc(d)} // before the scribble: the answer may well share with the argument
		scribbleDesc(arg)
		return res
	case "PushBlobChunked":
		w, err := e.Reg.PushBlobChunked(ctx, o.Repo, int(o.Hint))
		if err != nil {
			return errResult(err)
		}
		return e.addWriter(w, true)
	case "PushBlobChunkedResume":
		id := o.ID
		if real, ok := e.realID[id]; ok {
			id = real
		}
		w, err := e.Reg.PushBlobChunkedResume(ctx, o.Repo, id, o.Off, int(o.Hint))
		if err != nil {
			return errResult(err)
		}
		return e.addWriter(w, o.ID == "")
	case "MountBlob":
		d, err := e.Reg.MountBlob(ctx, o.From, o.Repo, dg)
		if err != nil {
			return errResult(err)
		}
		return Result{Kind: "desc", Desc: fromDesc(d)}
	case "PushManifest":
		buf := callerCopy(o.Content)
		d, err := e.Reg.PushManifest(ctx, o.Repo, o.Tag, buf, o.Media)
		scribble(buf)
		if err != nil {
			return errResult(err)
		}
		return Result{Kind: "desc", Desc: fromDesc(d)}
	case "DeleteBlob":
		if err := e.Reg.DeleteBlob(ctx, o.Repo, dg); err != nil {
			return errResult(err)
		}
		return Result{Kind: "unit"}
	case "DeleteManifest":
		if err := e.Reg.DeleteManifest(ctx, o.Repo, dg); err != nil {
			return errResult(err)
		}
		return Result{Kind: "unit"}
	case "DeleteTag":
		if err := e.Reg.DeleteTag(ctx, o.Repo, o.Tag); err != nil {
			return errResult(err)
		}
		return Result{Kind: "unit"}
	case "Repositories":
		return drainStrings(e.Reg.Repositories(ctx, o.Start))
	case "Tags":
		return drainStrings(e.Reg.Tags(ctx, o.Repo, o.Start))
	case "Referrers":
		res := Result{Kind: "descs", Descs: []Desc{}}
		e.Reg.Referrers(ctx, o.Repo, dg, o.Art)(func(d ociregistry.Descriptor, err error) bool {
			if err != nil {
				c := ErrCode(err)
				res.IterErrCode = &c
				res.Msg = err.Error()
				return false
			}
			res.Descs = append(res.Descs, *fromDesc(d))
			return true
		})
		return res
	}
	if o.W < 0 || o.W >= len(e.Writers) {
		return Result{Kind: "err", Code: "", Msg: "harness: no such writer"}
	}
	w := e.Writers[o.W]
	switch o.Kind {
	case "WWrite":
		buf := callerCopy(o.Content)
		n, err := w.Write(buf)
		scribble(buf)
		if err != nil {
			return errResult(err)
		}
		return Result{Kind: "n", N: int64(n)}
	case "WClose":
		if err := w.Close(); err != nil {
			return errResult(err)
		}
		return Result{Kind: "unit"}
	case "WSize":
		return Result{Kind: "n", N: w.Size()}
	case "WChunkSize":
		return Result{Kind: "n", N: int64(w.ChunkSize())}
	case "WID":
		return Result{Kind: "str", Str: e.canon(w.ID(), false)}
	case "WCancel":
		if err := w.Cancel(); err != nil {
			return errResult(err)
		}
		return Result{Kind: "unit"}
	case "WCommit":
		d, err := w.Commit(ociregistry.Digest(o.Digest))
		if err != nil {
			return errResult(err)
		}
		return Result{Kind: "desc", Desc: fromDesc(d)}
	}
	panic("unknown op " + o.Kind)
}

func drainStrings(seq ociregistry.Seq[string]) Result {
	res := Result{Kind: "list", List: []string{}}
	seq(func(s string, err error) bool {
		if err != nil {
			c := ErrCode(err)
			res.IterErrCode = &c
			res.Msg = err.Error()
			return false
		}
		res.List = append(res.List, s)
		return true
	})
	return res
}

// ---- oracles handed to the Coq model ----

// Oracles collects, for every byte string a history mentions, what the functions that
// the model treats as Section variables answer on the real code.
type Oracles struct {
	Hash    map[string]string // content -> sha256 digest
	Digests map[string]bool   // digest string -> valid by the specification's grammar (spec.go)
	Repos   map[string]bool
	Tags    map[string]bool
	Images  map[string]string // content -> Coq term (Some image_manifest) / None
	Indexes map[string]string
}

func NewOracles() *Oracles {
	return &Oracles{Hash: map[string]string{}, Digests: map[string]bool{}, Repos: map[string]bool{}, Tags: map[string]bool{},
		Images: map[string]string{}, Indexes: map[string]string{}}
}

func Sha(content []byte) string {
	h := sha256.Sum256(content)
	return "sha256:" + hex.EncodeToString(h[:])
}

func (or *Oracles) Content(c []byte) {
	or.Hash[string(c)] = Sha(c)
	or.Digest(Sha(c))
}

// The three validity tables come from an independent statement of the grammars (spec.go), not
// from the validators of the library under test: see the comment there.
func (or *Oracles) Digest(d string) { or.Digests[d] = SpecValidDigest(d) }
func (or *Oracles) Repo(r string)   { or.Repos[r] = SpecValidRepository(r) }
func (or *Oracles) Tag(t string)    { or.Tags[t] = SpecValidTag(t) }

func ocispecDesc(d ocispec.Descriptor) string {
	return coqDesc(Desc{Media: d.MediaType, Digest: string(d.Digest), Size: d.Size})
}

// Manifest records how encoding/json decodes a manifest content into the two OCI types.
func (or *Oracles) Manifest(c []byte) {
	var m ocispec.Manifest
	if err := json.Unmarshal(c, &m); err != nil {
		or.Images[string(c)] = "None"
	} else {
		ls := make([]string, len(m.Layers))
		for i, l := range m.Layers {
			ls[i] = ocispecDesc(l)
			or.Digest(string(l.Digest))
		}
		or.Digest(string(m.Config.Digest))
		sub := "None"
		if m.Subject != nil {
			sub = "(Some " + ocispecDesc(*m.Subject) + ")"
			or.Digest(string(m.Subject.Digest))
		}
		or.Images[string(c)] = fmt.Sprintf("(Some {| im_layers := %s; im_config := %s; im_subject := %s |})", hx.List(ls), ocispecDesc(m.Config), sub)
	}
	var ix ocispec.Index
	if err := json.Unmarshal(c, &ix); err != nil {
		or.Indexes[string(c)] = "None"
	} else {
		ms := make([]string, len(ix.Manifests))
		for i, l := range ix.Manifests {
			ms[i] = ocispecDesc(l)
			or.Digest(string(l.Digest))
		}
		sub := "None"
		if ix.Subject != nil {
			sub = "(Some " + ocispecDesc(*ix.Subject) + ")"
			or.Digest(string(ix.Subject.Digest))
		}
		or.Indexes[string(c)] = fmt.Sprintf("(Some {| ix_manifests := %s; ix_subject := %s |})", hx.List(ms), sub)
	}
}

// Observe registers everything an op mentions.
func (or *Oracles) Observe(o Op) {
	if o.Repo != "" || strings.HasPrefix(o.Kind, "Push") || o.Kind == "MountBlob" {
		or.Repo(o.Repo)
	}
	if o.From != "" {
		or.Repo(o.From)
	}
	if o.Tag != "" {
		or.Tag(o.Tag)
	}
	if o.Digest != "" {
		or.Digest(o.Digest)
	}
	if o.Desc != nil {
		or.Digest(o.Desc.Digest)
	}
	switch o.Kind {
	case "PushBlob":
		or.Content(o.Content)
	case "PushManifest":
		or.Content(o.Content)
		or.Manifest(o.Content)
	}
}

// callerCopy / scribble: the caller of a push owns its buffer again once the call has returned
// (io.Writer spells that out for Write) and may reuse it - a bytes.Buffer that is Reset for the
// next manifest, a pooled read buffer.  Every push is therefore made from a private copy with
// spare capacity, and the copy is overwritten as soon as the call returns: a registry that kept
// the caller's slice instead of copying it serves the overwritten bytes afterwards.
func callerCopy(b []byte) []byte {
	if b == nil {
		return nil
	}
	c := make([]byte, len(b), len(b)+16)
	copy(c, b)
	return c
}

func scribble(b []byte) {
	b = b[:cap(b)]
	for i := range b {
		b[i] = '#'
	}
}

func sortedKeys[V any](m map[string]V) []string {
	ks := make([]string, 0, len(m))
	for k := range m {
		ks = append(ks, k)
	}
	sort.Strings(ks)
	return ks
}

// Coq renders the oracle tables as a term of type [oracles] (coq/Obs/MemObs.v).
func (or *Oracles) Coq() string {
	var hs, vd, vr, vt, im, ix []string
	for _, k := range sortedKeys(or.Hash) {
		hs = append(hs, fmt.Sprintf("(%s, %s)", hx.B(k), hx.B(or.Hash[k])))
	}
	for _, k := range sortedKeys(or.Digests) {
		if or.Digests[k] {
			vd = append(vd, hx.B(k))
		}
	}
	for _, k := range sortedKeys(or.Repos) {
		if or.Repos[k] {
			vr = append(vr, hx.B(k))
		}
	}
	for _, k := range sortedKeys(or.Tags) {
		if or.Tags[k] {
			vt = append(vt, hx.B(k))
		}
	}
	for _, k := range sortedKeys(or.Images) {
		if or.Images[k] != "None" {
			im = append(im, fmt.Sprintf("(%s, %s)", hx.B(k), strings.TrimSuffix(strings.TrimPrefix(or.Images[k], "(Some "), ")")))
		}
	}
	for _, k := range sortedKeys(or.Indexes) {
		if or.Indexes[k] != "None" {
			ix = append(ix, fmt.Sprintf("(%s, %s)", hx.B(k), strings.TrimSuffix(strings.TrimPrefix(or.Indexes[k], "(Some "), ")")))
		}
	}
	return fmt.Sprintf("{| o_hash := %s; o_digests := %s; o_repos := %s; o_tags := %s; o_images := %s; o_indexes := %s |}",
		hx.List(hs), hx.List(vd), hx.List(vr), hx.List(vt), hx.List(im), hx.List(ix))
}
