package memsim

import (
	"crypto/sha512"
	"encoding/hex"
	"encoding/json"
	"fmt"
	"math/rand"
	"strings"

	"github.com/opencontainers/go-digest"
	ocispec "github.com/opencontainers/image-spec/specs-go/v1"
)

// Gen produces mostly-valid operation histories over a small universe, interleaved with
// execution so that later operations can refer to what earlier ones stored.
type Gen struct {
	R        *rand.Rand
	Repos    []string
	Tags     []string
	Contents [][]byte
	// pools filled as the history runs (on the primary executor's results)
	Blobs     map[string][]string // repo -> blob digests pushed (maybe deleted since)
	Manifests map[string][]ManRef // repo -> manifests pushed
	TagsSet   map[string][]string
	Subjects  map[string][]string // repo -> digests named as subject by generated manifests
	Gone      map[string][]string // repo -> digests of blobs / manifests deleted since (for reads after delete)
	Writers   []*WriterInfo
	Large     bool
	NoUploads bool
	// name pools for the malformed stream (a harness may extend them before the first Next)
	BadRepos   []string // names the repository grammar refuses
	BadTags    []string // names the tag grammar refuses
	BadDigests []string // strings that are no digest of a registered algorithm
	// PushExtras: one PushBlob in three is made with a descriptor that carries optional members
	// (urls, annotations, platform, artifactType, data; also present-but-empty ones) - a layer
	// descriptor taken from a manifest.  The blob it stores has media type, digest and size only.
	PushExtras bool
	// Recommit: follow-ups "the same session is committed again" (after the blob was deleted,
	// as it stands, with another digest; on the same writer or on the one a resume hands out)
	Recommit bool
	// MountDelete: follow-ups "after a mount the blob is deleted in one of the repositories
	// holding it and read in the others"
	MountDelete bool
	recommit *recommitPlan
	count    int
	// queue: operations scripted ahead (a directed follow-up to something that just happened);
	// Next hands them out before drawing anything new
	queue []Op
	// reuse: a resume enqueued as part of a "session used again after its commit" follow-up:
	// when it yields a writer, a short write and a read of the committed digest follow
	reuse *reusePlan
	// content of the blobs pushed so far, by digest (for pushing the same content again)
	known map[string][]byte
}

type recommitPlan struct {
	repo, digest string
	other        string // "": commit with the same digest again
}

type reusePlan struct {
	repo, digest string
	content      []byte
}

type ManRef struct {
	Digest  string
	Media   string
	Size    int64
	Content []byte
}

type WriterInfo struct {
	Repo    string
	Written []byte // what the harness believes the buffer holds (successful writes)
	ID      string // canonical
	Dead    bool
}

// Name pools.  The repository grammar of the distribution specification is
//
//	[a-z0-9]+((\.|_|__|-+)[a-z0-9]+)*(\/[a-z0-9]+((\.|_|__|-+)[a-z0-9]+)*)*
//
// and a registry has to take every name of it, not only the ones everybody uses: SepRepos /
// PathRepos walk through every alternative (each separator: one dot, one underscore, two
// underscores, one dash, runs of dashes; digits only, digit first; several separators in one
// element; two to five path elements), NearRepos are the closest names outside it (three
// underscores, two dots, two different separators in a row, a separator first or last, an
// upper-case letter, an empty path element) written with bytes that survive a URL path, so
// that the harnesses that run histories through HTTP can use them as well.  Tags
// ([a-zA-Z0-9_][a-zA-Z0-9._-]{0,127}) and digests likewise.
var (
	SepRepos = []string{"a.b", "a_b", "a__b", "a-b", "a--b", "a---b", "0", "9lives", "x1.y2_z3", "a0__b1-c2.d3", "r-1--2", "lib__v2",
		"0_0", "1__1", "2.2", "k8s", "a-b_c.d__e---f"}
	PathRepos = []string{"a/b", "a/b/c", "team__project/img", "org.example/app_v2/linux--amd64", "0/1/2/3", "a.b/c_d/e__f/g-h/i--j",
		"x/y__z", "lib/0", "a__b/a__b", "r1/sub", "n-1/n_2/n.3"}
	NearRepos = []string{"BAD", "a___b", "a____b", "a..b", "a._b", "a_.b", "a.-b", "a-.b", "a-_b", "a__-b", "a__.b", "_a", "a_", "a__", "__a",
		"-a", "a-", ".a", "a.", "A/b", "a/B", "aB", "a/_b", "a/b-", "a_/b", "team___project/img"}
	RareTags = []string{"_", "_t", "__", "0", "9", "1.0", "v1.0.0-rc.1", "a..b", "a--b", "a-.b", "T", "UPPER", "MiXed_9", "x_", "x-", "x.", "t__2",
		"0-", "_.-", maxTag}
	NearTags = []string{"bad tag", ".dot", "-dash", maxTag + "x", "a+b", "a~b"}
	// no digest of a registered algorithm: hex of the wrong case / length / alphabet, unknown
	// or misspelt algorithm, parts missing
	NearDigests = []string{"sha256:zz",
		"sha256:E3B0C44298FC1C149AFBF4C8996FB92427AE41E4649B934CA495991B7852B855",
		"sha256:e3b0c44298fc1c149afbf4c8996fb92427ae41e4649b934ca495991b7852b85",
		"sha256:e3b0c44298fc1c149afbf4c8996fb92427ae41e4649b934ca495991b7852b8555",
		"sha256:g3b0c44298fc1c149afbf4c8996fb92427ae41e4649b934ca495991b7852b855",
		"SHA256:e3b0c44298fc1c149afbf4c8996fb92427ae41e4649b934ca495991b7852b855",
		"sha-256:e3b0c44298fc1c149afbf4c8996fb92427ae41e4649b934ca495991b7852b855",
		"sha512:e3b0c44298fc1c149afbf4c8996fb92427ae41e4649b934ca495991b7852b855",
		"sha224:d14a028c2a3a2bc9476102bb288234c415a2b01f828ea62ac5b3e42f",
		"md5:d41d8cd98f00b204e9800998ecf8427e",
		"sha256", "sha256:", "e3b0c44298fc1c149afbf4c8996fb92427ae41e4649b934ca495991b7852b855"}
)

// media types blobs are pushed under when a stored content is pushed again
var blobMedia = []string{"application/octet-stream", "application/vnd.custom", "application/layer", "text/plain", ocispec.MediaTypeImageConfig}

// a tag of the greatest length the grammar allows (128)
var maxTag = strings.Repeat("Ab0._-zZ", 16)

func NewGen(r *rand.Rand, large bool) *Gen {
	g := &Gen{R: r, Large: large, Blobs: map[string][]string{}, Manifests: map[string][]ManRef{}, TagsSet: map[string][]string{},
		Subjects: map[string][]string{}, Gone: map[string][]string{}, known: map[string][]byte{}}
	g.Repos = []string{"r1", "r2", "a/b"}
	g.Tags = []string{"t1", "t2", "latest"}
	// two histories in three: the second and third repository, and the second tag, are drawn
	// from the pools that walk through the grammars
	if r.Intn(3) != 0 {
		g.Repos[1] = SepRepos[r.Intn(len(SepRepos))]
		g.Repos[2] = PathRepos[r.Intn(len(PathRepos))]
		g.Tags[1] = RareTags[r.Intn(len(RareTags))]
	}
	g.BadRepos = NearRepos
	g.BadTags = NearTags
	g.BadDigests = NearDigests
	if large {
		for i := 0; i < 6; i++ {
			g.Repos = append(g.Repos, fmt.Sprintf("proj%d/img", i))
			g.Tags = append(g.Tags, fmt.Sprintf("v1.%d", i))
		}
	}
	g.Contents = [][]byte{{}, []byte("a"), []byte("hello"), {0, 255, 0, 128}, []byte("h\xc3\xa9llo\xe2\x82"), []byte("ab")}
	n := 3
	if large {
		n = 12
	}
	for i := 0; i < n; i++ {
		b := make([]byte, 1+r.Intn(40))
		r.Read(b)
		g.Contents = append(g.Contents, b)
	}
	big := make([]byte, 300)
	r.Read(big)
	g.Contents = append(g.Contents, big)
	return g
}

func (g *Gen) pick(ss []string) string { return ss[g.R.Intn(len(ss))] }

func (g *Gen) repo() string {
	switch p := g.R.Intn(40); {
	case p == 0:
		return g.pick(g.BadRepos)
	case p == 1:
		return ""
	case p == 2: // well-formed, never written to
		return []string{"unknown/repo", "un__known/re--po.0"}[g.R.Intn(2)]
	case p == 3:
		if g.R.Intn(2) == 0 {
			return g.pick(g.Repos) + "/"
		}
		return "r1/"
	}
	// mostly a repository that already holds something
	if g.R.Intn(10) < 8 {
		var live []string
		for _, r := range g.Repos {
			if len(g.Blobs[r])+len(g.Manifests[r]) > 0 {
				live = append(live, r)
			}
		}
		if len(live) > 0 {
			return g.pick(live)
		}
	}
	return g.pick(g.Repos)
}

// repoHaving returns, three times in four, a repository for which has() holds (when there is
// one); otherwise the repository already drawn.
func (g *Gen) repoHaving(drawn string, has func(r string) bool) string {
	if has(drawn) || g.R.Intn(4) == 0 {
		return drawn
	}
	var cands []string
	for _, r := range g.Repos {
		if has(r) {
			cands = append(cands, r)
		}
	}
	if len(cands) == 0 {
		return drawn
	}
	return g.pick(cands)
}

func (g *Gen) withTags(drawn string) string {
	return g.repoHaving(drawn, func(r string) bool { return len(g.TagsSet[r]) > 0 })
}

func (g *Gen) withManifests(drawn string) string {
	return g.repoHaving(drawn, func(r string) bool { return len(g.Manifests[r]) > 0 })
}

func (g *Gen) withBlobs(drawn string) string {
	return g.repoHaving(drawn, func(r string) bool { return len(g.Blobs[r]) > 0 })
}

func (g *Gen) tagIn(repo string) string {
	if ts := g.TagsSet[repo]; len(ts) > 0 && g.R.Intn(10) < 7 {
		return g.pick(ts)
	}
	return g.tag()
}

func (g *Gen) tag() string {
	switch p := g.R.Intn(30); {
	case p == 0:
		return "bad tag"
	case p == 1:
		return g.pick(g.BadTags)
	case p == 2: // a legal tag of a rare shape, whatever the history's own tags are
		return RareTags[g.R.Intn(len(RareTags))]
	}
	return g.pick(g.Tags)
}

func (g *Gen) content() []byte { return g.Contents[g.R.Intn(len(g.Contents))] }

func sha512Digest(c []byte) string {
	h := sha512.Sum512(c)
	return "sha512:" + hex.EncodeToString(h[:])
}

func sha384Digest(c []byte) string {
	h := sha512.Sum384(c)
	return "sha384:" + hex.EncodeToString(h[:])
}

// a well-formed digest of one of the registered algorithms other than sha256
func (g *Gen) otherAlgDigest(c []byte) string {
	if g.R.Intn(2) == 0 {
		return sha384Digest(c)
	}
	return sha512Digest(c)
}

// a digest: usually of something known in the repo, sometimes of unknown content or malformed
func (g *Gen) blobDigest(repo string) string {
	p := g.R.Intn(20)
	if gl := g.Gone[repo]; len(gl) > 0 && p >= 12 && p < 14 {
		return g.pick(gl)
	}
	if bl := g.Blobs[repo]; len(bl) > 0 && p < 14 {
		return g.pick(bl)
	}
	switch {
	case p < 17:
		return Sha(g.content())
	case p == 17:
		return g.pick(g.BadDigests)
	case p == 18:
		return g.otherAlgDigest(g.content())
	}
	// a manifest digest used as a blob digest
	if ml := g.Manifests[repo]; len(ml) > 0 {
		return ml[g.R.Intn(len(ml))].Digest
	}
	return Sha([]byte("nothing"))
}

func (g *Gen) manDigest(repo string) string {
	p := g.R.Intn(20)
	if gl := g.Gone[repo]; len(gl) > 0 && p >= 13 && p < 15 {
		return g.pick(gl)
	}
	if ml := g.Manifests[repo]; len(ml) > 0 && p < 15 {
		return ml[g.R.Intn(len(ml))].Digest
	}
	if p < 18 {
		return Sha(g.content())
	}
	if bl := g.Blobs[repo]; len(bl) > 0 && p == 18 {
		return g.pick(bl)
	}
	if g.R.Intn(2) == 0 {
		return g.pick(g.BadDigests)
	}
	return "notadigest"
}

func (g *Gen) descFor(repo string, present bool, media string) ocispec.Descriptor {
	if present {
		if bl := g.Blobs[repo]; len(bl) > 0 {
			d := g.pick(bl)
			return g.decorate(ocispec.Descriptor{MediaType: media, Digest: digest.Digest(d), Size: int64(1 + g.R.Intn(5))})
		}
	}
	c := g.content()
	d := Sha(c)
	switch g.R.Intn(16) {
	case 0: // well-formed, another registered algorithm: refers to nothing the registry holds
		d = g.otherAlgDigest(c)
	case 1: // no digest at all
		d = g.pick(g.BadDigests)
	}
	return g.decorate(ocispec.Descriptor{MediaType: media, Digest: digest.Digest(d), Size: int64(len(c))})
}

// nearValid turns, now and then, a well-formed manifest document into a neighbour of it: bytes
// after the closing brace (a complete document followed by something - what a streaming decoder
// would not notice), surrounding white space (still valid JSON), a byte-order mark, a
// duplicated key, a truncation by one byte.  Whether the result decodes is for encoding/json to
// say (the oracle table), not for the generator.
func (g *Gen) nearValid(b []byte) []byte {
	if g.R.Intn(8) != 0 {
		return b
	}
	switch g.R.Intn(8) {
	case 0:
		return append(append([]byte{}, b...), '}')
	case 1:
		return append(append([]byte{}, b...), []byte(" trailing")...)
	case 2:
		return append(append([]byte{}, b...), []byte("\n{}")...)
	case 3:
		return append(append([]byte{}, b...), b...)
	case 4:
		return append([]byte(" \n\t"), append(append([]byte{}, b...), []byte(" \n")...)...)
	case 5:
		return append([]byte("\xef\xbb\xbf"), b...)
	case 6:
		return append(append([]byte{}, b[:len(b)-1]...), []byte(`,"schemaVersion":2}`)...)
	default:
		return append([]byte{}, b[:len(b)-1]...)
	}
}

// jstr is s as a JSON string.
func jstr(s string) string {
	b, _ := json.Marshal(s)
	return string(b)
}

// descShape writes the descriptor (media, dig, size) the way a hand-written or foreign document
// may carry it: members missing (no digest, no media type, no size, none at all), a digest that
// is the empty string or null, the whole descriptor null, a member given twice (with
// encoding/json the last one counts), member names in another case (encoding/json matches them
// whatever the case), the digest of the empty content with size 0 (well-formed), and values of
// the wrong JSON type.  A descriptor that names no digest refers to nothing: a manifest carrying
// one in any position is malformed, whatever the rest of the document looks like - and a
// descriptor that is well-formed after decoding is as good as the usual spelling.  What each
// shape decodes to is for encoding/json to say (the oracle table).
func (g *Gen) descShape(media, dig string, size int64) string {
	m, d := jstr(media), jstr(dig)
	p := g.R.Intn(24)
	switch {
	case p < 3:
		return `{}`
	case p < 6:
		return fmt.Sprintf(`{"mediaType":%s,"size":%d}`, m, size)
	case p < 9:
		return fmt.Sprintf(`{"mediaType":%s,"digest":"","size":%d}`, m, size)
	case p < 11:
		return fmt.Sprintf(`{"mediaType":%s,"digest":null,"size":%d}`, m, size)
	case p == 11:
		return `null`
	case p == 12:
		return fmt.Sprintf(`{"digest":%s}`, d)
	case p == 13:
		return fmt.Sprintf(`{"mediaType":%s,"digest":%s}`, m, d)
	case p == 14:
		return fmt.Sprintf(`{"digest":%s,"size":%d}`, d, size)
	case p == 15:
		return fmt.Sprintf(`{"mediaType":%s,"digest":%s,"size":0}`, m, jstr(Sha(nil)))
	case p == 16:
		return fmt.Sprintf(`{"mediaType":%s,"digest":%s,"size":%d,"digest":""}`, m, d, size)
	case p == 17:
		return fmt.Sprintf(`{"mediaType":%s,"digest":"","size":%d,"digest":%s}`, m, size, d)
	case p == 18:
		return fmt.Sprintf(`{"MediaType":%s,"DIGEST":%s,"Size":%d}`, m, d, size)
	case p == 19:
		return fmt.Sprintf(`{"mediaType":%s,"Digest":"","size":%d}`, m, size)
	case p == 20:
		return fmt.Sprintf(`{"mediaType":%s,"digest":%s,"size":%d,"annotations":null,"urls":null,"platform":null,"data":null}`, m, d, size)
	case p == 21:
		return fmt.Sprintf(`{"mediaType":"","digest":"","size":0}`)
	case p == 22:
		return fmt.Sprintf(`{"mediaType":%s,"digest":7,"size":%d}`, m, size)
	}
	return []string{`[]`, d, `7`, `""`, `false`, `[` + fmt.Sprintf(`{"mediaType":%s,"digest":%s,"size":%d}`, m, d, size) + `]`}[g.R.Intn(6)]
}

// reshape rewrites, now and then, one descriptor position of a well-formed manifest document
// (the subject - most of the time -, the config, one entry of layers / manifests; a position the
// document does not have yet is added) into one of the shapes of descShape, leaving the rest of
// the document as it is: so that the reshaped descriptor is the only thing that can be wrong
// with it.
func (g *Gen) reshape(repo string, b []byte) []byte {
	if g.R.Intn(7) != 0 {
		return b
	}
	var doc map[string]json.RawMessage
	if json.Unmarshal(b, &doc) != nil {
		return b
	}
	// the descriptor now in a position, or a well-formed one that refers to nothing stored
	base := func(raw json.RawMessage) (string, string, int64) {
		var d ocispec.Descriptor
		if raw != nil && json.Unmarshal(raw, &d) == nil && d.Digest != "" {
			return d.MediaType, string(d.Digest), d.Size
		}
		return ocispec.MediaTypeImageManifest, Sha(append([]byte("dangling"), g.content()...)), 3
	}
	pos := "subject"
	if g.R.Intn(3) == 0 {
		pos = "list"
		if _, ok := doc["config"]; ok && g.R.Intn(2) == 0 {
			pos = "config"
		}
	}
	switch pos {
	case "subject", "config":
		m, d, n := base(doc[pos])
		if pos == "subject" {
			g.Subjects[repo] = append(g.Subjects[repo], d)
		}
		doc[pos] = json.RawMessage(g.descShape(m, d, n))
	default:
		key := "manifests"
		if _, ok := doc["config"]; ok {
			key = "layers"
		}
		var list []json.RawMessage
		if json.Unmarshal(doc[key], &list) != nil {
			return b
		}
		if len(list) == 0 || g.R.Intn(3) == 0 {
			m, d, n := base(nil)
			list = append(list, json.RawMessage(g.descShape(m, d, n)))
		} else {
			i := g.R.Intn(len(list))
			m, d, n := base(list[i])
			list[i] = json.RawMessage(g.descShape(m, d, n))
		}
		nb, err := json.Marshal(list)
		if err != nil {
			return b
		}
		doc[key] = nb
	}
	nb, err := json.Marshal(doc)
	if err != nil {
		return b
	}
	return nb
}

// decorate gives a descriptor, now and then, the optional members of the image-spec descriptor
// (urls, annotations, platform, artifactType, embedded data): legal, rarely seen, and none of
// them changes what the descriptor refers to.
func (g *Gen) decorate(d ocispec.Descriptor) ocispec.Descriptor {
	if g.R.Intn(4) != 0 {
		return d
	}
	switch g.R.Intn(6) {
	case 0:
		d.URLs = []string{"https://example.com/layer"}
	case 1:
		d.URLs = []string{"https://a.example/x", "https://b.example/y"}
		d.Annotations = map[string]string{"org.example.k": "v"}
	case 2:
		d.Annotations = map[string]string{"org.opencontainers.image.title": "t"}
	case 3:
		d.Platform = &ocispec.Platform{Architecture: "amd64", OS: "linux"}
	case 4:
		d.ArtifactType = "application/vnd.example.thing"
	case 5:
		d.Data = []byte("x")
	}
	return d
}

// pushExtra: the optional members of a PushBlob descriptor argument (see PushExtras), rendered.
func (g *Gen) pushExtra() string {
	if !g.PushExtras || g.R.Intn(3) != 0 {
		return ""
	}
	var d ocispec.Descriptor
	switch g.R.Intn(9) {
	case 0:
		d.URLs = []string{"https://example.com/layer"}
	case 1:
		d.URLs = []string{"https://a.example/x", "https://b.example/y"}
		d.Annotations = map[string]string{"org.example.k": "v"}
	case 2:
		d.Annotations = map[string]string{"org.opencontainers.image.title": "t"}
	case 3:
		d.Platform = &ocispec.Platform{Architecture: "amd64", OS: "linux"}
	case 4:
		d.ArtifactType = "application/vnd.example.thing"
	case 5:
		d.Data = []byte("x")
	case 6:
		d.Annotations = map[string]string{}
	case 7:
		d.URLs = []string{}
	case 8:
		d.URLs = []string{"https://example.com/layer"}
		d.Annotations = map[string]string{"a": "1", "b": "2"}
		d.Platform = &ocispec.Platform{Architecture: "arm64", OS: "linux", Variant: "v8"}
		d.ArtifactType = "application/vnd.example.thing"
		d.Data = []byte("data")
	}
	return ExtraOf(d)
}

func (g *Gen) manifestContent(repo string) (content []byte, media string) {
	// now and then the bytes of a manifest already stored, under another media type
	if ml := g.Manifests[repo]; len(ml) > 0 && g.R.Intn(12) == 0 {
		mr := ml[g.R.Intn(len(ml))]
		if mr.Content != nil {
			for _, m := range []string{"application/vnd.foo", ocispec.MediaTypeImageManifest, ocispec.MediaTypeImageIndex} {
				if m != mr.Media {
					return mr.Content, m
				}
			}
		}
	}
	switch p := g.R.Intn(20); {
	case p < 3: // opaque media type, arbitrary bytes
		return g.content(), []string{"application/vnd.foo", "text/plain", ""}[g.R.Intn(3)]
	case p < 11: // image manifest
		m := ocispec.Manifest{MediaType: ocispec.MediaTypeImageManifest}
		m.SchemaVersion = 2
		nl := g.R.Intn(3)
		allPresent := g.R.Intn(5) != 0
		for i := 0; i < nl; i++ {
			m.Layers = append(m.Layers, g.descFor(repo, allPresent || g.R.Intn(2) == 0, "application/layer"))
		}
		m.Config = g.descFor(repo, allPresent || g.R.Intn(2) == 0, ocispec.MediaTypeImageConfig)
		switch g.R.Intn(20) {
		case 0:
			m.Config.MediaType = ""
		case 1:
			m.Config.Size = 0
		case 2:
			m.Config.Digest = "bogus"
		}
		g.maybeSubject(repo, &m.Subject)
		b, _ := json.Marshal(m)
		return g.nearValid(g.reshape(repo, b)), ocispec.MediaTypeImageManifest
	case p < 17: // index
		ix := ocispec.Index{MediaType: ocispec.MediaTypeImageIndex}
		ix.SchemaVersion = 2
		nm := g.R.Intn(3)
		if len(g.Manifests[repo]) == 0 && g.R.Intn(10) < 7 {
			nm = 0 // nothing to point at yet: mostly an empty index rather than a dangling child
		}
		for i := 0; i < nm; i++ {
			if ml := g.Manifests[repo]; len(ml) > 0 && g.R.Intn(5) != 0 {
				mr := ml[g.R.Intn(len(ml))]
				media := mr.Media
				if g.R.Intn(4) == 0 { // entry naming another media type than the child was stored with
					media = []string{ocispec.MediaTypeImageManifest, ocispec.MediaTypeImageIndex, "application/vnd.foo"}[g.R.Intn(3)]
				}
				ix.Manifests = append(ix.Manifests, g.decorate(ocispec.Descriptor{MediaType: media, Digest: digest.Digest(mr.Digest), Size: mr.Size}))
			} else {
				ix.Manifests = append(ix.Manifests, g.descFor(repo, false, ocispec.MediaTypeImageManifest))
			}
		}
		g.maybeSubject(repo, &ix.Subject)
		b, _ := json.Marshal(ix)
		return g.nearValid(g.reshape(repo, b)), ocispec.MediaTypeImageIndex
	case p == 17: // malformed JSON under an OCI media type
		return []byte(`{"layers": 5`), []string{ocispec.MediaTypeImageManifest, ocispec.MediaTypeImageIndex}[g.R.Intn(2)]
	case p == 18: // JSON valid for one type and a type error for the other
		return []byte(`{"schemaVersion":2,"layers":7,"manifests":[]}`), []string{ocispec.MediaTypeImageManifest, ocispec.MediaTypeImageIndex}[g.R.Intn(2)]
	default: // image JSON pushed under the index type and vice versa
		c, m := g.manifestContent(repo)
		if m == ocispec.MediaTypeImageManifest {
			return c, ocispec.MediaTypeImageIndex
		}
		return c, ocispec.MediaTypeImageManifest
	}
}

func (g *Gen) maybeSubject(repo string, sub **ocispec.Descriptor) {
	defer func() {
		if *sub != nil {
			g.Subjects[repo] = append(g.Subjects[repo], string((*sub).Digest))
			switch g.R.Intn(30) { // a malformed subject descriptor now and then
			case 0:
				(*sub).MediaType = ""
			case 1:
				(*sub).Size = 0
			case 2:
				(*sub).Digest = "sha256:short"
			}
		}
	}()
	switch g.R.Intn(4) {
	case 0: // existing manifest
		if ml := g.Manifests[repo]; len(ml) > 0 {
			mr := ml[g.R.Intn(len(ml))]
			*sub = &ocispec.Descriptor{MediaType: mr.Media, Digest: digest.Digest(mr.Digest), Size: mr.Size}
			if (*sub).MediaType == "" {
				(*sub).MediaType = "application/vnd.foo"
			}
		}
	case 1: // dangling (often the same one again, so that a digest gets several referrers)
		if ss := g.Subjects[repo]; len(ss) > 0 && g.R.Intn(2) == 0 {
			*sub = &ocispec.Descriptor{MediaType: ocispec.MediaTypeImageManifest, Digest: digest.Digest(g.pick(ss)), Size: 3}
			return
		}
		c := g.content()
		d := Sha(append([]byte("dangling"), c...))
		switch g.R.Intn(8) {
		case 0: // a subject may dangle whatever registered algorithm names it
			d = g.otherAlgDigest(c)
		case 1: // but it has to be a digest
			d = g.pick(g.BadDigests)
		}
		*sub = &ocispec.Descriptor{MediaType: ocispec.MediaTypeImageManifest, Digest: digest.Digest(d), Size: 3}
	}
}

func (g *Gen) start() string {
	switch g.R.Intn(6) {
	case 0:
		return g.pick(g.Repos)
	case 1:
		return g.pick(g.Tags)
	case 2:
		return "m"
	case 3:
		return "zzzz"
	}
	return ""
}

func (g *Gen) liveWriter() (int, *WriterInfo) {
	if len(g.Writers) == 0 {
		return -1, nil
	}
	i := g.R.Intn(len(g.Writers))
	return i, g.Writers[i]
}

// Next produces the next operation.
// Pending reports whether scripted follow-up operations are waiting (a history should not end
// in the middle of one).
func (g *Gen) Pending() bool { return len(g.queue) > 0 }

func (g *Gen) Next() Op {
	g.count++
	if len(g.queue) > 0 {
		o := g.queue[0]
		g.queue = g.queue[1:]
		return o
	}
	for {
		p := g.R.Intn(100)
		if g.count <= 6 && g.R.Intn(4) != 0 { // warm-up: mostly pushes
			p = g.R.Intn(22)
		}
		repo := g.repo()
		switch {
		case p < 10:
			c := g.content()
			d := &Desc{Media: "application/octet-stream", Digest: Sha(c), Size: int64(len(c))}
			// now and then the content of a blob the repository already holds, mostly under
			// another media type: the entry is replaced, here and nowhere else
			if bl := g.Blobs[repo]; len(bl) > 0 && g.R.Intn(8) == 0 {
				if kc, ok := g.known[g.pick(bl)]; ok {
					c = kc
					d = &Desc{Media: g.pick(blobMedia), Digest: Sha(c), Size: int64(len(c)), Extra: g.pushExtra()}
					return Op{Kind: "PushBlob", Repo: repo, Desc: d, Content: c}
				}
			}
			switch g.R.Intn(22) {
			case 0:
				d.Digest = Sha(g.content())
			case 1:
				d.Size++
			case 2:
				d.Size--
			case 3:
				d.Digest = "sha256:beef"
			case 4:
				d.Media = ""
			case 5:
				d.Digest = sha512Digest(c)
			case 6:
				d.Media = "application/vnd.custom"
			}
			d.Extra = g.pushExtra()
			return Op{Kind: "PushBlob", Repo: repo, Desc: d, Content: c}
		case p < 22:
			repo = g.withBlobs(repo)
			c, media := g.manifestContent(repo)
			tag := ""
			if g.R.Intn(3) != 0 {
				tag = g.tag()
			}
			return Op{Kind: "PushManifest", Repo: repo, Tag: tag, Content: c, Media: media}
		case p < 27:
			repo = g.withBlobs(repo)
			return Op{Kind: "GetBlob", Repo: repo, Digest: g.blobDigest(repo)}
		case p < 31:
			repo = g.withBlobs(repo)
			return Op{Kind: "GetBlobRange", Repo: repo, Digest: g.blobDigest(repo), O0: int64(g.R.Intn(8)) - 1, O1: int64(g.R.Intn(9)) - 2}
		case p < 36:
			repo = g.withManifests(repo)
			return Op{Kind: "GetManifest", Repo: repo, Digest: g.manDigest(repo)}
		case p < 42:
			repo = g.withTags(repo)
			return Op{Kind: "GetTag", Repo: repo, Tag: g.tagIn(repo)}
		case p < 45:
			return Op{Kind: "ResolveBlob", Repo: repo, Digest: g.blobDigest(repo)}
		case p < 48:
			repo = g.withManifests(repo)
			return Op{Kind: "ResolveManifest", Repo: repo, Digest: g.manDigest(repo)}
		case p < 53:
			repo = g.withTags(repo)
			return Op{Kind: "ResolveTag", Repo: repo, Tag: g.tagIn(repo)}
		case p < 57:
			from := g.repo()
			return Op{Kind: "MountBlob", From: from, Repo: repo, Digest: g.blobDigest(from)}
		case p < 62:
			repo = g.withBlobs(repo)
			return Op{Kind: "DeleteBlob", Repo: repo, Digest: g.blobDigest(repo)}
		case p < 67:
			repo = g.withManifests(repo)
			return Op{Kind: "DeleteManifest", Repo: repo, Digest: g.manDigest(repo)}
		case p < 71:
			repo = g.withTags(repo)
			return Op{Kind: "DeleteTag", Repo: repo, Tag: g.tagIn(repo)}
		case p < 74:
			return Op{Kind: "Repositories", Start: g.start()}
		case p < 78:
			repo = g.withTags(repo)
			return Op{Kind: "Tags", Repo: repo, Start: g.start()}
		case p < 82:
			repo = g.withManifests(repo)
			dg := g.manDigest(repo)
			if ss := g.Subjects[repo]; len(ss) > 0 && g.R.Intn(10) < 6 {
				dg = g.pick(ss)
			}
			art := ""
			if g.R.Intn(8) == 0 {
				art = "application/vnd.example.sbom"
			}
			return Op{Kind: "Referrers", Repo: repo, Digest: dg, Art: art}
		}
		if g.NoUploads {
			continue
		}
		switch {
		case p < 85:
			return Op{Kind: "PushBlobChunked", Repo: repo, Hint: int64(g.R.Intn(3)) - 1}
		case p < 88:
			i, w := g.liveWriter()
			if w == nil {
				continue
			}
			_ = i
			off := int64(len(w.Written))
			switch g.R.Intn(6) {
			case 0:
				off = -1
			case 1:
				off++
			case 2:
				off = 0
			}
			id := w.ID
			r := w.Repo
			switch g.R.Intn(10) {
			case 0:
				id = "custom-id"
			case 1:
				r = repo
			}
			return Op{Kind: "PushBlobChunkedResume", Repo: r, ID: id, Off: off, Hint: 0}
		default:
			i, w := g.liveWriter()
			if w == nil {
				continue
			}
			switch q := g.R.Intn(20); {
			case q < 9:
				c := g.content()
				if len(c) > 6 && g.R.Intn(2) == 0 {
					c = c[:1+g.R.Intn(5)]
				}
				return Op{Kind: "WWrite", W: i, Content: c}
			case q < 13:
				d := Sha(w.Written)
				if g.R.Intn(5) == 0 {
					d = Sha(g.content())
				}
				return Op{Kind: "WCommit", W: i, Digest: d}
			case q < 15:
				return Op{Kind: "WSize", W: i}
			case q < 16:
				return Op{Kind: "WID", W: i}
			case q < 17:
				return Op{Kind: "WChunkSize", W: i}
			case q < 19:
				return Op{Kind: "WClose", W: i}
			default:
				return Op{Kind: "WCancel", W: i}
			}
		}
	}
}

func without(ss []string, x string) []string {
	var out []string
	for _, s := range ss {
		if s != x {
			out = append(out, s)
		}
	}
	return out
}

// Update feeds the result of executing op on the primary executor back into the pools.
func (g *Gen) Update(o Op, r Result, e *Exec) {
	switch o.Kind {
	case "PushBlob":
		if r.Kind == "desc" {
			g.Blobs[o.Repo] = append(g.Blobs[o.Repo], r.Desc.Digest)
			g.known[r.Desc.Digest] = o.Content
		}
	case "MountBlob":
		if r.Kind == "desc" {
			g.Blobs[o.Repo] = append(g.Blobs[o.Repo], o.Digest)
			// now and then: the same content is pushed again, under another media type, to one
			// of the two repositories, and the blob is read in both.  Repositories are
			// independent: what is done to one of them shows in that one only.
			if g.MountDelete && o.From != o.Repo && len(g.queue) == 0 && g.R.Intn(3) == 0 {
				// now and then: the blob is deleted in ONE of the repositories that hold it after
				// the mount (source or target; one time in three a third repository mounts it from
				// the target first, a chain of two mounts) and read in the others - whole, by
				// descriptor, and a range.  A delete concerns the repository it names only.
				holders := []string{o.From, o.Repo}
				if g.R.Intn(3) == 0 {
					if third := g.pick(g.Repos); third != o.From && third != o.Repo {
						g.queue = append(g.queue, Op{Kind: "MountBlob", From: o.Repo, Repo: third, Digest: o.Digest})
						holders = append(holders, third)
					}
				}
				del := g.R.Intn(len(holders))
				g.queue = append(g.queue, Op{Kind: "DeleteBlob", Repo: holders[del], Digest: o.Digest})
				first := true
				for i, h := range holders {
					if i == del {
						continue
					}
					g.queue = append(g.queue, Op{Kind: "ResolveBlob", Repo: h, Digest: o.Digest}, Op{Kind: "GetBlob", Repo: h, Digest: o.Digest})
					if first {
						o1 := int64(-1)
						if c, ok := g.known[o.Digest]; ok && g.R.Intn(2) == 0 {
							o1 = int64(len(c))
						}
						g.queue = append(g.queue, Op{Kind: "GetBlobRange", Repo: h, Digest: o.Digest, O0: 0, O1: o1})
						first = false
					}
				}
			} else if c, ok := g.known[o.Digest]; ok && o.From != o.Repo && len(g.queue) == 0 && g.R.Intn(2) == 0 {
				to, other := o.From, o.Repo
				if g.R.Intn(2) == 0 {
					to, other = other, to
				}
				g.queue = append(g.queue,
					Op{Kind: "PushBlob", Repo: to, Desc: &Desc{Media: "application/vnd.pushed-again", Digest: o.Digest, Size: int64(len(c))}, Content: c},
					Op{Kind: "ResolveBlob", Repo: other, Digest: o.Digest},
					Op{Kind: "ResolveBlob", Repo: to, Digest: o.Digest})
				if g.R.Intn(2) == 0 {
					g.queue = append(g.queue, Op{Kind: "GetBlob", Repo: other, Digest: o.Digest})
				}
				if g.R.Intn(3) == 0 { // and what a third repository gets when it mounts it now
					third := g.pick(g.Repos)
					g.queue = append(g.queue, Op{Kind: "MountBlob", From: other, Repo: third, Digest: o.Digest},
						Op{Kind: "ResolveBlob", Repo: third, Digest: o.Digest})
				}
			}
		}
	case "PushManifest":
		if r.Kind == "desc" {
			g.Manifests[o.Repo] = append(g.Manifests[o.Repo], ManRef{Digest: r.Desc.Digest, Media: o.Media, Size: r.Desc.Size, Content: o.Content})
			if o.Tag != "" {
				g.TagsSet[o.Repo] = append(g.TagsSet[o.Repo], o.Tag)
			}
		}
	case "DeleteBlob":
		if r.Kind == "unit" {
			g.Blobs[o.Repo] = without(g.Blobs[o.Repo], o.Digest)
			g.Gone[o.Repo] = append(g.Gone[o.Repo], o.Digest)
		}
	case "DeleteManifest":
		if r.Kind == "unit" {
			var keep []ManRef
			for _, m := range g.Manifests[o.Repo] {
				if m.Digest != o.Digest {
					keep = append(keep, m)
				}
			}
			g.Manifests[o.Repo] = keep
			g.Gone[o.Repo] = append(g.Gone[o.Repo], o.Digest)
		}
	case "DeleteTag":
		if r.Kind == "unit" && g.R.Intn(2) == 0 { // half of the deleted tags stay in the pool: reads after delete
			g.TagsSet[o.Repo] = without(g.TagsSet[o.Repo], o.Tag)
		}
	case "PushBlobChunked", "PushBlobChunkedResume":
		if r.Kind == "writer" {
			for len(g.Writers) <= r.W {
				g.Writers = append(g.Writers, &WriterInfo{Repo: o.Repo, ID: e.WriterCanonID(r.W)})
			}
			if g.recommit != nil && o.Kind == "PushBlobChunkedResume" {
				// the session of a committed upload was opened again: commit it once more
				pl := g.recommit
				dg := pl.digest
				if pl.other != "" {
					dg = pl.other
				}
				g.queue = append(g.queue, Op{Kind: "WCommit", W: r.W, Digest: dg},
					Op{Kind: "ResolveBlob", Repo: pl.repo, Digest: pl.digest}, Op{Kind: "GetBlob", Repo: pl.repo, Digest: pl.digest})
			} else if g.reuse != nil && o.Kind == "PushBlobChunkedResume" {
				// the session of a committed upload was opened again: write something else into
				// it (no longer than what was committed) and read the committed blob
				pl := g.reuse
				c := []byte("EVIL-EVIL-EVIL-EVIL-EVIL-EVIL-EVIL-EVIL")
				if len(c) > len(pl.content) {
					c = c[:len(pl.content)]
				}
				if len(c) > 0 {
					g.queue = append(g.queue, Op{Kind: "WWrite", W: r.W, Content: c})
				}
				g.queue = append(g.queue, Op{Kind: "GetBlob", Repo: pl.repo, Digest: pl.digest},
					Op{Kind: "ResolveBlob", Repo: pl.repo, Digest: pl.digest})
			} else if o.Kind == "PushBlobChunkedResume" && len(g.queue) == 0 && g.R.Intn(2) == 0 {
				// now and then a session is resumed twice in a row (a client that lost the answer
				// to its first attempt, or asked with a stale offset first): the offset of the
				// LAST resume is the one the next write is held to - -1 lifts the check an
				// earlier resume armed, a stale offset arms it whatever came before
				w := g.Writers[r.W]
				size := int64(len(w.Written))
				if g.R.Intn(2) == 0 { // a write between the two (refused when the first offset was stale)
					g.queue = append(g.queue, Op{Kind: "WWrite", W: r.W, Content: []byte("xy")})
					if o.Off < 0 || o.Off == size {
						size += 2
					}
				}
				off := []int64{-1, -1, size, size + 1, 0}[g.R.Intn(5)]
				g.queue = append(g.queue, Op{Kind: "PushBlobChunkedResume", Repo: w.Repo, ID: w.ID, Off: off, Hint: 0},
					Op{Kind: "WWrite", W: r.W, Content: []byte("z")}, Op{Kind: "WSize", W: r.W})
			}
		}
		if o.Kind == "PushBlobChunkedResume" {
			g.reuse = nil
			g.recommit = nil
		}
	case "WWrite":
		if r.Kind == "n" {
			w := g.Writers[o.W]
			w.Written = append(append([]byte{}, w.Written...), o.Content[:r.N]...)
		}
	case "WID":
		if r.Kind == "str" {
			g.Writers[o.W].ID = r.Str
		}
	case "WCommit":
		if r.Kind == "desc" {
			w := g.Writers[o.W]
			g.Blobs[w.Repo] = append(g.Blobs[w.Repo], r.Desc.Digest)
			// now and then: the session is used again after its commit - cancelled or closed (the
			// documented "defer w.Cancel()" / "defer w.Close()"), opened again by id and written to.
			// Whatever the registry makes of that, the committed blob must stay what it is.
			if g.Recommit && len(g.queue) == 0 && g.R.Intn(3) == 0 {
				// now and then: the same session is committed a second time - a client that lost
				// the answer to its commit and asks again.  In between the blob was deleted (two
				// in three), or not; the second commit names the same digest (mostly) or another;
				// it is made on the same writer or on the one a resume by id hands out.  A commit
				// that answers with a descriptor has stored the blob: the reads that follow say so.
				pl := &recommitPlan{repo: w.Repo, digest: r.Desc.Digest}
				if g.R.Intn(5) == 0 {
					pl.other = Sha(g.content())
				}
				if g.R.Intn(3) != 0 {
					g.queue = append(g.queue, Op{Kind: "DeleteBlob", Repo: w.Repo, Digest: r.Desc.Digest})
					if g.R.Intn(3) == 0 {
						g.queue = append(g.queue, Op{Kind: "ResolveBlob", Repo: w.Repo, Digest: r.Desc.Digest})
					}
				}
				if g.R.Intn(2) == 0 {
					dg := pl.digest
					if pl.other != "" {
						dg = pl.other
					}
					g.queue = append(g.queue, Op{Kind: "WCommit", W: o.W, Digest: dg},
						Op{Kind: "ResolveBlob", Repo: pl.repo, Digest: pl.digest}, Op{Kind: "GetBlob", Repo: pl.repo, Digest: pl.digest})
				} else {
					off := []int64{-1, -1, int64(len(w.Written)), 0}[g.R.Intn(4)]
					g.queue = append(g.queue, Op{Kind: "PushBlobChunkedResume", Repo: w.Repo, ID: w.ID, Off: off, Hint: 0})
					g.recommit = pl
				}
			} else if len(g.queue) == 0 && g.R.Intn(3) != 0 {
				switch g.R.Intn(4) {
				case 0, 1:
					g.queue = append(g.queue, Op{Kind: "WCancel", W: o.W})
				case 2:
					g.queue = append(g.queue, Op{Kind: "WClose", W: o.W})
				}
				off := []int64{0, 0, -1, int64(len(w.Written))}[g.R.Intn(4)]
				g.queue = append(g.queue, Op{Kind: "PushBlobChunkedResume", Repo: w.Repo, ID: w.ID, Off: off, Hint: 0})
				g.reuse = &reusePlan{repo: w.Repo, digest: r.Desc.Digest, content: append([]byte{}, w.Written...)}
			}
		}
	}
}
