package memsim

import "regexp"

// The name grammars the oracle tables are computed with.
//
// The validity tables handed to the Coq models (o_repos, o_tags, o_digests) say which names a
// registry has to take.  They must not be computed with the library's own validators
// (ociref.IsValidRepository / IsValidTag / IsValidDigest, Digest.Validate): a validator that
// changes its verdict on a legal name would be fed to the model as the truth and the
// difference would cancel out on both sides of the comparison.  They are computed here from
// the text of the OCI distribution specification (v1.1, "Pulling manifests" / "Pushing
// manifests": <name>, <reference as a tag>) and of the image specification (descriptor,
// "Digests": registered algorithms), written down once more and independently of ociref.
// Obs/C02.v evaluates the same grammars inside Coq (Model/NameSpec.v) on every string a
// history mentions and compares the answers with these tables on every run.
var (
	// <name>: [a-z0-9]+((\.|_|__|-+)[a-z0-9]+)*(\/[a-z0-9]+((\.|_|__|-+)[a-z0-9]+)*)*
	specRepo = regexp.MustCompile(`\A[a-z0-9]+((\.|_|__|-+)[a-z0-9]+)*(\/[a-z0-9]+((\.|_|__|-+)[a-z0-9]+)*)*\z`)
	// <reference> as a tag: [a-zA-Z0-9_][a-zA-Z0-9._-]{0,127}
	specTag = regexp.MustCompile(`\A[a-zA-Z0-9_][a-zA-Z0-9._-]{0,127}\z`)
	// digest: algorithm ":" encoded, for the registered algorithms sha256 / sha512 of the image
	// specification and sha384, which go-digest registers beside them (all three hash
	// implementations are linked into every harness binary: crypto/sha256, crypto/sha512);
	// lower-case hex of exactly the hash's length.  Any other algorithm is unsupported, hence
	// not a digest a registry can verify.
	specDigest = regexp.MustCompile(`\A(sha256:[a-f0-9]{64}|sha384:[a-f0-9]{96}|sha512:[a-f0-9]{128})\z`)
)

// SpecValidRepository, SpecValidTag, SpecValidDigest: the specification's verdict.
func SpecValidRepository(s string) bool { return specRepo.MatchString(s) }
func SpecValidTag(s string) bool        { return specTag.MatchString(s) }
func SpecValidDigest(s string) bool     { return specDigest.MatchString(s) }
