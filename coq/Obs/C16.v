(* Correspondence for C16: what the harness observed on the real ociunify (gated fake members,
   snapshots taken whenever every goroutine is blocked or gone) versus the protocol model
   (Model/UnifyConc.v) and versus the property's specification (Model/UnifyConcSpec.v). *)
From Coq Require Import String.
From OCI Require Export Base.Outcome Model.UnifyConc Model.UnifyConcSpec.
From OCI Require Import Proofs.UnifyConc.

(* How the harness builds a member.  The property quantifies over members as black boxes; the
   unifier must treat them alike whatever they are made of.  Besides the plain fake registry
   (ShLeaf) a member can hand out a reader that implements more than BlobReader (ShRich), or be
   itself an ociunify registry over the fake and a registry that fails every read at once -
   the way three registries are unified - under the sequential policy (ShSeq; [wrapped]: behind
   a pass-through wrapper that hides its type, [leaf_first]: position of the fake in it) or
   under the concurrent policy behind the wrapper (ShConc).  The context observed is the one
   the unifier under test gave to the member (recorded by the wrapper when there is one).
   As a member each of these answers exactly as the fake inside it does, with one exception:
   a concurrent inner unifier gives up when its context is cancelled, which is none of the
   member kinds of the model - so ShConc is played only with a gated fake and in schedules in
   which the caller does not cancel before the member's answer has settled. *)
Inductive shape := ShLeaf | ShRich | ShSeq (wrapped leaf_first : bool) | ShConc (leaf_first : bool).

(* What a member's failure looks like to errors.Is / errors.As.  The property speaks of success
   and failure only: a failure is a failure whatever error value carries it, and nothing about
   the error of one member says anything about the caller's context or about the other member.
   FkPlain: an error that is nothing else.  FkCtxCanceled / FkCtxDeadline: the member's own
   cancellation / deadline - an error that wraps context.Canceled / context.DeadlineExceeded
   while the caller's context is live.  FkTimeout: a net.Error-like error (Timeout() = true)
   wrapping os.ErrDeadlineExceeded.  FkOci...: an OCI error (the not-found code of the entry
   point, NAME_UNKNOWN, DENIED, UNAUTHORIZED).  FkHttp503 / FkRange: an ociregistry.HTTPError
   of status 503 / 416 (the latter answers Is(ErrRangeInvalid)).  FkEof: wraps
   io.ErrUnexpectedEOF.  The same flavour is given to the errors of the member's reader (Close,
   Read) when the setting makes those fail. *)
Inductive failkind :=
  FkPlain | FkCtxCanceled | FkCtxDeadline | FkTimeout
| FkOciUnknown | FkOciNameUnknown | FkOciDenied | FkOciUnauthorized
| FkHttp503 | FkRange | FkEof.

(* How the caller's context ends at the ECancel event: its cancel function is called
   (Err() = context.Canceled) or it runs out of time (Err() = context.DeadlineExceeded).  The
   caller has given up either way; the error the call then returns is the context's.
   EndForeign: the caller's context is not one of package context's own types (its own Done
   channel, no AfterFunc - a framework's request context, a merged context): package context then
   forwards the cancellation to every derived context through a goroutine of its own that stays
   parked until the derived context is cancelled.  Under such a caller the harness reads
   'context done now' from the goroutine profile (the forwarder started by the member's sender
   is gone) and cross-checks it with the context's Err(); a forwarder that is still parked is
   a context nobody cancelled. *)
Inductive ctxend := EndCancel | EndDeadline | EndForeign.

(* One call of one entry point: the two members' kinds, shapes and failure flavours, how the
   caller's context ends, the schedule the harness played (event, wait-for-quiet-and-observe),
   and the snapshots it recorded, one per waiting event. *)
Record case := {
  c_entry : entry;
  c_k0 : kind; c_k1 : kind;
  c_sh0 : shape; c_sh1 : shape;
  c_f0 : failkind; c_f1 : failkind;
  c_end : ctxend;
  (* the readers the members hand out are streams that have stalled: Read blocks until the
     member's context is cancelled (or the reader is closed) - an HTTP body on a connection
     on which nothing arrives.  Close and Descriptor answer at once; the caller does not
     read.  The protocol never reads a member's reader, so the prediction does not depend
     on it. *)
  c_stall : bool;
  c_sched : list (ev * bool);
  c_snaps : list snapshot
}.

Definition c_init (c : case) : state := init (style_of (c_entry c)) (c_k0 c) (c_k1 c).

(* no cancellation until a quiet moment at which the call has been made and member i's gate
   has been opened *)
Fixpoint settled_before_cancel (i : mem) (started answered : bool) (l : list (ev * bool)) : bool :=
  match l with
  | [] => true
  | (e, w) :: r =>
      match e with
      | ECancel => false
      | _ =>
          let started' := started || match e with EStart => true | _ => false end in
          let answered' := answered || match e with ERet j _ => mem_beq i j | _ => false end in
          if started' && answered' && w then true else settled_before_cancel i started' answered' r
      end
  end.

Definition shape_fits (i : mem) (k : kind) (sh : shape) (l : list (ev * bool)) : bool :=
  match sh with
  | ShConc _ => kind_beq k Gated && settled_before_cancel i false false l
  | _ => true
  end.

(* Go's select may pick among ready cases, so the model yields a set of allowed observations:
   agreement is membership.  Neither the members' shapes nor the flavours of their failures
   nor the way the caller's context ends enter the prediction (nor the specification): a
   failing member is a failing member, a caller that has given up has given up. *)
Definition model_agrees (c : case) : bool :=
  shape_fits M0 (c_k0 c) (c_sh0 c) (c_sched c) && shape_fits M1 (c_k1 c) (c_sh1 c) (c_sched c)
  && existsb (list_eqb snapshot_eqb (c_snaps c)) (run run_fuel (c_sched c) [c_init c]).

(* the property, judged on the observation alone *)
Definition obs_ok (c : case) : bool := seq_ok (style_of (c_entry c)) (c_snaps c).

(* a case exercises the property when, at some quiet moment after the call returned, there was
   something to get wrong: a reader handed out by a member that was not chosen, an error
   result, a caller cancellation, or a completed Close of the returned reader *)
Definition nontrivial (c : case) : bool :=
  existsb (fun x =>
    match o_res x with
    | Some RNone | None => false
    | Some r =>
        match r with RErrM _ | RErrCtx => true | _ => false end
        || o_cancelled x || o_closed x
        || existsb (fun i => negb (chosen i x) && negb (rdst_beq (ms_rd (om i x)) RdNone)) [M0; M1]
    end) (c_snaps c).

Lemma snapshot_eqb_iff a b : snapshot_eqb a b = true <-> a = b.
Proof.
  split; [apply snapshot_eqb_eq | intros ->; apply snapshot_eqb_refl].
Qed.

Lemma corr_sound c : model_agrees c = true -> obs_ok c = true.
Proof.
  unfold model_agrees, obs_ok, c_init. intros H.
  apply andb_true_iff in H as [_ H].
  apply existsb_exists in H as [l [Hl E]].
  apply (list_eqb_eq snapshot_eqb snapshot_eqb_iff) in E. rewrite E.
  now apply (schedules_ok _ (c_k0 c) (c_k1 c) (c_sched c)).
Qed.

Definition mismatches (cs : list case) : list (N * bool) :=
  bad_from 0 (fun c => if model_agrees c then None else Some (obs_ok c)) cs.
Definition bad_obs (cs : list case) : list (N * bool) :=
  bad_from 0 (fun c => if obs_ok c then None else Some (model_agrees c)) cs.
