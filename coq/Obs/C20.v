(* Correspondence for C20: what the harness observed on *ociregistry.Funcs versus the
   model (Model/Funcs.v, Model/FuncsRun.v) and versus the property's specification.

   A case is a HISTORY: one table value, a list of calls made on it one after the other (each
   with its own context value and arguments, each followed by the traversals the caller made of
   the returned iterator), and what the caller saw of every call.

   The caller is either the only one (the calls are made one after the other in the harness's
   process) or one goroutine among several that were released together on shared table values in
   a fresh process (harness/cmd/c20/conc.go; its context labels start with g<i>.).  The model has
   no state, neither in the table nor beside it, so it predicts the same answers for a goroutine
   of a concurrent run as for a caller that is alone; a process that does not survive the run
   (fatal error of the runtime, report of the race detector, panic, no end) is recorded as
   [SPanic] for every call of every goroutine of that run. *)
From Coq Require Import String.
From OCI Require Export Base.Outcome Model.Funcs Model.FuncsRun.
From OCI Require Import Proofs.Funcs Proofs.FuncsRun.

Record case := {
  c_nil : bool; c_ctor : bool;
  c_ctor_kind : N;      (* which kind of value the constructor returns (the harness's numbering);
                           neither the model nor the specification looks at it *)
  c_set : list method;
  c_steps : list step;
  c_obs : list sobs
}.

Definition mem_method (m : method) (l : list method) : bool := existsb (method_eqb m) l.

Definition table_of (c : case) : table :=
  {| t_nil := c_nil c; t_ctor := c_ctor c; t_set := fun m => mem_method m (c_set c) |}.

Definition errv_eqb (a b : errv) : bool :=
  match a, b with
  | ECtorErr c n r, ECtorErr c' n' r' => beqb c c' && beqb n n' && beqb r r'
  | EUnsup n, EUnsup n' => beqb n n'
  | _, _ => false
  end.

Lemma errv_eqb_eq a b : errv_eqb a b = true -> a = b.
Proof.
  destruct a, b; cbn; try discriminate; intros H;
    repeat (apply andb_true_iff in H as [H ?]);
    repeat match goal with E : beqb _ _ = true |- _ => apply beqb_eq in E end; now subst.
Qed.

Lemma errv_eqb_refl a : errv_eqb a a = true.
Proof. destruct a; cbn; now rewrite ?beqb_refl. Qed.

(* [YOther] / [SOther] are never what the model predicts: never equal *)
Definition yobs_eqb (a b : yobs) : bool :=
  match a, b with YErr e, YErr e' => errv_eqb e e' | _, _ => false end.

Lemma yobs_eqb_eq a b : yobs_eqb a b = true -> a = b.
Proof. destruct a, b; cbn; try discriminate. intros H. now apply errv_eqb_eq in H as ->. Qed.

Definition sobs_eqb (a b : sobs) : bool :=
  match a, b with
  | SPanic, SPanic => true
  | SDelegated f c x, SDelegated g d y => method_eqb f g && beqb c d && list_eqb beqb x y
  | SError e, SError e' => errv_eqb e e'
  | SSeq t, SSeq t' => list_eqb (list_eqb yobs_eqb) t t'
  | _, _ => false
  end.

Lemma list_eqb_sound {A} (eqb : A -> A -> bool) :
  (forall a b, eqb a b = true -> a = b) -> forall l l', list_eqb eqb l l' = true -> l = l'.
Proof.
  intros H. induction l as [|a l IH]; destruct l' as [|b l']; cbn; try discriminate; auto.
  intros E. apply andb_true_iff in E as [E1 E2]. apply H in E1. apply IH in E2. now subst.
Qed.

Lemma sobs_eqb_eq a b : sobs_eqb a b = true -> a = b.
Proof.
  destruct a, b; cbn; try discriminate; auto; intros H.
  - repeat (apply andb_true_iff in H as [H ?]).
    apply method_eqb_eq in H. apply beqb_eq in H1. apply (list_eqb_sound beqb) in H0.
    + now subst.
    + intros; now apply beqb_eq.
  - now apply errv_eqb_eq in H as ->.
  - apply (list_eqb_sound (list_eqb yobs_eqb)) in H; [now subst|].
    apply list_eqb_sound, yobs_eqb_eq.
Qed.

Definition model_agrees (c : case) : bool :=
  list_eqb sobs_eqb (c_obs c) (run (table_of c) (c_steps c)).

(* ---- the specification, read directly off the property (no reference to the model's
   per-method tables, to [invoke] or to [run]) ---- *)

(* the error an unset method must report: the constructor's, made from this call's context,
   the method's name and its repository argument; or else the unsupported-operation error *)
Definition want_err (c : case) (st : step) : errv :=
  if negb (c_nil c) && c_ctor c
  then ECtorErr (s_ctx st) (method_name (s_m st)) (repo_arg (s_m st) (s_args st))
  else EUnsup (method_name (s_m st)).

(* a traversal of an unset iterator method's result: exactly one yield, carrying that error *)
Definition trav_ok (e : errv) (tr : list yobs) : bool :=
  match tr with [YErr e'] => errv_eqb e' e | _ => false end.

Definition step_ok (c : case) (st : step) (o : sobs) : bool :=
  let m := s_m st in
  let isset := negb (c_nil c) && mem_method m (c_set c) in
  match o with
  | SPanic => false
  | SDelegated f ctx args =>
      isset && method_eqb f m && beqb ctx (s_ctx st) && list_eqb beqb args (s_args st)
  | SError e => negb isset && negb (is_iter m) && errv_eqb e (want_err c st)
  | SSeq travs =>
      negb isset && is_iter m && Nat.eqb (List.length travs) (List.length (s_trav st))
      && forallb (trav_ok (want_err c st)) travs
  | SOther _ => false
  end.

Fixpoint all2 {A B} (f : A -> B -> bool) (la : list A) (lb : list B) : bool :=
  match la, lb with
  | [], [] => true
  | a :: la, b :: lb => f a b && all2 f la lb
  | _, _ => false
  end.

(* every call of the history, whatever came before it, is answered as the property says *)
Definition obs_ok (c : case) : bool := all2 (step_ok c) (c_steps c) (c_obs c).

(* a case is non-trivial when it can tell a guard on the wrong field from the right one for
   some call of the history: the table is nil, or some field other than that call's own is set *)
Definition nontrivial (c : case) : bool :=
  existsb (fun st => c_nil c || existsb (fun f => negb (method_eqb f (s_m st))) (c_set c)) (c_steps c).

Lemma step_ok_run c st : step_ok c st (run_step (table_of c) st) = true.
Proof.
  pose proof (run_step_spec (table_of c) st) as H. unfold step_spec in H.
  cbn [t_nil t_set t_ctor table_of] in H. unfold step_ok.
  assert (Eerr : unset_err (table_of c) (s_m st) (s_ctx st) (s_args st) = want_err c st) by reflexivity.
  destruct H as [(Hn & Hs & ->) | (Hu & ->)].
  - rewrite Hn, Hs. cbn.
    assert (method_eqb (s_m st) (s_m st) = true) as -> by now apply method_eqb_eq.
    rewrite beqb_refl. apply (list_eqb_eq beqb beqb_eq). reflexivity.
  - assert (E : negb (c_nil c) && mem_method (s_m st) (c_set c) = false).
    { destruct Hu as [-> | ->]; [reflexivity | apply andb_false_r]. }
    cbv zeta. rewrite Eerr. destruct (is_iter (s_m st)).
    + rewrite E. cbn [negb andb]. rewrite map_length, Nat.eqb_refl. cbn [andb].
      induction (s_trav st) as [|k l IH]; cbn; [reflexivity|].
      now rewrite errv_eqb_refl.
    + rewrite E. cbn. apply errv_eqb_refl.
Qed.

Lemma corr_sound c : model_agrees c = true -> obs_ok c = true.
Proof.
  unfold model_agrees, obs_ok. intros H.
  apply (list_eqb_sound sobs_eqb sobs_eqb_eq) in H. rewrite H. clear H. unfold run.
  induction (c_steps c) as [|st l IH]; cbn [all2 map]; [reflexivity|].
  rewrite step_ok_run. exact IH.
Qed.

Definition mismatches (cs : list case) : list (N * bool) :=
  bad_from 0 (fun c => if model_agrees c then None else Some (obs_ok c)) cs.
Definition bad_obs (cs : list case) : list (N * bool) :=
  bad_from 0 (fun c => if obs_ok c then None else Some (model_agrees c)) cs.
