(* Correspondence for C20: what the harness observed on *ociregistry.Funcs versus the
   model (Model/Funcs.v) and versus the property's specification. *)
From Coq Require Import String.
From OCI Require Export Base.Outcome Model.Funcs.
From OCI Require Import Proofs.Funcs.

Inductive obs :=
  | O (o : outcome)
  | OOther (what : bytes).     (* e.g. results not returned faithfully, unexpected error *)

Record case := {
  c_nil : bool; c_ctor : bool; c_set : list method;
  c_m : method; c_args : list bytes;
  c_obs : obs
}.

Definition mem_method (m : method) (l : list method) : bool := existsb (method_eqb m) l.

Definition table_of (c : case) : table :=
  {| t_nil := c_nil c; t_ctor := c_ctor c; t_set := fun m => mem_method m (c_set c) |}.

Definition outcome_eqb (a b : outcome) : bool :=
  match a, b with
  | CPanic, CPanic => true
  | CDelegated f x, CDelegated g y => method_eqb f g && list_eqb beqb x y
  | CCtorError n r k, CCtorError n' r' k' => beqb n n' && beqb r r' && N.eqb k k'
  | CUnsupported n k, CUnsupported n' k' => beqb n n' && N.eqb k k'
  | _, _ => false
  end.

Lemma outcome_eqb_eq a b : outcome_eqb a b = true -> a = b.
Proof.
  destruct a, b; cbn; try discriminate; auto; intros H;
    repeat (apply andb_true_iff in H as [H ?]).
  - apply method_eqb_eq in H. apply (list_eqb_eq beqb beqb_eq) in H0. now subst.
  - apply beqb_eq in H. apply beqb_eq in H1. apply N.eqb_eq in H0. now subst.
  - apply beqb_eq in H. apply N.eqb_eq in H0. now subst.
Qed.

Definition model_agrees (c : case) : bool :=
  match c_obs c with
  | O o => outcome_eqb o (call (table_of c) (c_m c) (c_args c))
  | OOther _ => false
  end.

(* The specification, read directly off the property (no reference to the model's tables). *)
Definition obs_ok (c : case) : bool :=
  let m := c_m c in
  let isset := negb (c_nil c) && mem_method m (c_set c) in
  let y := if is_iter m then 1 else 0 in
  match c_obs c with
  | O CPanic => false
  | O (CDelegated f args) => isset && method_eqb f m && list_eqb beqb args (c_args c)
  | O (CCtorError n r k) =>
      negb isset && negb (c_nil c) && c_ctor c && beqb n (method_name m)
      && beqb r (repo_arg m (c_args c)) && N.eqb k y
  | O (CUnsupported n k) =>
      negb isset && (c_nil c || negb (c_ctor c)) && beqb n (method_name m) && N.eqb k y
  | OOther _ => false
  end.

(* a case is non-trivial when it can tell a guard on the wrong field from the right one:
   some field other than the method's own is set, or the method's own field is unset while
   others are set, or the table is nil *)
Definition nontrivial (c : case) : bool :=
  c_nil c || existsb (fun f => negb (method_eqb f (c_m c))) (c_set c).

Lemma corr_sound c : model_agrees c = true -> obs_ok c = true.
Proof.
  unfold model_agrees, obs_ok. destruct (c_obs c) as [o|w]; [|discriminate].
  intros H. apply outcome_eqb_eq in H. subst o.
  set (t := table_of c). set (m := c_m c). set (args := c_args c).
  destruct (negb (c_nil c) && mem_method m (c_set c)) eqn:E.
  - apply andb_true_iff in E as [E1 E2]. apply negb_true_iff in E1.
    rewrite (call_delegates t m args E1 E2). cbn.
    assert (method_eqb m m = true) as -> by now apply method_eqb_eq.
    apply (list_eqb_eq beqb beqb_eq). reflexivity.
  - rewrite (call_unset t m args).
    2:{ apply andb_false_iff in E as [E|E]; [left; now apply negb_false_iff in E | now right]. }
    cbn [t_nil t_ctor t table_of].
    destruct (c_nil c), (c_ctor c); cbn; rewrite ?beqb_refl, ?N.eqb_refl; reflexivity.
Qed.

Definition mismatches (cs : list case) : list (N * bool) :=
  bad_from 0 (fun c => if model_agrees c then None else Some (obs_ok c)) cs.
Definition bad_obs (cs : list case) : list (N * bool) :=
  bad_from 0 (fun c => if obs_ok c then None else Some (model_agrees c)) cs.
