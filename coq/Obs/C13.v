(* Correspondence for C13: what the harness observed on ocifilter.Sub over a recording
   backend, versus the model (Model/Filter.v, Section Sub) and versus the property's
   specification. *)
From Coq Require Import String.
From OCI Require Export Base.Outcome Model.FilterLegacy.
From OCI Require Import Proofs.Funcs Proofs.FilterSelect Proofs.FilterSub.
From OCI Require Export Model.Filter.   (* last: Filter.filter_map, not List.filter_map *)

(* ---------- the recording backend, as the script of its answers ---------- *)

Definition script := list (op * result).
Definition script_mismatch : result := Err (E (ECustom (s "script")) (s "backend call not in the script")).

(* the model's backend: answers the calls the real backend answered, in the same order;
   the context it is called with is recorded in the trace, not used for the answer *)
Definition script_step : ctx_registry script := fun _ sc o =>
  match sc with
  | (o', r) :: rest => if op_eqb o o' then (rest, r) else (sc, script_mismatch)
  | [] => (sc, script_mismatch)
  end.

(* a backend call as recorded: the scope found in its context, the operation, the answer *)
Definition bcallr := (scope * (op * result))%type.

Inductive case :=
  (* a history through Sub(r, prefix) under a context carrying scope ctx: per operation
     the result the caller saw and the backend calls made during it *)
  | CHist (prefix : bytes) (ctx : scope) (hist : list op) (obs : list (result * list bcallr))
  (* a history in which every call has its own context scope and is made on one of several
     views that are alive together over the same backend: per operation the prefix of the
     view it is made on (a view is one Sub value for the whole history), the scope in its
     context, the operation; observed as for CHist *)
  | CHistV (hist : list ((bytes * scope) * op)) (obs : list (result * list bcallr))
  (* Repositories yield by yield: the backend's raw yields, the index of the yield at which
     the consumer says stop; observed: the scope and start point the backend was called
     with, the yields the consumer received, the number of backend yields delivered *)
  | CSeq (prefix start : bytes) (ctx : scope) (evs : list yld) (stop : option N)
         (bctx : scope) (bstart : bytes) (ys : list yld) (delivered : N)
  (* Repositories over a backend that holds exactly names (any byte strings) and honours
     the Lister contract *)
  | CList (prefix : bytes) (names : list bytes) (start : bytes) (r : result)
  (* differential: a history through Sub over an in-memory registry, and the same calls
     made with prefix/name directly on a second registry with the same contents
     (Repositories: the complete listing of the second registry) *)
  | CTwin (prefix : bytes) (hist : list op) (obs : list (result * result))
  (* a method promoted from the embedded Funcs field *)
  | CPromoted (m : method) (embedded_nil : bool) (r : result) (ncalls : N)
  (* the pre-repair name mapping (Model/FilterLegacy.v) against Go's path.Join *)
  | CJoin (prefix name joined : bytes).

(* ---------- the model's prediction ---------- *)

Definition model_step (prefix : bytes) (ctx : scope) : tstep script bcall :=
  with_embedded_funcs declared_all (sub prefix script_step ctx).

Definition is_wop (o : op) : bool := match op_method o with None => true | Some _ => false end.

(* an operation on a BlobWriter is made without a context: the scope the recording writer
   reports for it is the one of the call that created the writer, and is not compared *)
Definition proj (c : bcall) : bcall := (if is_wop (snd c) then ScSet [] else fst c, snd c).

Definition stop_fn (stop : option N) : nat -> bool :=
  fun i => match stop with Some k => negb (Nat.eqb i (N.to_nat k)) | None => true end.

Definition yld_eqb : yld -> yld -> bool := pair_eqb beqb (option_eqb err_eqb).
Definition obs_eqb : result * list bcall -> result * list bcall -> bool :=
  pair_eqb result_eqb (list_eqb bcall_eqb).

Definition obs_script (obs : list (result * list bcallr)) : script :=
  concat (map (fun x => map snd (snd x)) obs).
Definition obs_calls (calls : list bcallr) : list bcall :=
  map (fun c => proj (fst c, fst (snd c))) calls.

(* the views keep nothing between calls: every call is a step of the view it is made on
   under its own context, over the backend as the calls before left it *)
Fixpoint vrun (sc : script) (h : list ((bytes * scope) * op)) : list (result * list bcall) :=
  match h with
  | [] => []
  | ((p, c), o) :: h' => let '(s1, r, t) := model_step p c sc o in (r, t) :: vrun s1 h'
  end.

Definition null_backend : ctx_registry unit := fun _ st _ => (st, Ok RUnit).

Definition model_agrees (c : case) : bool :=
  match c with
  | CHist prefix ctx hist obs =>
      list_eqb obs_eqb (map (fun x => (fst x, obs_calls (snd x))) obs)
               (map (fun x => (fst x, map proj (snd x)))
                    (snd (trun (model_step prefix ctx) (obs_script obs) hist)))
  | CHistV hist obs =>
      list_eqb obs_eqb (map (fun x => (fst x, obs_calls (snd x))) obs)
               (map (fun x => (fst x, map proj (snd x))) (vrun (obs_script obs) hist))
  | CSeq prefix start ctx evs stop bctx bstart ys delivered =>
      negb (is_empty prefix) &&
      let '(ys', n) := repos_drive (cut_prefix (prefix ++ [slash])) (stop_fn stop) 0 evs in
      list_eqb yld_eqb ys ys' && N.eqb delivered (N.of_nat n) &&
      list_eqb bcall_eqb (snd (sub prefix null_backend ctx tt (Repositories start)))
               [(bctx, Repositories bstart)]
  | CList prefix names start r =>
      result_eqb r (snd (fst (sub prefix (names_registry names) (ScSet []) tt (Repositories start))))
  | CTwin prefix hist obs =>
      negb (is_empty prefix) && Nat.eqb (length hist) (length obs) &&
      forallb (fun x =>
                 result_eqb (fst (snd x))
                   match fst x, snd (snd x) with
                   | Repositories start, Ok (RList l e) =>
                       Ok (RList (after start (filter_map (cut_prefix (prefix ++ [slash])) l)) e)
                   | _, d => d
                   end)
              (combine hist obs)
  | CPromoted m embedded_nil r ncalls =>
      embedded_nil && result_eqb r (promoted_result m) && N.eqb ncalls 0
  | CJoin prefix name joined => beqb (legacy_repo prefix name) joined
  end.

(* ---------- the specification, read off the property ---------- *)

(* prefix/n *)
Definition spec_name (prefix n : bytes) : bytes := prefix ++ s "/" ++ n.

(* a with the leading p removed, when a starts with p *)
Fixpoint strip (p a : bytes) : option bytes :=
  match p, a with
  | [], _ => Some a
  | c :: p', d :: a' => if N.eqb c d then strip p' a' else None
  | _ :: _, [] => None
  end.

(* the names of l that are under prefix/, with the prefix removed *)
Fixpoint strip_all (prefix : bytes) (l : list bytes) : list bytes :=
  match l with
  | [] => []
  | a :: rest =>
      match strip (prefix ++ s "/") a with
      | Some n => n :: strip_all prefix rest
      | None => strip_all prefix rest
      end
  end.

(* ... and of those, the ones after the caller's start point *)
Fixpoint spec_listing (prefix start : bytes) (names : list bytes) : list bytes :=
  match names with
  | [] => []
  | a :: rest =>
      match strip (prefix ++ s "/") a with
      | Some n =>
          if is_empty start || bltb start n then n :: spec_listing prefix start rest
          else spec_listing prefix start rest
      | None => spec_listing prefix start rest
      end
  end.

(* the start point means the same repository to the wrapped registry *)
Definition spec_start (prefix start : bytes) : bytes :=
  if is_empty start then [] else spec_name prefix start.

(* a scope for repository n becomes a scope for prefix/n, any other scope is kept *)
Definition spec_rs (prefix : bytes) (rs : rscope) : rscope :=
  if beqb (rs_type rs) (s "repository")
  then RS (rs_type rs) (spec_name prefix (rs_resource rs)) (rs_action rs)
  else rs.

Definition rs_mem (rs : rscope) (l : list rscope) : bool := existsb (rs_eqb rs) l.

(* the scope the wrapped registry sees holds exactly the rewritten members (as a set) *)
Definition scope_ok (prefix : bytes) (ctx sc : scope) : bool :=
  match ctx, sc with
  | ScUnlimited, ScUnlimited => true
  | ScSet l, ScSet l' =>
      forallb (fun rs => rs_mem (spec_rs prefix rs) l') l &&
      forallb (fun rs' => rs_mem rs' (map (spec_rs prefix) l)) l'
  | _, _ => false
  end.

Definition spec_strip_result (prefix : bytes) (br : result) : result :=
  match br with
  | Ok (RList l e) => Ok (RList (strip_all prefix l) e)
  | _ => br
  end.

Definition spec_op (prefix : bytes) (ctx : scope) (o : op) (r : result) (calls : list bcallr) : bool :=
  match calls with
  | [(sc, (o', br))] =>
      match op_method o with
      | None =>
          (* use of a writer obtained earlier: the backend's writer *)
          op_eqb o' o && result_eqb r br
      | Some _ =>
          if is_empty prefix
          then (* Sub(r, "") is r *) scope_eqb sc ctx && op_eqb o' o && result_eqb r br
          else
            scope_ok prefix ctx sc &&
            match o with
            | Repositories start =>
                op_eqb o' (Repositories (spec_start prefix start)) &&
                result_eqb r (spec_strip_result prefix br)
            | _ =>
                (* the same call on prefix/name, on nothing outside prefix/, answered by
                   the wrapped registry *)
                op_eqb o' (map_op_repos (spec_name prefix) o) &&
                forallb (underb prefix) (op_repos o') &&
                result_eqb r br
            end
      end
  | _ => false
  end.

Fixpoint spec_hist (prefix : bytes) (ctx : scope) (hist : list op) (obs : list (result * list bcallr)) : bool :=
  match hist, obs with
  | [], [] => true
  | o :: hist', (r, calls) :: obs' => spec_op prefix ctx o r calls && spec_hist prefix ctx hist' obs'
  | _, _ => false
  end.

(* every call is judged by the prefix of the view it was made on and by the scope of its
   own context, whatever the calls before it carried *)
Fixpoint spec_histv (hist : list ((bytes * scope) * op)) (obs : list (result * list bcallr)) : bool :=
  match hist, obs with
  | [], [] => true
  | ((p, c), o) :: hist', (r, calls) :: obs' => spec_op p c o r calls && spec_histv hist' obs'
  | _, _ => false
  end.

Fixpoint first_error (evs : list yld) : list yld :=
  match evs with
  | [] => []
  | (_, Some e) :: _ => [([], Some e)]
  | (_, None) :: evs' => first_error evs'
  end.

(* everything a consumer that never stops is owed: the stripped names under prefix/ that
   the backend yields before its first error, in the backend's order, then that error *)
Definition owed (prefix : bytes) (evs : list yld) : list yld :=
  map (fun r => (r, None)) (strip_all prefix (items_before_error evs)) ++ first_error evs.

Definition twin_expect (prefix : bytes) (o : op) (direct : result) : result :=
  match o, direct with
  | Repositories start, Ok (RList l e) => Ok (RList (spec_listing prefix start l) e)
  | _, _ => direct
  end.

Definition obs_ok (c : case) : bool :=
  match c with
  | CHist prefix ctx hist obs => spec_hist prefix ctx hist obs
  | CHistV hist obs => spec_histv hist obs
  | CSeq prefix start ctx evs stop bctx bstart ys delivered =>
      list_eqb yld_eqb ys
        match stop with
        | None => owed prefix evs
        | Some k => firstn (S (N.to_nat k)) (owed prefix evs)
        end &&
      beqb bstart (spec_start prefix start) && scope_ok prefix ctx bctx
  | CList prefix names start r =>
      result_eqb r (Ok (RList (if is_empty prefix then after start names
                               else spec_listing prefix start names) None))
  | CTwin prefix hist obs =>
      negb (is_empty prefix) && Nat.eqb (length hist) (length obs) &&
      forallb (fun x => result_eqb (fst (snd x)) (twin_expect prefix (fst x) (snd (snd x))))
              (combine hist obs)
  | CPromoted m embedded_nil r ncalls =>
      (* fails closed: an unsupported-operation error and nothing called *)
      match result_error r with
      | Some e => ecode_eqb (e_code e) UNSUPPORTED && N.eqb ncalls 0
      | None => false
      end
  | CJoin _ _ _ => true    (* not part of the property: ties Model/PathClean.v to Go's path.Join *)
  end.

(* non-trivial: a prefix is in force and the case can tell a wrapper that maps names,
   start points or scopes wrongly from one that does it right *)
Definition has_repo_scope (c : scope) : bool :=
  match scope_repos c with [] => false | _ => true end.

Definition nontrivial (c : case) : bool :=
  match c with
  | CHist prefix ctx hist obs =>
      negb (is_empty prefix) &&
      (has_repo_scope ctx ||
       existsb (fun o => match o with
                         | Repositories _ => true
                         | _ => match op_repos o with [] => false | _ => true end
                         end) hist)
  | CHistV hist obs =>
      (* two or more calls, one of them through a prefix under a scope naming a repository *)
      Nat.ltb 1 (length hist) &&
      existsb (fun x => negb (is_empty (fst (fst x))) && has_repo_scope (snd (fst x))) hist
  | CSeq prefix start ctx evs stop bctx bstart ys delivered =>
      existsb (fun y => match snd y with
                        | None => negb (underb prefix (fst y))
                        | Some _ => true
                        end) evs
  | CList prefix names start r =>
      negb (is_empty prefix) && existsb (underb prefix) names && existsb (fun n => negb (underb prefix n)) names
  | CTwin prefix hist obs => match hist with [] => false | _ => true end
  | CPromoted _ _ _ _ => true
  | CJoin prefix name joined => negb (beqb joined (spec_name prefix name))
  end.

(* ---------- corr_sound ---------- *)

Lemma spec_name_sub_repo prefix n : spec_name prefix n = sub_repo prefix n.
Proof. reflexivity. Qed.

Lemma strip_cut_prefix p a : strip p a = cut_prefix p a.
Proof.
  unfold cut_prefix. revert a; induction p as [|c p IH]; intros a; cbn; [reflexivity|].
  destruct a as [|d a]; [reflexivity|]. destruct (N.eqb c d); cbn; [apply IH | reflexivity].
Qed.

Lemma strip_all_filter_map prefix l : strip_all prefix l = filter_map (cut_prefix (prefix ++ [slash])) l.
Proof.
  induction l as [|a l IH]; cbn [strip_all filter_map]; [reflexivity|].
  change (prefix ++ s "/") with (prefix ++ [slash]). rewrite strip_cut_prefix.
  destruct (cut_prefix (prefix ++ [slash]) a); now rewrite IH.
Qed.

Lemma spec_listing_after prefix start l :
  spec_listing prefix start l = after start (filter_map (cut_prefix (prefix ++ [slash])) l).
Proof.
  induction l as [|a l IH]; cbn [spec_listing filter_map].
  - destruct start; reflexivity.
  - change (prefix ++ s "/") with (prefix ++ [slash]). rewrite strip_cut_prefix.
    destruct (cut_prefix (prefix ++ [slash]) a) as [n|]; [|exact IH].
    rewrite IH. destruct start as [|c start]; [reflexivity|]. cbn [is_empty orb after filter].
    destruct (bltb (c :: start) n); reflexivity.
Qed.

Lemma spec_start_sub_start prefix start : spec_start prefix start = sub_start prefix start.
Proof.
  destruct start as [|c start]; [reflexivity|]. cbn [spec_start is_empty sub_start]. unfold spec_name.
  change (s "/") with [slash]. now rewrite app_assoc.
Qed.

Lemma spec_rs_map_rscope prefix rs : spec_rs prefix rs = map_rscope prefix rs.
Proof. reflexivity. Qed.

Lemma rs_mem_in rs l : rs_mem rs l = true <-> In rs l.
Proof.
  unfold rs_mem. rewrite existsb_exists. split.
  - intros [y [Hi He]]. apply rs_eqb_eq in He. now subst.
  - intros Hi. exists rs. split; [exact Hi | now apply rs_eqb_eq].
Qed.

Lemma scope_ok_map_scopes prefix ctx : scope_ok prefix ctx (map_scopes prefix ctx) = true.
Proof.
  destruct ctx as [|l]; [reflexivity|].
  destruct (map_scopes_members prefix l (RS [] [] [])) as [l' [El _]].
  assert (Hm : forall rs', In rs' l' <-> exists rs, In rs l /\ rs' = map_rscope prefix rs).
  { intros rs'. destruct (map_scopes_members prefix l rs') as [l'' [El' H]]. rewrite El in El'.
    injection El' as <-. exact H. }
  rewrite El. cbn [scope_ok]. apply andb_true_iff. split; apply forallb_forall.
  - intros rs Hi. apply rs_mem_in. apply Hm. exists rs. now rewrite spec_rs_map_rscope.
  - intros rs' Hi. apply rs_mem_in. apply Hm in Hi as [rs [Hi ->]]. apply in_map_iff.
    exists rs. now rewrite spec_rs_map_rscope.
Qed.

Lemma result_eqb_refl r : result_eqb r r = true.
Proof. now apply result_eqb_eq. Qed.
Lemma scope_eqb_refl c : scope_eqb c c = true.
Proof. now apply scope_eqb_eq. Qed.

Lemma script_step_head c o r rest : script_step c ((o, r) :: rest) o = (rest, r).
Proof. cbn. now rewrite op_eqb_refl. Qed.

Lemma bcall_eqb_eq a b : bcall_eqb a b = true <-> a = b.
Proof. apply (pair_eqb_eq _ _ scope_eqb_eq op_eqb_eq). Qed.

(* the model's step, in one formula for both shapes of Sub *)
Definition m_ctx (prefix : bytes) (ctx : scope) (o : op) : scope :=
  if is_empty prefix then ctx else call_ctx prefix ctx o.
Definition m_op (prefix : bytes) (o : op) : op := if is_empty prefix then o else sub_op prefix o.
Definition m_post (prefix : bytes) (o : op) (r : result) : result :=
  if is_empty prefix then r else sub_post prefix o r.

Lemma model_step_spec prefix ctx sc o :
  model_step prefix ctx sc o =
    (fst (script_step (m_ctx prefix ctx o) sc (m_op prefix o)),
     m_post prefix o (snd (script_step (m_ctx prefix ctx o) sc (m_op prefix o))),
     [(m_ctx prefix ctx o, m_op prefix o)]).
Proof.
  unfold model_step. rewrite declared_all_is_step. unfold m_ctx, m_op, m_post.
  destruct prefix as [|c prefix]; cbn [is_empty].
  - apply sub_empty_prefix.
  - rewrite sub_nonempty_prefix by discriminate. apply sub_step_spec.
Qed.

Lemma sub_op_wop prefix o : op_method o = None -> sub_op prefix o = o.
Proof. destruct o; cbn; congruence. Qed.
Lemma sub_post_wop prefix o r : op_method o = None -> sub_post prefix o r = r.
Proof. destruct o; cbn; congruence. Qed.
Lemma sub_op_method prefix o : op_method (sub_op prefix o) = op_method o.
Proof. destruct o; reflexivity. Qed.

Lemma underb_sub_repo prefix n : underb prefix (sub_repo prefix n) = true.
Proof. apply underb_under. now exists n. Qed.

Lemma spec_op_sound prefix ctx o c1 o1 br :
  proj (c1, o1) = proj (m_ctx prefix ctx o, m_op prefix o) ->
  spec_op prefix ctx o (m_post prefix o br) [(c1, (o1, br))] = true.
Proof.
  unfold proj. cbn [fst snd]. intros H. injection H as Hc Ho. subst o1.
  unfold spec_op, m_ctx, m_op, m_post in *.
  destruct (op_method o) as [m|] eqn:Em.
  - assert (Hw : is_wop (if is_empty prefix then o else sub_op prefix o) = false).
    { unfold is_wop. destruct (is_empty prefix); rewrite ?sub_op_method, Em; reflexivity. }
    rewrite Hw in Hc. subst c1.
    destruct prefix as [|ch prefix]; cbn [is_empty].
    + now rewrite scope_eqb_refl, op_eqb_refl, result_eqb_refl.
    + set (pf := ch :: prefix). unfold call_ctx. rewrite Em, scope_ok_map_scopes. cbn [andb].
      destruct o; cbn in Em; try discriminate;
        cbn [sub_op sub_post map_op_repos op_repos forallb];
        rewrite ?spec_name_sub_repo, ?spec_start_sub_start, ?op_eqb_refl, ?result_eqb_refl, ?underb_sub_repo;
        try reflexivity.
      (* Repositories *)
      cbn [andb]. unfold spec_strip_result, repos_result.
      destruct br as [[]| | |]; rewrite ?strip_all_filter_map; apply result_eqb_refl.
  - assert (Ho : (if is_empty prefix then o else sub_op prefix o) = o).
    { destruct (is_empty prefix); [reflexivity | now apply sub_op_wop]. }
    rewrite Ho, op_eqb_refl. cbn [andb].
    destruct (is_empty prefix); [|rewrite sub_post_wop by exact Em]; apply result_eqb_refl.
Qed.

Lemma spec_hist_sound prefix ctx hist : forall obs,
  list_eqb obs_eqb (map (fun x => (fst x, obs_calls (snd x))) obs)
           (map (fun x => (fst x, map proj (snd x)))
                (snd (trun (model_step prefix ctx) (obs_script obs) hist))) = true ->
  spec_hist prefix ctx hist obs = true.
Proof.
  induction hist as [|o hist IH]; intros obs H.
  - destruct obs; [reflexivity | discriminate].
  - destruct obs as [|[r calls] obs]; cbn [trun] in H.
    + destruct (model_step prefix ctx (obs_script []) o) as [[s1 r1] t1].
      destruct (trun (model_step prefix ctx) s1 hist). discriminate.
    + unfold obs_script in H. cbn [map concat snd fst] in H. fold (obs_script obs) in H.
      rewrite model_step_spec in H. cbn [spec_hist].
      set (c := m_ctx prefix ctx o) in *. set (o' := m_op prefix o) in *.
      destruct (trun (model_step prefix ctx)
                  (fst (script_step c (map snd calls ++ obs_script obs) o')) hist) as [s2 rs] eqn:Et.
      cbn [snd map list_eqb fst] in H. apply andb_true_iff in H as [H1 H2].
      apply (pair_eqb_eq _ _ result_eqb_eq (list_eqb_eq bcall_eqb bcall_eqb_eq)) in H1.
      cbn [fst snd] in H1. injection H1 as Hr Hc.
      destruct calls as [|[c1 [o1 br]] [|? ?]]; try discriminate.
      cbn [obs_calls map fst snd] in Hc.
      assert (Hp : proj (c1, o1) = proj (c, o')).
      { change (hd (proj (c, o')) [proj (c1, o1)] = hd (proj (c, o')) [proj (c, o')]). now rewrite Hc. }
      clear Hc. rename Hp into Hc.
      assert (Ho : o1 = o') by (exact (f_equal snd Hc)).
      subst o1. cbn [map snd app] in *. rewrite script_step_head in *. cbn [fst snd] in *.
      subst r. apply andb_true_iff. split.
      * apply spec_op_sound. exact Hc.
      * apply IH. rewrite Et. exact H2.
Qed.

Lemma spec_histv_sound hist : forall obs,
  list_eqb obs_eqb (map (fun x => (fst x, obs_calls (snd x))) obs)
           (map (fun x => (fst x, map proj (snd x))) (vrun (obs_script obs) hist)) = true ->
  spec_histv hist obs = true.
Proof.
  induction hist as [|[[prefix ctx] o] hist IH]; intros obs H.
  - destruct obs; [reflexivity | discriminate].
  - destruct obs as [|[r calls] obs]; cbn [vrun] in H.
    + destruct (model_step prefix ctx (obs_script []) o) as [[s1 r1] t1]. discriminate.
    + unfold obs_script in H. cbn [map concat snd fst] in H. fold (obs_script obs) in H.
      rewrite model_step_spec in H. cbn [spec_histv].
      set (c := m_ctx prefix ctx o) in *. set (o' := m_op prefix o) in *.
      cbn [snd map list_eqb fst] in H. apply andb_true_iff in H as [H1 H2].
      apply (pair_eqb_eq _ _ result_eqb_eq (list_eqb_eq bcall_eqb bcall_eqb_eq)) in H1.
      cbn [fst snd] in H1. injection H1 as Hr Hc.
      destruct calls as [|[c1 [o1 br]] [|? ?]]; try discriminate.
      cbn [obs_calls map fst snd] in Hc.
      assert (Hp : proj (c1, o1) = proj (c, o')).
      { change (hd (proj (c, o')) [proj (c1, o1)] = hd (proj (c, o')) [proj (c, o')]). now rewrite Hc. }
      clear Hc. rename Hp into Hc.
      assert (Ho : o1 = o') by (exact (f_equal snd Hc)).
      subst o1. cbn [map snd app] in *. rewrite script_step_head in *. cbn [fst snd] in *.
      subst r. apply andb_true_iff. split.
      * apply spec_op_sound. exact Hc.
      * apply IH. exact H2.
Qed.

(* --- listings yield by yield --- *)

Fixpoint kept_yields (keep : bytes -> option bytes) (evs : list yld) : list yld :=
  match evs with
  | [] => []
  | (_, Some e) :: _ => [([], Some e)]
  | (repo, None) :: evs' =>
      match keep repo with
      | Some p => (p, None) :: kept_yields keep evs'
      | None => kept_yields keep evs'
      end
  end.

Lemma drive_always keep evs i : fst (repos_drive keep always i evs) = kept_yields keep evs.
Proof.
  revert i; induction evs as [|[repo [e|]] evs IH]; intros i; cbn; try reflexivity.
  destruct (keep repo); cbn.
  - specialize (IH (S i)). destruct (repos_drive keep always (S i) evs). cbn in *. now rewrite IH.
  - specialize (IH i). destruct (repos_drive keep always i evs). exact IH.
Qed.

Lemma drive_firstn keep k evs : forall i, (i <= k)%nat ->
  fst (repos_drive keep (fun j => negb (Nat.eqb j k)) i evs) = firstn (S k - i) (kept_yields keep evs).
Proof.
  induction evs as [|[repo [e|]] evs IH]; intros i Hi; cbn [repos_drive kept_yields fst].
  - now rewrite firstn_nil.
  - replace (S k - i)%nat with (S (k - i)) by lia. cbn. now rewrite firstn_nil.
  - destruct (keep repo) as [q|].
    + destruct (Nat.eqb_spec i k); cbn [negb].
      * subst. replace (S k - k)%nat with 1%nat by lia. cbn. reflexivity.
      * specialize (IH (S i) ltac:(lia)).
        destruct (repos_drive keep (fun j => negb (Nat.eqb j k)) (S i) evs). cbn [fst] in *.
        replace (S k - i)%nat with (S (S k - S i)) by lia. cbn [firstn]. now rewrite IH.
    + specialize (IH i Hi). destruct (repos_drive keep (fun j => negb (Nat.eqb j k)) i evs). exact IH.
Qed.

Lemma kept_yields_owed prefix evs : kept_yields (cut_prefix (prefix ++ [slash])) evs = owed prefix evs.
Proof.
  unfold owed. induction evs as [|[repo [e|]] evs IH]; cbn [kept_yields items_before_error strip_all first_error map app];
    try reflexivity.
  change (prefix ++ s "/") with (prefix ++ [slash]). rewrite strip_cut_prefix.
  destruct (cut_prefix (prefix ++ [slash]) repo); cbn [map app]; now rewrite IH.
Qed.

Definition some_op (m : method) : op :=
  match m with
  | MGetBlob => GetBlob [] [] | MGetBlobRange => GetBlobRange [] [] 0 0
  | MGetManifest => GetManifest [] [] | MGetTag => GetTag [] []
  | MResolveBlob => ResolveBlob [] [] | MResolveManifest => ResolveManifest [] []
  | MResolveTag => ResolveTag [] [] | MPushBlob => PushBlob [] zero_desc []
  | MPushBlobChunked => PushBlobChunked [] 0
  | MPushBlobChunkedResume => PushBlobChunkedResume [] [] 0 0
  | MMountBlob => MountBlob [] [] [] | MPushManifest => PushManifest [] [] [] []
  | MDeleteBlob => DeleteBlob [] [] | MDeleteManifest => DeleteManifest [] []
  | MDeleteTag => DeleteTag [] [] | MRepositories => Repositories []
  | MTags => Tags [] [] | MReferrers => Referrers [] [] []
  end.

Lemma forallb_ext_in {A} (f g : A -> bool) l :
  (forall a, In a l -> f a = true -> g a = true) -> forallb f l = true -> forallb g l = true.
Proof. rewrite !forallb_forall. auto. Qed.

Lemma corr_sound c : model_agrees c = true -> obs_ok c = true.
Proof.
  destruct c as [prefix ctx hist obs | hist obs | prefix start ctx evs stop bctx bstart ys delivered
                | prefix names start r | prefix hist obs | m en r ncalls | prefix name joined];
    cbn [model_agrees obs_ok].
  - apply spec_hist_sound.
  - apply spec_histv_sound.
  - destruct prefix as [|ch prefix]; [discriminate|]. cbn [is_empty negb andb].
    set (pf := ch :: prefix).
    destruct (repos_drive (cut_prefix (pf ++ [slash])) (stop_fn stop) 0 evs) as [ys' n] eqn:E.
    intros H. apply andb_true_iff in H as [H Hcall]. apply andb_true_iff in H as [H _].
    apply (list_eqb_eq yld_eqb (pair_eqb_eq _ _ beqb_eq (option_eqb_eq err_eqb err_eqb_eq))) in H.
    subst ys'. apply (list_eqb_eq bcall_eqb bcall_eqb_eq) in Hcall.
    unfold pf in Hcall at 1. rewrite sub_nonempty_prefix in Hcall by discriminate. fold pf in Hcall.
    rewrite sub_step_trace in Hcall. cbn [call_ctx op_method sub_op] in Hcall.
    injection Hcall as <- <-.
    rewrite spec_start_sub_start, beqb_refl, scope_ok_map_scopes, !andb_true_r.
    apply (list_eqb_eq yld_eqb (pair_eqb_eq _ _ beqb_eq (option_eqb_eq err_eqb err_eqb_eq))).
    rewrite <- kept_yields_owed. destruct stop as [k|]; unfold stop_fn in E.
    + pose proof (drive_firstn (cut_prefix (pf ++ [slash])) (N.to_nat k) evs 0%nat ltac:(lia)) as Hd.
      rewrite E in Hd. cbn [fst] in Hd. now rewrite Nat.sub_0_r in Hd.
    + pose proof (drive_always (cut_prefix (pf ++ [slash])) evs 0%nat) as Hd. unfold always in Hd.
      rewrite E in Hd. exact Hd.
  - intros H. apply result_eqb_eq in H. subst r. apply result_eqb_eq.
    destruct prefix as [|ch prefix]; cbn [is_empty].
    + rewrite sub_empty_prefix. reflexivity.
    + rewrite sub_nonempty_prefix by discriminate.
      destruct (sub_listing_from (ch :: prefix) (names_registry names) (ScSet []) tt start tt names None
                  (names_registry_lister names) eq_refl) as [Hs _].
      rewrite Hs. cbn [fst snd]. now rewrite spec_listing_after.
  - intros H. apply andb_true_iff in H as [H0 H]. rewrite H0. cbn [andb].
    revert H. apply forallb_ext_in. intros [o [rs rd]] _. cbn [fst snd]. unfold twin_expect.
    destruct o; try exact (fun h => h).
    destruct rd as [[]| | |]; try exact (fun h => h). now rewrite spec_listing_after.
  - intros H. apply andb_true_iff in H as [H Hn]. apply andb_true_iff in H as [_ H].
    apply result_eqb_eq in H. subst r.
    destruct (promoted_fail_closed (B:=unit) (C:=unit) (fun _ => false) (fun st _ => (st, Panic, [])) tt
                (some_op m) m ltac:(destruct m; reflexivity) eq_refl) as [_ He].
    rewrite He. cbn. exact Hn.
  - reflexivity.
Qed.

Definition mismatches (cs : list case) : list (N * bool) :=
  bad_from 0 (fun c => if model_agrees c then None else Some (obs_ok c)) cs.
Definition bad_obs (cs : list case) : list (N * bool) :=
  bad_from 0 (fun c => if obs_ok c then None else Some (model_agrees c)) cs.
