(* Correspondence for C15: what the harness observed on ociunify.New(m0, m1, opts) versus the
   model (Model/Unify.v) and versus the property's specification.

   Two kinds of case.

   [CRead]: one read or listing call on a unifier over two members in given states.  The
   members are black boxes here: [m0]/[m1] is what each member answers when asked
   directly, [u] what the unifier answered, [n0]/[n1] how many calls it made on each.

   Content is handed over by the members as a STREAM (a few bytes per Read, unreadable once
   closed, unreadable once the context of the member call has been cancelled; members that
   are ociclients across HTTP hand over their response bodies), and the harness reads what
   the unifier returns to its end: [RRead d data] is the descriptor with the bytes actually
   read.  A reader returned WITHOUT error whose content cannot be read to the end is recorded
   as [Panic], like a nil reader without error: it is neither of the two proper answers, so
   no clause below accepts it (not even the ones that ask for a failure - a tag that
   resolves to something unreadable is not a tag that fails).

   [CHist]: a history of calls through a unifier whose members are wrapped so that every
   call they receive, and its answer, is recorded.  For the model the members of each step
   ARE those recordings (a scripted registry that replays them and flags any call that is
   not the next recorded one), so the model must predict the unifier's result and, exactly,
   the calls each member received.  Independently of the model the harness snapshots both
   members (all listings and all contents) around every step. *)
From Coq Require Import String Sorted.
From OCI Require Export Base.Outcome Model.Unify.
From OCI Require Import Proofs.Unify.

Record hstep := {
  h_op : op;                        (* the call on the unifier; its writers are numbered in creation order *)
  h_res : result;                   (* what it returned *)
  h_calls0 : list (op * result);    (* calls member 0 received during it, in order, with its answers *)
  h_calls1 : list (op * result);
  h_cut0 : option err;              (* PushBlob: member 0 saw its content stream fail, and returned this *)
  h_cut1 : option err;
  h_excused : bool;                 (* a failure was injected into one member only, or the caller forged
                                       an upload ID: the members are not expected to stay equal *)
  h_eq_before : bool;               (* snapshots of the two members equal before / after the step *)
  h_eq_after : bool
}.

Inductive case :=
  | CRead (pol : policy) (o : op) (m0 m1 u : result) (n0 n1 : N)
  | CHist (pol : policy)
          (enc : list (bytes * bytes * bytes))             (* reference codec: (id0, id1, composite) *)
          (dec : list (bytes * option (list bytes)))       (* reference codec: composite -> ids *)
          (steps : list hstep).

Definition implb (a b : bool) : bool := negb a || b.

(* ================= reads ================= *)

Definition const_member (m : result) : registry unit := fun _ _ => (tt, m).
Definition no_enc (_ _ : bytes) : bytes := [].
Definition no_dec (_ : bytes) : option (list bytes) := None.
Definition properb (r : result) : bool := match r with Ok _ | Err _ => true | _ => false end.
Definition is_read (o : op) : bool := is_digest_read o || is_tag_read o || is_listing o.
Definition nlen {A} (l : list A) : N := N.of_nat (length l).

Definition read_model (pol : policy) (o : op) (m0 m1 : result) (f : bool) :=
  ustep (const_member m0) (const_member m1) no_enc no_dec pol (choose f) (uinit tt tt) o.

Definition read_agrees (pol : policy) (o : op) (m0 m1 u : result) (n0 n1 : N) : bool :=
  is_read o && properb m0 && properb m1 &&
  existsb (fun f =>
             let st := fst (read_model pol o m0 m1 f) in
             let r := snd (read_model pol o m0 m1 f) in
             result_eqb r u && N.eqb (nlen (u_log0 st)) n0 && N.eqb (nlen (u_log1 st)) n1)
          [false; true].

(* --- the specification of reads, straight from the property --- *)

(* digest-addressed content is readable exactly when either member has it; what is
   returned is what a member that has it returns (on failure: a member's error) *)
Definition spec_digest_read (m0 m1 u : result) : bool :=
  Bool.eqb (is_ok u) (is_ok m0 || is_ok m1)
  && (result_eqb u m0 || result_eqb u m1)
  && implb (is_ok u) ((result_eqb u m0 && is_ok m0) || (result_eqb u m1 && is_ok m1)).

Definition okdig (r : result) : option bytes :=
  match r with Ok a => Some (res_digest a) | _ => None end.

(* a tag resolves when the members agree or only one has it, fails when they disagree *)
Definition spec_tag_read (m0 m1 u : result) : bool :=
  match okdig m0, okdig m1 with
  | Some d0, Some d1 => if beqb d0 d1 then result_eqb u m0 || result_eqb u m1 else is_err u
  | Some _, None => result_eqb u m0
  | None, Some _ => result_eqb u m1
  | None, None => is_err u
  end.

Fixpoint ssortedb (l : list bytes) : bool :=
  match l with
  | [] => true
  | a :: l' => match l' with
               | [] => true
               | b :: _ => bltb a b && ssortedb l'
               end
  end.

Definition nf (e : option err) : bool :=
  match e with Some e => ecode_eqb (e_code e) NAME_UNKNOWN | None => false end.
(* an error other than "this member does not know the repository" *)
Definition real_err (e : option err) : bool :=
  match e with Some _ => negb (nf e) | None => false end.

(* listings are the sorted duplicate-free union: strictly ascending keys, nothing invented,
   nothing lost.  A repository unknown to one member is that member's empty listing;
   unknown to both, it is unknown; any other member error ends the listing. *)
Definition spec_listing {T} (key : T -> bytes) (teqb : T -> T -> bool)
           (xs0 : list T) (e0 : option err) (xs1 : list T) (e1 : option err)
           (xs : list T) (eu : option err) : bool :=
  if nf e0 && nf e1 then
    match xs with [] => true | _ => false end && nf eu
  else
    ssortedb (map key xs)
    && forallb (fun a => existsb (teqb a) (xs0 ++ xs1)) xs
    && forallb (fun a => existsb (fun b => beqb (key a) (key b)) xs) (xs0 ++ xs1)
    && (if real_err e0 || real_err e1
        then (real_err e0 && opt_err_eqb eu e0) || (real_err e1 && opt_err_eqb eu e1)
        else negb (is_some eu)).

Definition spec_read (o : op) (m0 m1 u : result) : bool :=
  properb m0 && properb m1 &&
  if is_digest_read o then spec_digest_read m0 m1 u
  else if is_tag_read o then spec_tag_read m0 m1 u
  else match o with
       | Repositories _ | Tags _ _ =>
           match u with
           | Ok (RList xs eu) =>
               let '(xs0, e0) := as_strings m0 in
               let '(xs1, e1) := as_strings m1 in
               spec_listing (fun a => a) beqb xs0 e0 xs1 e1 xs eu
           | _ => false
           end
       | Referrers _ _ _ =>
           match u with
           | Ok (RDescs xs eu) =>
               let '(xs0, e0) := as_descs m0 in
               let '(xs1, e1) := as_descs m1 in
               spec_listing d_digest desc_eqb xs0 e0 xs1 e1 xs eu
           | _ => false
           end
       | _ => false
       end.

(* ================= histories ================= *)

(* a member that replays a recording *)
Record script := { sc_todo : list (op * result); sc_bad : bool }.
Definition err_script : err := E ENone (s "call not in the recording").
Definition script_step : registry script := fun sc o =>
  match sc_todo sc with
  | (o', r) :: rest =>
      if op_eqb o o' then ({| sc_todo := rest; sc_bad := sc_bad sc |}, r)
      else ({| sc_todo := []; sc_bad := true |}, Err err_script)
  | [] => ({| sc_todo := []; sc_bad := true |}, Err err_script)
  end.
Definition mk_script (l : list (op * result)) : script := {| sc_todo := l; sc_bad := false |}.
Definition consumed (sc : script) : bool :=
  negb (sc_bad sc) && match sc_todo sc with [] => true | _ => false end.

Definition tab_enc (t : list (bytes * bytes * bytes)) (a b : bytes) : bytes :=
  match find (fun e => beqb (fst (fst e)) a && beqb (snd (fst e)) b) t with
  | Some e => snd e
  | None => []
  end.
Definition tab_dec (t : list (bytes * option (list bytes))) (id : bytes) : option (list bytes) :=
  match find (fun e => beqb (fst e) id) t with
  | Some e => snd e
  | None => None
  end.

Section Hist.
  Variable pol : policy.
  Variable enc : list (bytes * bytes * bytes).
  Variable dec : list (bytes * option (list bytes)).

  Definition hstate (ws : list uwriter) (h : hstep) : ustate script script :=
    {| u_b0 := mk_script (h_calls0 h); u_b1 := mk_script (h_calls1 h); u_ws := ws;
       u_log0 := []; u_log1 := [] |}.

  Definition hmodel (ws : list uwriter) (h : hstep) (f : bool) :=
    ustep script_step script_step (tab_enc enc) (tab_dec dec) pol
          {| c_first1 := f; c_cut0 := h_cut0 h; c_cut1 := h_cut1 h |} (hstate ws h) (h_op h).

  Definition equal_kept (h : hstep) : bool :=
    implb (h_eq_before h && negb (h_excused h)) (h_eq_after h).

  (* well-formedness of a recording (nothing the implementation can influence):
     only PushBlob streams content; a member whose content stream was cut is recorded
     as not called, and at most one member is cut (the pipe of a member is closed with an error only after the OTHER
     member has returned) *)
  Definition is_push_blob (o : op) : bool := match o with PushBlob _ _ _ => true | _ => false end.
  Definition cut_ok (h : hstep) : bool :=
    match h_cut0 h, h_cut1 h with
    | None, None => true
    | Some _, None => is_push_blob (h_op h) && match h_calls0 h with [] => true | _ => false end
    | None, Some _ => is_push_blob (h_op h) && match h_calls1 h with [] => true | _ => false end
    | Some _, Some _ => false
    end.

  (* BlobWriter.ID returns a string, never an error; the reference codec was asked about
     the pair of member IDs *)
  Definition enc_has (a b : bytes) : bool :=
    existsb (fun e => beqb (fst (fst e)) a && beqb (snd (fst e)) b) enc.
  Definition wid_known (h : hstep) : bool :=
    match h_op h with
    | WID _ =>
        match h_calls0 h, h_calls1 h with
        | [(_, Ok (RStr a))], [(_, Ok (RStr b))] => enc_has a b
        | [], [] => true
        | _, _ => false
        end
    | _ => true
    end.

  Definition try_step (ws : list uwriter) (h : hstep) (f : bool) : option (list uwriter) :=
    let st := fst (hmodel ws h f) in
    let r := snd (hmodel ws h f) in
    if result_eqb r (h_res h)
       && consumed (u_b0 st) && consumed (u_b1 st)
       && list_eqb op_eqb (rev (u_log0 st)) (map fst (h_calls0 h))
       && list_eqb op_eqb (rev (u_log1 st)) (map fst (h_calls1 h))
       && equal_kept h
       && cut_ok h && wid_known h && properb (h_res h)
    then Some (u_ws st) else None.

  Definition step_agrees (ws : list uwriter) (h : hstep) : option (list uwriter) :=
    match try_step ws h false with
    | Some ws' => Some ws'
    | None => try_step ws h true
    end.

  Fixpoint hist_agrees (ws : list uwriter) (hs : list hstep) : bool :=
    match hs with
    | [] => true
    | h :: hs' => match step_agrees ws h with
                  | Some ws' => hist_agrees ws' hs'
                  | None => false
                  end
    end.

  (* --- the specification of writes, straight from the property --- *)

  (* the member received, first, the caller's call with the caller's arguments (its own
     upload ID in place of the composite one), and only Size/Close of its writer after *)
  Definition spec_member (o : op) (own_id : option bytes) (calls : list (op * result)) : option result :=
    match calls with
    | (oi, ri) :: rest =>
        if op_eqb (erase oi) (erase o)
           && match oi with
              | PushBlobChunkedResume _ id _ _ =>
                  match own_id with Some e => beqb id e | None => false end
              | _ => true
              end
           && forallb (fun c => is_followup (fst c)) rest
        then Some ri else None
    | [] => None
    end.

  Definition no_calls (h : hstep) : bool :=
    match h_calls0 h, h_calls1 h with [], [] => true | _, _ => false end.

  (* success is reported only if both succeeded; for calls that are one call on each
     member also conversely *)
  Definition spec_both (h : hstep) (id0 id1 : option bytes) (converse : bool) : bool :=
    match spec_member (h_op h) id0 (h_calls0 h), spec_member (h_op h) id1 (h_calls1 h) with
    | Some r0, Some r1 =>
        implb (is_ok (h_res h)) (is_ok r0 && is_ok r1)
        && implb (converse && is_ok r0 && is_ok r1) (is_ok (h_res h))
    | _, _ => false
    end.

  Definition spec_step (nw : N) (h : hstep) : bool :=
    equal_kept h && properb (h_res h) &&       (* equal members stay equal; the unifier does not panic *)
    match h_op h with
    | PushBlob _ _ _ =>
        match h_cut0 h, h_cut1 h with
        | None, None => spec_both h None None true
        | Some _, None =>
            (* member 0 never got the content because member 1 had already failed *)
            match h_calls0 h, spec_member (h_op h) None (h_calls1 h) with
            | [], Some r1 => is_err r1 && is_err (h_res h)
            | _, _ => false
            end
        | None, Some _ =>
            match spec_member (h_op h) None (h_calls0 h), h_calls1 h with
            | Some r0, [] => is_err r0 && is_err (h_res h)
            | _, _ => false
            end
        | Some _, Some _ => false
        end
    | PushManifest _ _ _ _ | MountBlob _ _ _ | DeleteBlob _ _ | DeleteManifest _ _ | DeleteTag _ _ =>
        spec_both h None None true
    | PushBlobChunked _ _ => spec_both h None None false
    | PushBlobChunkedResume _ id _ _ =>
        match tab_dec dec id with
        | Some [id0; id1] => spec_both h (Some id0) (Some id1) false
        | _ => no_calls h && is_err (h_res h)
        end
    | WWrite k _ | WClose k | WCancel k | WCommit k _ =>
        if N.ltb k nw then spec_both h None None true else true
    | WID k =>
        if N.ltb k nw then
          (* composite IDs decode to the members' own IDs *)
          match h_calls0 h, h_calls1 h, h_res h with
          | [(WID _, Ok (RStr a))], [(WID _, Ok (RStr b))], Ok (RStr c) =>
              match tab_dec dec c with
              | Some [a'; b'] => beqb a a' && beqb b b'
              | _ => false
              end
          | _, _, _ => false
          end
        else true
    | _ => true
    end.

  Definition next_nw (nw : N) (h : hstep) : N :=
    match h_op h, h_res h with
    | PushBlobChunked _ _, Ok (RWriter _) | PushBlobChunkedResume _ _ _ _, Ok (RWriter _) => N.succ nw
    | _, _ => nw
    end.

  Fixpoint spec_hist (nw : N) (hs : list hstep) : bool :=
    match hs with
    | [] => true
    | h :: hs' => spec_step nw h && spec_hist (next_nw nw h) hs'
    end.
End Hist.

(* ================= the case-level functions ================= *)

(* the harness's reference codec round-trips on every pair it was asked to encode *)
Definition codec_coherent (enc : list (bytes * bytes * bytes)) (dec : list (bytes * option (list bytes))) : bool :=
  forallb (fun e => match tab_dec dec (snd e) with
                    | Some [a; b] => beqb (fst (fst e)) a && beqb (snd (fst e)) b
                    | _ => false
                    end) enc.

Definition model_agrees (c : case) : bool :=
  match c with
  | CRead pol o m0 m1 u n0 n1 => read_agrees pol o m0 m1 u n0 n1
  | CHist pol enc dec steps => codec_coherent enc dec && hist_agrees pol enc dec [] steps
  end.

Definition obs_ok (c : case) : bool :=
  match c with
  | CRead pol o m0 m1 u n0 n1 => is_read o && spec_read o m0 m1 u
  | CHist pol enc dec steps => spec_hist dec 0 steps
  end.

(* a read case is non-trivial when the two members answer differently - one has it and the
   other not, or both answer and the answers differ (the only situations in which the union
   rules matter); a history when some write reached both members *)
Definition is_mutation (o : op) : bool := negb (is_read o) && negb (match o with WSize _ | WChunkSize _ | WID _ => true | _ => false end).
Definition nontrivial (c : case) : bool :=
  match c with
  | CRead _ _ m0 m1 _ _ _ =>
      negb (Bool.eqb (is_ok m0) (is_ok m1)) || (is_ok m0 && is_ok m1 && negb (result_eqb m0 m1))
  | CHist _ _ _ steps =>
      existsb (fun h => is_mutation (h_op h)
                        && match h_calls0 h, h_calls1 h with _ :: _, _ :: _ => true | _, _ => false end) steps
  end.

(* ================= corr_sound ================= *)

Lemma properb_proper r : properb r = true -> proper r.
Proof. destruct r; cbn; auto; discriminate. Qed.

Lemma result_eqb_refl r : result_eqb r r = true.
Proof. now apply result_eqb_eq. Qed.

Lemma desc_eqb_refl d : desc_eqb d d = true.
Proof. now apply desc_eqb_eq. Qed.

(* --- reads --- *)

Lemma ssortedb_sorted l : StronglySorted blt l -> ssortedb l = true.
Proof.
  induction l as [|a l IH]; [reflexivity|]. intros H. inversion H as [|? ? H' A]; subst.
  destruct l as [|b l]; [reflexivity|]. cbn [ssortedb].
  inversion A; subst. apply andb_true_iff. split; [now apply bltb_lt | auto].
Qed.

Lemma sorted_map_key {T} (key : T -> bytes) l :
  StronglySorted (klt key) l -> StronglySorted blt (map key l).
Proof.
  induction 1 as [|a l H IH A]; cbn; constructor; auto.
  apply Forall_forall. intros k Hk. apply in_map_iff in Hk as (b & <- & Hb).
  rewrite Forall_forall in A. now apply A.
Qed.

Lemma spec_listing_merge {T} (key : T -> bytes) (teqb : T -> T -> bool) xs0 e0 xs1 e1 :
  (forall a, teqb a a = true) ->
  spec_listing key teqb xs0 e0 xs1 e1
    (fst (merge_iter key xs0 e0 xs1 e1)) (snd (merge_iter key xs0 e0 xs1 e1)) = true.
Proof.
  intros Hrefl. rewrite merge_iter_items_eq, merge_iter_err_eq. unfold spec_listing, merged_err.
  change (@nf) with (@not_found).
  destruct (not_found e0 && not_found e1) eqn:NF.
  - apply andb_true_iff in NF as [N0 _]. now rewrite N0.
  - destruct (merged_spec key xs0 xs1) as (S1 & S2 & S3).
    repeat (apply andb_true_iff; split).
    + apply ssortedb_sorted. now apply sorted_map_key.
    + apply forallb_forall. intros a Ha. apply existsb_exists. exists a. split; [|apply Hrefl].
      apply in_or_app. now apply S2.
    + apply forallb_forall. intros a Ha. apply existsb_exists.
      apply in_app_or in Ha. destruct (S3 a Ha) as (y & Hy & E). exists y. split; [exact Hy|].
      rewrite E. apply beqb_refl.
    + unfold real_err. change (@nf) with (@not_found).
      destruct e0 as [a|], e1 as [b|]; cbn in *;
        try destruct (ecode_eqb (e_code a) NAME_UNKNOWN) eqn:A;
        try destruct (ecode_eqb (e_code b) NAME_UNKNOWN) eqn:B; cbn in *; try discriminate;
        rewrite ?A, ?B; cbn;
        try reflexivity;
        try (assert (err_eqb a a = true) as -> by (now apply err_eqb_eq); reflexivity);
        try (assert (err_eqb b b = true) as -> by (now apply err_eqb_eq); rewrite ?orb_true_r; reflexivity).
Qed.

Lemma read_sound pol o m0 m1 u n0 n1 :
  read_agrees pol o m0 m1 u n0 n1 = true -> is_read o && spec_read o m0 m1 u = true.
Proof.
  unfold read_agrees. intros H.
  apply andb_true_iff in H as [H Hex]. apply andb_true_iff in H as [H P1]. apply andb_true_iff in H as [Hr P0].
  rewrite Hr. cbn [andb]. unfold spec_read. rewrite P0, P1. cbn [andb].
  apply existsb_exists in Hex as (f & _ & Hf).
  apply andb_true_iff in Hf as [Hf _]. apply andb_true_iff in Hf as [Hf _].
  apply result_eqb_eq in Hf. unfold read_model in Hf.
  set (st := uinit tt tt : ustate unit unit) in *.
  assert (A0 : forall o', ans0 (const_member m0) st o' = m0) by reflexivity.
  assert (A1 : forall o', ans1 (const_member m1) st o' = m1) by reflexivity.
  apply properb_proper in P0 as Q0. apply properb_proper in P1 as Q1.
  destruct (is_digest_read o) eqn:Hd.
  - pose proof (union_reads (const_member m0) (const_member m1) no_enc no_dec pol (choose f) st o Hd) as U.
    rewrite A0, A1 in U. specialize (U Q0 Q1). cbv zeta in U. rewrite Hf in U.
    destruct U as (U1 & U2 & U3). unfold spec_digest_read.
    rewrite <- U1, Bool.eqb_reflx. cbn [andb].
    apply andb_true_iff. split.
    + destruct U2 as [->| ->]; rewrite result_eqb_refl; [reflexivity | apply orb_true_r].
    + unfold implb. destruct (is_ok u) eqn:K; [|reflexivity]. cbn [negb orb].
      destruct (U3 eq_refl) as [[-> K']|[-> K']]; rewrite result_eqb_refl, K'; [reflexivity | apply orb_true_r].
  - destruct (is_tag_read o) eqn:Ht.
    + pose proof (ustep_tag_read (const_member m0) (const_member m1) no_enc no_dec pol (choose f) st o Ht) as U.
      rewrite A0, A1, Hf in U. clear Hf. subst u. unfold spec_tag_read.
      destruct m0 as [a| | |], m1 as [b| | |]; cbn in Q0, Q1; try contradiction; cbn [okdig tag_result].
      * destruct (beqb (res_digest a) (res_digest b)); [|reflexivity].
        change (result_eqb (Ok a) (Ok a) || result_eqb (Ok a) (Ok b) = true). now rewrite result_eqb_refl.
      * apply result_eqb_refl.
      * apply result_eqb_refl.
      * reflexivity.
    + unfold is_read in Hr. rewrite Hd, Ht in Hr. cbn in Hr.
      destruct o; cbn in Hr; try discriminate.
      * pose proof (ustep_list_strings (const_member m0) (const_member m1) no_enc no_dec pol (choose f) st (Repositories start) I) as U.
        rewrite A0, A1, Hf in U. clear Hf. subst u. unfold merge_strings.
        destruct m0 as [a| | |], m1 as [b| | |]; cbn in Q0, Q1; try contradiction; cbn [is_panicky];
          destruct (as_strings _) as [l0 q0]; destruct (as_strings _) as [l1 q1];
          destruct (merge_iter _ l0 q0 l1 q1) as [lx qx] eqn:M;
          pose proof (spec_listing_merge (fun a : bytes => a) beqb l0 q0 l1 q1 beqb_refl) as S;
          rewrite M in S; exact S.
      * pose proof (ustep_list_strings (const_member m0) (const_member m1) no_enc no_dec pol (choose f) st (Tags r start) I) as U.
        rewrite A0, A1, Hf in U. clear Hf. subst u. unfold merge_strings.
        destruct m0 as [a| | |], m1 as [b| | |]; cbn in Q0, Q1; try contradiction; cbn [is_panicky];
          destruct (as_strings _) as [l0 q0]; destruct (as_strings _) as [l1 q1];
          destruct (merge_iter _ l0 q0 l1 q1) as [lx qx] eqn:M;
          pose proof (spec_listing_merge (fun a : bytes => a) beqb l0 q0 l1 q1 beqb_refl) as S;
          rewrite M in S; exact S.
      * pose proof (ustep_list_descs (const_member m0) (const_member m1) no_enc no_dec pol (choose f) st r d art) as U.
        rewrite A0, A1, Hf in U. clear Hf. subst u. unfold merge_descs.
        destruct m0 as [a| | |], m1 as [b| | |]; cbn in Q0, Q1; try contradiction; cbn [is_panicky];
          destruct (as_descs _) as [l0 q0]; destruct (as_descs _) as [l1 q1];
          destruct (merge_iter _ l0 q0 l1 q1) as [lx qx] eqn:M;
          pose proof (spec_listing_merge d_digest desc_eqb l0 q0 l1 q1 desc_eqb_refl) as S;
          rewrite M in S; exact S.
Qed.

(* --- histories --- *)

Lemma op_eqb_refl o : op_eqb o o = true.
Proof. now apply op_eqb_eq. Qed.

Lemma script_ans o r rest : snd (script_step (mk_script ((o, r) :: rest)) o) = r.
Proof. unfold script_step, mk_script. cbn. now rewrite op_eqb_refl. Qed.

Lemma log_eq (log : list op) (calls : list (op * result)) :
  list_eqb op_eqb (rev log) (map fst calls) = true -> rev log = map fst calls.
Proof. apply (list_eqb_eq op_eqb op_eqb_eq). Qed.

Lemma member_calls_spec (o oi : op) (own : option bytes) (log l : list op) (calls : list (op * result)) :
  log = l ++ [oi] -> forallb is_followup l = true ->
  list_eqb op_eqb (rev log) (map fst calls) = true ->
  erase oi = erase o ->
  match oi with PushBlobChunkedResume _ id _ _ => own = Some id | _ => True end ->
  exists r rest, calls = (oi, r) :: rest /\ spec_member o own calls = Some r.
Proof.
  intros -> Hf Hl He Hown. apply log_eq in Hl. rewrite rev_app_distr in Hl. cbn in Hl.
  destruct calls as [|[o' r] rest]; [discriminate|]. cbn in Hl. injection Hl as <- Hrest.
  exists r, rest. split; [reflexivity|]. unfold spec_member.
  rewrite He, op_eqb_refl. cbn [andb].
  assert (Hfol : forallb (fun c : op * result => is_followup (fst c)) rest = true).
  { apply forallb_forall. intros c Hc.
    assert (In (fst c) (rev l)) by (rewrite Hrest; now apply in_map).
    rewrite forallb_forall in Hf. apply Hf. now apply in_rev. }
  rewrite Hfol, andb_true_r.
  destruct oi; try reflexivity. rewrite Hown. now rewrite beqb_refl.
Qed.

Section HistSound.
  Variable pol : policy.
  Variable enc : list (bytes * bytes * bytes).
  Variable dec : list (bytes * option (list bytes)).

  Notation ustepS := (ustep script_step script_step (tab_enc enc) (tab_dec dec)).

  Definition hchoice (h : hstep) (f : bool) : choice :=
    {| c_first1 := f; c_cut0 := h_cut0 h; c_cut1 := h_cut1 h |}.

  Lemma hmodel_eq ws h f : hmodel pol enc dec ws h f = ustepS pol (hchoice h f) (hstate ws h) (h_op h).
  Proof. reflexivity. Qed.

  (* the replicated writes *)
  Lemma replicated_sound ws h f o0 o1 own0 own1 converse :
    h_cut0 h = None -> h_cut1 h = None ->
    member_op (tab_dec dec) false (hstate ws h) (h_op h) = Some o0 ->
    member_op (tab_dec dec) true (hstate ws h) (h_op h) = Some o1 ->
    match o0 with PushBlobChunkedResume _ id _ _ => own0 = Some id | _ => True end ->
    match o1 with PushBlobChunkedResume _ id _ _ => own1 = Some id | _ => True end ->
    (converse = true -> is_direct_write (h_op h) = true) ->
    snd (hmodel pol enc dec ws h f) = h_res h ->
    list_eqb op_eqb (rev (u_log0 (fst (hmodel pol enc dec ws h f)))) (map fst (h_calls0 h)) = true ->
    list_eqb op_eqb (rev (u_log1 (fst (hmodel pol enc dec ws h f)))) (map fst (h_calls1 h)) = true ->
    spec_both h own0 own1 converse = true.
  Proof.
    intros C0 C1 M0 M1 O0 O1 Hconv Hres L0 L1. rewrite hmodel_eq in *.
    assert (U : uncut (hchoice h f)) by (split; assumption).
    destruct (writes_replicated script_step script_step (tab_enc enc) (tab_dec dec) pol (hchoice h f)
                (hstate ws h) (h_op h) o0 o1 U M0 M1) as ((l0 & E0 & F0) & (l1 & E1 & F1) & Hok).
    cbn [hstate u_log0 u_log1] in E0, E1.
    destruct (member_calls_spec (h_op h) o0 own0 _ l0 (h_calls0 h) E0 F0 L0
                (member_op_same_args _ _ _ _ _ M0) O0) as (r0 & rest0 & K0 & S0).
    destruct (member_calls_spec (h_op h) o1 own1 _ l1 (h_calls1 h) E1 F1 L1
                (member_op_same_args _ _ _ _ _ M1) O1) as (r1 & rest1 & K1 & S1).
    unfold spec_both. rewrite S0, S1.
    assert (A0 : ans0 script_step (hstate ws h) o0 = r0).
    { unfold ans0, hstate. cbn [u_b0]. rewrite K0. apply script_ans. }
    assert (A1 : ans1 script_step (hstate ws h) o1 = r1).
    { unfold ans1, hstate. cbn [u_b1]. rewrite K1. apply script_ans. }
    rewrite A0, A1, Hres in Hok.
    apply andb_true_iff. split.
    - unfold implb. destruct (is_ok (h_res h)); [|reflexivity]. destruct (Hok eq_refl) as [-> ->]. reflexivity.
    - unfold implb. destruct converse; [|reflexivity]. cbn [andb].
      destruct (is_ok r0) eqn:R0; [|reflexivity]. destruct (is_ok r1) eqn:R1; [|reflexivity]. cbn [andb negb orb].
      rewrite <- Hres. eapply writes_converse; eauto. now rewrite A0. now rewrite A1.
  Qed.

  Lemma calls_nil (log : list op) (calls : list (op * result)) :
    log = [] -> list_eqb op_eqb (rev log) (map fst calls) = true -> calls = [].
  Proof. intros -> H. apply log_eq in H. destruct calls; [reflexivity | discriminate]. Qed.

  Lemma calls_one (log : list op) (calls : list (op * result)) o :
    log = [o] -> list_eqb op_eqb (rev log) (map fst calls) = true -> exists r, calls = [(o, r)].
  Proof.
    intros -> H. apply log_eq in H. destruct calls as [|[o' r] [|? ?]]; try discriminate.
    cbn in H. injection H as <-. eauto.
  Qed.

  Lemma get_writer_some ws h k : N.ltb k (nlen ws) = true -> exists w, get_writer (hstate ws h) k = Some w.
  Proof.
    intros H. unfold get_writer, hstate. cbn [u_ws]. destruct (nth_error ws (N.to_nat k)) eqn:E; [eauto|].
    apply nth_error_None in E. apply N.ltb_lt in H. unfold nlen in H. lia.
  Qed.

  Lemma existsb_find {A} (p : A -> bool) l : existsb p l = true -> exists e, find p l = Some e.
  Proof.
    induction l as [|a l IH]; cbn; [discriminate|]. destruct (p a); [eauto|]. cbn. exact IH.
  Qed.

  Lemma codec_lookup a b :
    codec_coherent enc dec = true -> enc_has enc a b = true ->
    tab_dec dec (tab_enc enc a b) = Some [a; b].
  Proof.
    intros Hc He. unfold enc_has in He. apply existsb_find in He as (e & Hf).
    unfold tab_enc. rewrite Hf. apply find_some in Hf as [Hin Hp].
    unfold codec_coherent in Hc. rewrite forallb_forall in Hc. specialize (Hc e Hin).
    apply andb_true_iff in Hp as [Pa Pb]. apply beqb_eq in Pa. apply beqb_eq in Pb.
    destruct (tab_dec dec (snd e)) as [[|a' [|b' [|? ?]]]|]; try discriminate.
    apply andb_true_iff in Hc as [Qa Qb]. apply beqb_eq in Qa. apply beqb_eq in Qb. congruence.
  Qed.

  Lemma next_nw_creates nw h :
    next_nw nw h = if creates_writer (h_op h) (h_res h) then N.succ nw else nw.
  Proof. unfold next_nw, creates_writer. destruct (h_op h); try reflexivity; destruct (h_res h) as [[]| | |]; reflexivity. Qed.

  Lemma step_sound ws h f ws' :
    codec_coherent enc dec = true ->
    try_step pol enc dec ws h f = Some ws' ->
    spec_step dec (nlen ws) h = true /\ nlen ws' = next_nw (nlen ws) h.
  Proof.
    intros Hcodec. unfold try_step.
    destruct (result_eqb _ _ && _ && _ && _ && _ && _ && _ && _ && _) eqn:C; [|discriminate].
    intros H; injection H as <-.
    repeat (apply andb_true_iff in C; destruct C as [C ?]).
    rename C into Hres, H into Hprop, H0 into Hwid, H1 into Hcut, H2 into Heq, H3 into L1, H4 into L0.
    apply result_eqb_eq in Hres.
    split.
    2:{ rewrite next_nw_creates, <- Hres. rewrite hmodel_eq. unfold nlen.
        rewrite ustep_ws_length. cbn [hstate u_ws].
        destruct (creates_writer _ _); [now rewrite Nat2N.inj_succ | reflexivity]. }
    unfold spec_step. rewrite Heq, Hprop. cbn [andb].
    assert (NoCut : is_push_blob (h_op h) = false -> h_cut0 h = None /\ h_cut1 h = None).
    { intros Hn. unfold cut_ok in Hcut. rewrite Hn in Hcut.
      destruct (h_cut0 h), (h_cut1 h); try discriminate; auto. }
    destruct (h_op h) eqn:Ho; try reflexivity.
    - (* PushBlob *)
      destruct (h_cut0 h) as [e0|] eqn:C0, (h_cut1 h) as [e1|] eqn:C1.
      + unfold cut_ok in Hcut. now rewrite C0, C1 in Hcut.
      + (* member 0 cut *)
        unfold cut_ok in Hcut. rewrite C0, C1, Ho in Hcut. cbn in Hcut.
        destruct (h_calls0 h) eqn:K0; [|discriminate].
        rewrite hmodel_eq in *. rewrite Ho in *. cbn [Unify.ustep] in *. unfold push_blob in *.
        rewrite call0_eq, call1_eq in *. cbn [hchoice c_cut0 c_cut1 c_first1] in *. rewrite C0, C1 in *.
        cbn [fst snd u_b0 u_b1 u_log0 u_log1 u_ws hstate] in *.
        set (o := PushBlob r de content) in *.
        destruct (is_errb (ans1 script_step (hstate ws h) o)) eqn:E1.
        2:{ cbn in L0. discriminate. }
        cbn [u_log0 u_log1] in L0, L1.
        destruct (calls_one _ _ o eq_refl L1) as (r1 & K1). rewrite K1.
        unfold spec_member. cbn [erase]. rewrite op_eqb_refl. cbn [andb forallb].
        assert (A1 : ans1 script_step (hstate ws h) o = r1).
        { unfold ans1, hstate. cbn [u_b1]. rewrite K1. apply script_ans. }
        rewrite A1 in *. destruct r1; try discriminate. cbn [is_err andb].
        rewrite <- Hres. destruct f; reflexivity.
      + (* member 1 cut *)
        unfold cut_ok in Hcut. rewrite C0, C1, Ho in Hcut. cbn in Hcut.
        destruct (h_calls1 h) eqn:K1; [|discriminate].
        rewrite hmodel_eq in *. rewrite Ho in *. cbn [Unify.ustep] in *. unfold push_blob in *.
        rewrite call0_eq, call1_eq in *. cbn [hchoice c_cut0 c_cut1 c_first1] in *. rewrite C0, C1 in *.
        cbn [fst snd u_b0 u_b1 u_log0 u_log1 u_ws hstate] in *.
        set (o := PushBlob r de content) in *.
        destruct (is_errb (ans0 script_step (hstate ws h) o)) eqn:E0.
        2:{ cbn in L1. discriminate. }
        cbn [u_log0 u_log1] in L0, L1.
        destruct (calls_one _ _ o eq_refl L0) as (r0 & K0). rewrite K0.
        unfold spec_member. cbn [erase]. rewrite op_eqb_refl. cbn [andb forallb].
        assert (A0 : ans0 script_step (hstate ws h) o = r0).
        { unfold ans0, hstate. cbn [u_b0]. rewrite K0. apply script_ans. }
        rewrite A0 in *. destruct r0; try discriminate. cbn [is_err andb].
        rewrite <- Hres. destruct f; reflexivity.
      + eapply replicated_sound with (f := f) (o0 := h_op h) (o1 := h_op h); eauto;
          rewrite ?Ho; try reflexivity; auto.
    - (* PushBlobChunked *)
      destruct (NoCut eq_refl) as [C0 C1].
      eapply replicated_sound with (f := f) (o0 := h_op h) (o1 := h_op h); eauto;
        rewrite ?Ho; try reflexivity; auto; discriminate.
    - (* PushBlobChunkedResume *)
      destruct (NoCut eq_refl) as [C0 C1].
      destruct (tab_dec dec id) as [[|a [|b [|? ?]]]|] eqn:D.
      3:{
          eapply replicated_sound with (f := f) (o0 := PushBlobChunkedResume r a off hint)
                                       (o1 := PushBlobChunkedResume r b off hint); eauto;
            rewrite ?Ho; cbn; rewrite ?D; try reflexivity; auto; discriminate. }
      all: rewrite hmodel_eq, Ho in *; cbn [Unify.ustep] in *; unfold push_resume in *; rewrite D in *;
        cbn [fst snd hstate u_log0 u_log1] in *;
        unfold no_calls; rewrite (calls_nil _ _ eq_refl L0), (calls_nil _ _ eq_refl L1), <- Hres; reflexivity.
    - destruct (NoCut eq_refl) as [C0 C1].
      eapply replicated_sound with (f := f) (o0 := h_op h) (o1 := h_op h); eauto;
        rewrite ?Ho; try reflexivity; auto.
    - destruct (NoCut eq_refl) as [C0 C1].
      eapply replicated_sound with (f := f) (o0 := h_op h) (o1 := h_op h); eauto;
        rewrite ?Ho; try reflexivity; auto.
    - destruct (NoCut eq_refl) as [C0 C1].
      eapply replicated_sound with (f := f) (o0 := h_op h) (o1 := h_op h); eauto;
        rewrite ?Ho; try reflexivity; auto.
    - destruct (NoCut eq_refl) as [C0 C1].
      eapply replicated_sound with (f := f) (o0 := h_op h) (o1 := h_op h); eauto;
        rewrite ?Ho; try reflexivity; auto.
    - destruct (NoCut eq_refl) as [C0 C1].
      eapply replicated_sound with (f := f) (o0 := h_op h) (o1 := h_op h); eauto;
        rewrite ?Ho; try reflexivity; auto.
    - (* Write *)
      destruct (NoCut eq_refl) as [C0 C1].
      destruct (N.ltb w (nlen ws)) eqn:Lt; [|reflexivity].
      destruct (get_writer_some ws h w Lt) as (uw & G).
      eapply replicated_sound with (f := f) (o0 := WWrite (uw0 uw) data) (o1 := WWrite (uw1 uw) data); eauto;
        rewrite ?Ho; cbn; rewrite ?G; try reflexivity; auto.
    - (* Close *)
      destruct (NoCut eq_refl) as [C0 C1].
      destruct (N.ltb w (nlen ws)) eqn:Lt; [|reflexivity].
      destruct (get_writer_some ws h w Lt) as (uw & G).
      eapply replicated_sound with (f := f) (o0 := WClose (uw0 uw)) (o1 := WClose (uw1 uw)); eauto;
        rewrite ?Ho; cbn; rewrite ?G; try reflexivity; auto.
    - (* ID *)
      destruct (NoCut eq_refl) as [C0 C1].
      destruct (N.ltb w (nlen ws)) eqn:Lt; [|reflexivity].
      destruct (get_writer_some ws h w Lt) as (uw & G).
      rewrite hmodel_eq, Ho in *. cbn [Unify.ustep] in *. rewrite G in *. rewrite both_eq in *.
      cbn [fst snd after_both hstate u_log0 u_log1] in *.
      destruct (calls_one _ _ _ eq_refl L0) as (r0 & K0). destruct (calls_one _ _ _ eq_refl L1) as (r1 & K1).
      unfold wid_known in Hwid. rewrite Ho, K0, K1 in Hwid. rewrite K0, K1.
      destruct r0 as [[]| | |]; try discriminate. destruct r1 as [[]| | |]; try discriminate.
      assert (A0 : ans0 script_step (hstate ws h) (WID (uw0 uw)) = Ok (RStr s)).
      { unfold ans0, hstate. cbn [u_b0]. rewrite K0. apply script_ans. }
      assert (A1 : ans1 script_step (hstate ws h) (WID (uw1 uw)) = Ok (RStr s0)).
      { unfold ans1, hstate. cbn [u_b1]. rewrite K1. apply script_ans. }
      rewrite A0, A1 in Hres. rewrite <- Hres.
      rewrite (codec_lookup _ _ Hcodec Hwid). now rewrite !beqb_refl.
    - (* Commit *)
      destruct (NoCut eq_refl) as [C0 C1].
      destruct (N.ltb w (nlen ws)) eqn:Lt; [|reflexivity].
      destruct (get_writer_some ws h w Lt) as (uw & G).
      eapply replicated_sound with (f := f) (o0 := WCommit (uw0 uw) d) (o1 := WCommit (uw1 uw) d); eauto;
        rewrite ?Ho; cbn; rewrite ?G; try reflexivity; auto.
    - (* Cancel *)
      destruct (NoCut eq_refl) as [C0 C1].
      destruct (N.ltb w (nlen ws)) eqn:Lt; [|reflexivity].
      destruct (get_writer_some ws h w Lt) as (uw & G).
      eapply replicated_sound with (f := f) (o0 := WCancel (uw0 uw)) (o1 := WCancel (uw1 uw)); eauto;
        rewrite ?Ho; cbn; rewrite ?G; try reflexivity; auto.
  Qed.

  Lemma hist_sound steps : forall ws,
    codec_coherent enc dec = true ->
    hist_agrees pol enc dec ws steps = true -> spec_hist dec (nlen ws) steps = true.
  Proof.
    induction steps as [|h hs IH]; intros ws Hc H; [reflexivity|].
    cbn [hist_agrees] in H. unfold step_agrees in H. cbn [spec_hist].
    destruct (try_step pol enc dec ws h false) as [ws'|] eqn:T0.
    - destruct (step_sound ws h false ws' Hc T0) as [S N]. rewrite S, <- N. now apply IH.
    - destruct (try_step pol enc dec ws h true) as [ws'|] eqn:T1; [|discriminate].
      destruct (step_sound ws h true ws' Hc T1) as [S N]. rewrite S, <- N. now apply IH.
  Qed.
End HistSound.

Lemma corr_sound c : model_agrees c = true -> obs_ok c = true.
Proof.
  destruct c as [pol o m0 m1 u n0 n1 | pol enc dec steps]; cbn [model_agrees obs_ok].
  - apply read_sound.
  - intros H. apply andb_true_iff in H as [Hc H]. exact (hist_sound pol enc dec steps [] Hc H).
Qed.

Definition mismatches (cs : list case) : list (N * bool) :=
  bad_from 0 (fun c => if model_agrees c then None else Some (obs_ok c)) cs.
Definition bad_obs (cs : list case) : list (N * bool) :=
  bad_from 0 (fun c => if obs_ok c then None else Some (model_agrees c)) cs.
