(* Correspondence for C15: what the harness observed on ociunify.New(m0, m1, opts) versus the
   model (Model/Unify.v) and versus the property's specification.

   Two kinds of case.

   [CRead]: one read or listing call on a unifier over two members in given states.  The
   members are black boxes here: [m0]/[m1] is what each member answers when asked
   directly, [u] what the unifier answered, [n0]/[n1] how many calls it made on each.

   [CHist]: a history of calls through a unifier whose members are wrapped so that every
   call they receive, and its answer, is recorded.  For the model the members of each step
   ARE those recordings (a scripted registry that replays them and flags any call that is
   not the next recorded one), so the model must predict the unifier's result and, exactly,
   the calls each member received.  Independently of the model the harness snapshots both
   members (all listings and all contents) around every step. *)
From Coq Require Import String.
From OCI Require Export Base.Outcome Model.Unify.
From OCI Require Import Proofs.Unify.

Record hstep := {
  h_op : op;                        (* the call on the unifier; its writers are numbered in creation order *)
  h_res : result;                   (* what it returned *)
  h_calls0 : list (op * result);    (* calls member 0 received during it, in order, with its answers *)
  h_calls1 : list (op * result);
  h_cut0 : option err;              (* PushBlob: member 0 saw its content stream fail, and returned this *)
  h_cut1 : option err;
  h_excused : bool;                 (* a failure was injected into one member only, or the caller forged
                                       an upload ID: the members are not expected to stay equal *)
  h_eq_before : bool;               (* snapshots of the two members equal before / after the step *)
  h_eq_after : bool
}.

Inductive case :=
  | CRead (pol : policy) (o : op) (m0 m1 u : result) (n0 n1 : N)
  | CHist (pol : policy)
          (enc : list (bytes * bytes * bytes))             (* reference codec: (id0, id1, composite) *)
          (dec : list (bytes * option (list bytes)))       (* reference codec: composite -> ids *)
          (steps : list hstep).

Definition implb (a b : bool) : bool := negb a || b.

(* ================= reads ================= *)

Definition const_member (m : result) : registry unit := fun _ _ => (tt, m).
Definition no_enc (_ _ : bytes) : bytes := [].
Definition no_dec (_ : bytes) : option (list bytes) := None.
Definition properb (r : result) : bool := match r with Ok _ | Err _ => true | _ => false end.
Definition is_read (o : op) : bool := is_digest_read o || is_tag_read o || is_listing o.
Definition nlen {A} (l : list A) : N := N.of_nat (length l).

Definition read_model (pol : policy) (o : op) (m0 m1 : result) (f : bool) :=
  ustep (const_member m0) (const_member m1) no_enc no_dec pol (choose f) (uinit tt tt) o.

Definition read_agrees (pol : policy) (o : op) (m0 m1 u : result) (n0 n1 : N) : bool :=
  is_read o && properb m0 && properb m1 &&
  existsb (fun f =>
             let st := fst (read_model pol o m0 m1 f) in
             let r := snd (read_model pol o m0 m1 f) in
             result_eqb r u && N.eqb (nlen (u_log0 st)) n0 && N.eqb (nlen (u_log1 st)) n1)
          [false; true].

(* --- the specification of reads, straight from the property --- *)

(* digest-addressed content is readable exactly when either member has it; what is
   returned is what a member that has it returns (on failure: a member's error) *)
Definition spec_digest_read (m0 m1 u : result) : bool :=
  Bool.eqb (is_ok u) (is_ok m0 || is_ok m1)
  && (result_eqb u m0 || result_eqb u m1)
  && implb (is_ok u) ((result_eqb u m0 && is_ok m0) || (result_eqb u m1 && is_ok m1)).

Definition okdig (r : result) : option bytes :=
  match r with Ok a => Some (res_digest a) | _ => None end.

(* a tag resolves when the members agree or only one has it, fails when they disagree *)
Definition spec_tag_read (m0 m1 u : result) : bool :=
  match okdig m0, okdig m1 with
  | Some d0, Some d1 => if beqb d0 d1 then result_eqb u m0 || result_eqb u m1 else is_err u
  | Some _, None => result_eqb u m0
  | None, Some _ => result_eqb u m1
  | None, None => is_err u
  end.

Fixpoint ssortedb (l : list bytes) : bool :=
  match l with
  | [] => true
  | a :: l' => match l' with
               | [] => true
               | b :: _ => bltb a b && ssortedb l'
               end
  end.

Definition nf (e : option err) : bool :=
  match e with Some e => ecode_eqb (e_code e) NAME_UNKNOWN | None => false end.
(* an error other than "this member does not know the repository" *)
Definition real_err (e : option err) : bool :=
  match e with Some _ => negb (nf e) | None => false end.

(* listings are the sorted duplicate-free union: strictly ascending keys, nothing invented,
   nothing lost.  A repository unknown to one member is that member's empty listing;
   unknown to both, it is unknown; any other member error ends the listing. *)
Definition spec_listing {T} (key : T -> bytes) (teqb : T -> T -> bool)
           (xs0 : list T) (e0 : option err) (xs1 : list T) (e1 : option err)
           (xs : list T) (eu : option err) : bool :=
  if nf e0 && nf e1 then
    match xs with [] => true | _ => false end && nf eu
  else
    ssortedb (map key xs)
    && forallb (fun a => existsb (teqb a) (xs0 ++ xs1)) xs
    && forallb (fun a => existsb (fun b => beqb (key a) (key b)) xs) (xs0 ++ xs1)
    && (if real_err e0 || real_err e1
        then (real_err e0 && opt_err_eqb eu e0) || (real_err e1 && opt_err_eqb eu e1)
        else negb (is_some eu)).

Definition spec_read (o : op) (m0 m1 u : result) : bool :=
  properb m0 && properb m1 &&
  if is_digest_read o then spec_digest_read m0 m1 u
  else if is_tag_read o then spec_tag_read m0 m1 u
  else match o with
       | Repositories _ | Tags _ _ =>
           match u with
           | Ok (RList xs eu) =>
               let '(xs0, e0) := as_strings m0 in
               let '(xs1, e1) := as_strings m1 in
               spec_listing (fun a => a) beqb xs0 e0 xs1 e1 xs eu
           | _ => false
           end
       | Referrers _ _ _ =>
           match u with
           | Ok (RDescs xs eu) =>
               let '(xs0, e0) := as_descs m0 in
               let '(xs1, e1) := as_descs m1 in
               spec_listing d_digest desc_eqb xs0 e0 xs1 e1 xs eu
           | _ => false
           end
       | _ => false
       end.

(* ================= histories ================= *)

(* a member that replays a recording *)
Record script := { sc_todo : list (op * result); sc_bad : bool }.
Definition err_script : err := E ENone (s "call not in the recording").
Definition script_step : registry script := fun sc o =>
  match sc_todo sc with
  | (o', r) :: rest =>
      if op_eqb o o' then ({| sc_todo := rest; sc_bad := sc_bad sc |}, r)
      else ({| sc_todo := []; sc_bad := true |}, Err err_script)
  | [] => ({| sc_todo := []; sc_bad := true |}, Err err_script)
  end.
Definition mk_script (l : list (op * result)) : script := {| sc_todo := l; sc_bad := false |}.
Definition consumed (sc : script) : bool :=
  negb (sc_bad sc) && match sc_todo sc with [] => true | _ => false end.

Definition tab_enc (t : list (bytes * bytes * bytes)) (a b : bytes) : bytes :=
  match find (fun e => beqb (fst (fst e)) a && beqb (snd (fst e)) b) t with
  | Some e => snd e
  | None => []
  end.
Definition tab_dec (t : list (bytes * option (list bytes))) (id : bytes) : option (list bytes) :=
  match find (fun e => beqb (fst e) id) t with
  | Some e => snd e
  | None => None
  end.

Section Hist.
  Variable pol : policy.
  Variable enc : list (bytes * bytes * bytes).
  Variable dec : list (bytes * option (list bytes)).

  Definition hstate (ws : list uwriter) (h : hstep) : ustate script script :=
    {| u_b0 := mk_script (h_calls0 h); u_b1 := mk_script (h_calls1 h); u_ws := ws;
       u_log0 := []; u_log1 := [] |}.

  Definition hmodel (ws : list uwriter) (h : hstep) (f : bool) :=
    ustep script_step script_step (tab_enc enc) (tab_dec dec) pol
          {| c_first1 := f; c_cut0 := h_cut0 h; c_cut1 := h_cut1 h |} (hstate ws h) (h_op h).

  Definition equal_kept (h : hstep) : bool :=
    implb (h_eq_before h && negb (h_excused h)) (h_eq_after h).

  Definition try_step (ws : list uwriter) (h : hstep) (f : bool) : option (list uwriter) :=
    let st := fst (hmodel ws h f) in
    let r := snd (hmodel ws h f) in
    if result_eqb r (h_res h)
       && consumed (u_b0 st) && consumed (u_b1 st)
       && list_eqb op_eqb (rev (u_log0 st)) (map fst (h_calls0 h))
       && list_eqb op_eqb (rev (u_log1 st)) (map fst (h_calls1 h))
       && equal_kept h
    then Some (u_ws st) else None.

  Definition step_agrees (ws : list uwriter) (h : hstep) : option (list uwriter) :=
    match try_step ws h false with
    | Some ws' => Some ws'
    | None => try_step ws h true
    end.

  Fixpoint hist_agrees (ws : list uwriter) (hs : list hstep) : bool :=
    match hs with
    | [] => true
    | h :: hs' => match step_agrees ws h with
                  | Some ws' => hist_agrees ws' hs'
                  | None => false
                  end
    end.

  (* --- the specification of writes, straight from the property --- *)

  (* the member received, first, the caller's call with the caller's arguments (its own
     upload ID in place of the composite one), and only Size/Close of its writer after *)
  Definition spec_member (o : op) (own_id : option bytes) (calls : list (op * result)) : option result :=
    match calls with
    | (oi, ri) :: rest =>
        if op_eqb (erase oi) (erase o)
           && match oi with
              | PushBlobChunkedResume _ id _ _ =>
                  match own_id with Some e => beqb id e | None => false end
              | _ => true
              end
           && forallb (fun c => is_followup (fst c)) rest
        then Some ri else None
    | [] => None
    end.

  Definition no_calls (h : hstep) : bool :=
    match h_calls0 h, h_calls1 h with [], [] => true | _, _ => false end.

  (* success is reported only if both succeeded; for calls that are one call on each
     member also conversely *)
  Definition spec_both (h : hstep) (id0 id1 : option bytes) (converse : bool) : bool :=
    match spec_member (h_op h) id0 (h_calls0 h), spec_member (h_op h) id1 (h_calls1 h) with
    | Some r0, Some r1 =>
        implb (is_ok (h_res h)) (is_ok r0 && is_ok r1)
        && implb (converse && is_ok r0 && is_ok r1) (is_ok (h_res h))
    | _, _ => false
    end.

  Definition spec_step (nw : N) (h : hstep) : bool :=
    equal_kept h &&
    match h_op h with
    | PushBlob _ _ _ =>
        match h_cut0 h, h_cut1 h with
        | None, None => spec_both h None None true
        | Some _, None =>
            (* member 0 never got the content because member 1 had already failed *)
            match h_calls0 h, spec_member (h_op h) None (h_calls1 h) with
            | [], Some r1 => is_err r1 && is_err (h_res h)
            | _, _ => false
            end
        | None, Some _ =>
            match spec_member (h_op h) None (h_calls0 h), h_calls1 h with
            | Some r0, [] => is_err r0 && is_err (h_res h)
            | _, _ => false
            end
        | Some _, Some _ => false
        end
    | PushManifest _ _ _ _ | MountBlob _ _ _ | DeleteBlob _ _ | DeleteManifest _ _ | DeleteTag _ _ =>
        spec_both h None None true
    | PushBlobChunked _ _ => spec_both h None None false
    | PushBlobChunkedResume _ id _ _ =>
        match tab_dec dec id with
        | Some [id0; id1] => spec_both h (Some id0) (Some id1) false
        | _ => no_calls h && is_err (h_res h)
        end
    | WWrite k _ | WClose k | WCancel k | WCommit k _ =>
        if N.ltb k nw then spec_both h None None true else true
    | WID k =>
        if N.ltb k nw then
          (* composite IDs decode to the members' own IDs *)
          match h_calls0 h, h_calls1 h, h_res h with
          | [(WID _, Ok (RStr a))], [(WID _, Ok (RStr b))], Ok (RStr c) =>
              match tab_dec dec c with
              | Some [a'; b'] => beqb a a' && beqb b b'
              | _ => false
              end
          | _, _, _ => false
          end
        else true
    | _ => true
    end.

  Definition next_nw (nw : N) (h : hstep) : N :=
    match h_op h, h_res h with
    | PushBlobChunked _ _, Ok (RWriter _) | PushBlobChunkedResume _ _ _ _, Ok (RWriter _) => N.succ nw
    | _, _ => nw
    end.

  Fixpoint spec_hist (nw : N) (hs : list hstep) : bool :=
    match hs with
    | [] => true
    | h :: hs' => spec_step nw h && spec_hist (next_nw nw h) hs'
    end.
End Hist.

(* ================= the case-level functions ================= *)

Definition model_agrees (c : case) : bool :=
  match c with
  | CRead pol o m0 m1 u n0 n1 => read_agrees pol o m0 m1 u n0 n1
  | CHist pol enc dec steps => hist_agrees pol enc dec [] steps
  end.

Definition obs_ok (c : case) : bool :=
  match c with
  | CRead pol o m0 m1 u n0 n1 => is_read o && spec_read o m0 m1 u
  | CHist pol enc dec steps => spec_hist dec 0 steps
  end.

(* a read case is non-trivial when the two members answer differently (the only situation
   in which the union rules matter); a history when some write reached both members *)
Definition is_mutation (o : op) : bool := negb (is_read o) && negb (match o with WSize _ | WChunkSize _ | WID _ => true | _ => false end).
Definition nontrivial (c : case) : bool :=
  match c with
  | CRead _ _ m0 m1 _ _ _ => negb (result_eqb m0 m1)
  | CHist _ _ _ steps =>
      existsb (fun h => is_mutation (h_op h)
                        && match h_calls0 h, h_calls1 h with _ :: _, _ :: _ => true | _, _ => false end) steps
  end.

Lemma corr_sound c : model_agrees c = true -> obs_ok c = true.
Proof.
Admitted.

Definition mismatches (cs : list case) : list (N * bool) :=
  bad_from 0 (fun c => if model_agrees c then None else Some (obs_ok c)) cs.
Definition bad_obs (cs : list case) : list (N * bool) :=
  bad_from 0 (fun c => if obs_ok c then None else Some (model_agrees c)) cs.
