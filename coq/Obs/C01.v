(* Correspondence for C01 (content integrity).

   CHist   an operation history run on a registry stack (ocimem directly; behind
           ociclient -> ociserver, one or two hops; behind ocidebug / Select / Sub / ociunify)
           with what every call returned.
           [model_agrees]: the observations are the results of the model — Model/Mem.v behind
           [xstep], seen through Model/IntegrityStack.v [view] for the HTTP stacks — exactly
           (codes, media types) for ocimem itself, on the projection the property speaks about
           for the other stacks.
           [obs_ok]: the observations satisfy the property's specification [hist_ok],
           evaluated with the harness's own SHA-256 table, never looking at the model.
   CRead   one read through ociclient of a response the harness scripted (status, headers,
           Content-Length, and the exact sequence of Read results of the body).
           [model_agrees]: Model/BlobReader.v predicts whether the open fails, the descriptor,
           the bytes relayed and whether the stream ended cleanly.
           [obs_ok]: a clean end means the bytes have the descriptor's size and digest (for a
           range read: are not longer than the described blob), and that the body did not
           report a failure (a transport error, io.ErrUnexpectedEOF for a short body).
   CRange  one ranged blob GET on the wire: the Range header, and the status / headers / body
           the server answered for a blob the harness knows.
           [model_agrees]: the header is the one Model/RangeCodec.v writes for (o0, o1) and
           the answer is the one server_blob_get computes.
           [obs_ok]: a 206 answer to the client's header for (o0, o1) carries exactly bytes
           [o0, o1') of the blob, a Content-Range "bytes o0-(o1'-1)/len" and a Content-Length
           equal to the body's length.
   CFault  one read of a content the real registry holds, through one or two client hops, with a
           fault injected into the response body on the innermost hop.
           [model_agrees] = [obs_ok]: a clean end means exactly the content (the slice) under the
           whole content's descriptor; no panic. *)
From Coq Require Import String.
From OCI Require Export Obs.MemObs Model.IntegrityStack.
From OCI Require Import Model.RangeCodec Proofs.RangeCodec Proofs.Integrity Proofs.BlobReader Proofs.IntegrityStack.

Local Open Scope Z_scope.

Definition projo (o : oresult) : pobs :=
  match o with
  | OOk r => proj (Ok r)
  | OList _ _ | ODescs _ _ => POk
  | OErr _ => PFail
  | OPanic => PPanic
  end.

(* what a scripted read ended in *)
Inductive robs :=
  | ROpenErr                                           (* the Get* call returned an error *)
  | ROpenPanic
  | RDone (de : desc) (data : bytes) (clean : bool).   (* reader obtained; io.ReadAll: bytes, err == nil *)

(* what the server answered on the wire *)
Inductive wobs :=
  | WStatus (status : Z)                               (* an error status *)
  | WResp (r : response) (body : bytes).

(* one read of a big content: did it succeed, the descriptor's digest and size, the SHA-256 and
   length the harness expects (of the whole content, or of the slice a range read names), the
   SHA-256 and length of the bytes delivered (both equal to the expected ones for a resolve,
   which delivers nothing) *)
Record bigread := { br_ok : bool; br_ddigest : bytes; br_dsize : Z;
                    br_want : bytes; br_wantlen : Z; br_got : bytes; br_gotlen : Z }.

Definition bigread_ok (len : Z) (pushed : bytes) (r : bigread) : bool :=
  br_ok r && beqb (br_ddigest r) pushed && (br_dsize r =? len)
  && beqb (br_got r) (br_want r) && (br_gotlen r =? br_wantlen r).

(* the specification: what was accepted is served; what was refused is not retrievable *)
Definition big_ok (len : Z) (pushed : bytes) (push_ok : bool) (reads : list bigread) : bool :=
  if push_ok then forallb (bigread_ok len pushed) reads
  else forallb (fun r => negb (br_ok r)) reads.

Inductive case :=
  | CHist (stack : N) (imm : bool) (orc : oracles) (subj_ok : list (bytes * bytes))
          (ops : list xop) (obs : list oresult)
  | CRead (kind : N) (o0 o1 : Z) (known : bytes) (resp : response) (body : list (bytes * N))
          (head : option response) (orc : oracles) (h512 : alist bytes) (obs : robs)
  | CRange (src : option (Z * Z)) (hdr rd : bytes) (blob : option (desc * bytes)) (obs : wobs)
  (* A content too large to be written into a case file (up to tens of MiB: the sizes at which
     buffers, chunking, the client's in-memory threshold or a body limit could cut something
     off).  The content is named by its length and its SHA-256 as computed by the harness; each
     read by the length and SHA-256 of what it delivered and of the slice it should deliver.
     The model's prediction is not an evaluation but the theorems C01_get_blob / C01_get_manifest /
     C01_get_tag / C01_get_blob_range / C01_histories_through_hops, which hold for every length: a
     well-formed push succeeds and every read returns the pushed bytes under the whole
     content's descriptor. *)
  | CBig (stack path : N) (len : Z) (pushed : bytes) (push_ok : bool) (reads : list bigread)
  (* One read of a content the real ocimem holds behind a real ociserver, through [hops] clients
     (1: ociclient; 2: ociclient -> ociserver -> ociclient), with a fault injected into the body
     of the GET response on the INNERMOST hop (cut short by [at_] bytes and reported the way
     net/http reports a body shorter than its Content-Length, or with another error, or with a
     clean EOF; padded; a byte flipped; replaced): class [fault], parameter [at_], [tog] = the
     error came together with the last bytes.  Headers are the real server's.  No model: the
     specification is evaluated on the observation alone. *)
  | CFault (hops kind : N) (o0 o1 : Z) (dig content : bytes) (fault : N) (at_ : Z) (tog : bool) (obs : robs).

(* ---------- oracle instantiation ---------- *)

Definition SHA256 : bytes := s "sha256".
Definition SHA512 : bytes := s "sha512".

(* digest.NewDigest(alg, hash of content): the harness's tables *)
Definition hashd_of (orc : oracles) (h512 : alist bytes) (alg c : bytes) : bytes :=
  if beqb alg SHA256 then orc_hash orc c
  else if beqb alg SHA512 then match alookup c h512 with Some d => d | None => s "?unknown-content-512" end
  else s "?unsupported-algorithm".

Definition alg_text (d : bytes) : bytes := match alg_of d with Some a => a | None => [] end.

(* ---------- CHist ---------- *)

Definition subj_fn (l : list (bytes * bytes)) (media content : bytes) : bool :=
  existsb (fun mc => beqb (fst mc) media && beqb (snd mc) content) l.

(* HTTP hops between the top of the stack and ocimem *)
Definition hops_of (stack : N) : nat :=
  match stack with
  | 1%N | 2%N => 1
  | 6%N => 2
  | _ => 0
  end.

Definition model_results (stack : N) (imm : bool) (orc : oracles) (sj : list (bytes * bytes)) (ops : list xop) : list result :=
  vresults (orc_vd orc) (hashd_of orc []) (orc_vd orc) (orc_vr orc) (orc_vt orc) (orc_img orc) (orc_idx orc)
           {| immutable_tags := imm |} (subj_fn sj) (hops_of stack) init ops.

(* stack 0 = *ocimem.Registry itself: every observable (codes, media types) is compared;
   any other stack: the projection *)
Definition agree1 (stack : N) (o : oresult) (m : result) : bool :=
  if (stack =? 0)%N then agrees o m else pobs_eqb (projo o) (proj m).

Fixpoint agree_list (stack : N) (obs : list oresult) (ms : list result) : bool :=
  match obs, ms with
  | [], [] => true
  | o :: obs', m :: ms' => agree1 stack o m && agree_list stack obs' ms'
  | _, _ => false
  end.

Definition in64b (z : Z) : bool := (MIN64 <=? z) && (z <=? MAX64).
Definition int64_opb (x : xop) : bool :=
  match x with XO (GetBlobRange _ _ o0 o1) => in64b o0 && in64b o1 | _ => true end.

(* ---------- CRead ---------- *)

Definition rerr_of (n : N) : rerr := match n with 0%N => RNil | 1%N => REOF | _ => RFail end.
Definition script_of (l : list (bytes * N)) : script := map (fun p => (fst p, rerr_of (snd p))) l.

Definition read_model (kind : N) (o0 o1 : Z) (known : bytes) (resp : response) (body : list (bytes * N))
           (head : option response) (orc : oracles) (h512 : alist bytes) : R err (desc * drained) :=
  match kind with
  | 0%N => client_read (orc_vd orc) (hashd_of orc h512) KBlobGet known resp (script_of body) head
  | 1%N => client_read (orc_vd orc) (hashd_of orc h512) KManifestGet known resp (script_of body) head
  | 2%N => client_read (orc_vd orc) (hashd_of orc h512) KManifestGet [] resp (script_of body) head
  | _ => client_get_blob_range (orc_vd orc) (hashd_of orc h512) o0 o1 known resp (script_of body)
  end.

Definition read_agrees (m : R err (desc * drained)) (o : robs) : bool :=
  match m, o with
  | Err _, ROpenErr => true
  | Panic, ROpenPanic => true
  | Ok (de, DClean data), RDone de' data' true => desc_eqb de de' && beqb data data'
  | Ok (de, DErr data _), RDone de' data' false => desc_eqb de de' && beqb data data'
  | _, _ => false
  end.

(* the body reported a failure (anything but nil / io.EOF: a transport error, io.ErrUnexpectedEOF
   for a body shorter than its Content-Length) as its first error result *)
Definition script_failed (body : list (bytes * N)) : bool :=
  match snd (flatten (script_of body)) with RFail => true | _ => false end.

(* the reader does not verify: a range read proper *)
Definition unverified (kind : N) (o0 o1 : Z) : bool :=
  match kind with
  | 0%N | 1%N | 2%N => false
  | _ => negb ((o0 =? 0) && (o1 <? 0))
  end.

(* ---------- CRange ---------- *)

Definition e_blob_unknown_ : err := E BLOB_UNKNOWN (s "blob unknown").

Definition range_model (hdr rd : bytes) (blob : option (desc * bytes)) : sresp :=
  match blob with
  | Some (de, data) => server_blob_get hdr rd (Ok (de, data)) (range_of_blob de data)
  | None => server_blob_get hdr rd (Err e_blob_unknown_) (fun _ _ => Err e_blob_unknown_)
  end.

Definition response_eqb (a b : response) : bool :=
  (rs_status a =? rs_status b) && beqb (rs_ctype a) (rs_ctype b) && (rs_clen a =? rs_clen b)
  && beqb (rs_crange a) (rs_crange b) && beqb (rs_digest a) (rs_digest b).

Definition range_agrees (m : sresp) (o : wobs) : bool :=
  match m, o with
  | S416, WStatus st => st =? 416
  | SBackend _, WStatus st => (400 <=? st) && negb (st =? 416)
  | SResp r body, WResp r' body' => response_eqb r r' && beqb body body'
  | _, _ => false
  end.

(* ---------- CFault ---------- *)

(* a read that ends cleanly returned exactly the content (the slice [o0, o1') for a range read)
   under the descriptor of the whole content; a fault may make the read fail, never panic *)
Definition fault_ok (kind : N) (o0 o1 : Z) (dig content : bytes) (obs : robs) : bool :=
  match obs with
  | RDone de data true =>
      (d_size de =? blen content) && beqb (d_digest de) dig
      && beqb data (match kind with
                    | 0%N | 1%N | 2%N => content
                    | _ => slice content o0 (clamp (blen content) o1)
                    end)
  | RDone _ _ false => true
  | ROpenErr => true
  | ROpenPanic => false
  end.

(* ---------- the two predicates ---------- *)

Definition model_agrees (c : case) : bool :=
  match c with
  | CHist stack imm orc sj ops obs =>
      forallb int64_opb ops && agree_list stack obs (model_results stack imm orc sj ops)
  | CRead kind o0 o1 known resp body head orc h512 obs =>
      read_agrees (read_model kind o0 o1 known resp body head orc h512) obs
  | CRange src hdr rd blob obs =>
      match src with
      | Some (o0, o1) => in64b o0 && in64b o1 && beqb hdr (client_range_header o0 o1)
      | None => true
      end
      && match blob with     (* the descriptor handed over is the blob's *)
         | Some (de, data) => (d_size de =? blen data) && in64b (d_size de)
         | None => true
         end
      && range_agrees (range_model hdr rd blob) obs
  | CBig _ _ len pushed push_ok reads => push_ok && big_ok len pushed push_ok reads
  | CFault _ kind o0 o1 dig content _ _ _ obs => fault_ok kind o0 o1 dig content obs
  end.

Definition obs_ok (c : case) : bool :=
  match c with
  | CHist stack imm orc sj ops obs =>
      (length ops =? length obs)%nat
      && hist_ok (orc_hash orc) (orc_vd orc) (orc_vr orc) (combine ops (map projo obs))
  | CRead kind o0 o1 known resp body head orc h512 obs =>
      match obs with
      | RDone de data true =>
          (* a body that failed never ends cleanly, verified or not *)
          negb (script_failed body)
          && (if unverified kind o0 o1 then blen data <=? d_size de
              else (blen data =? d_size de) && beqb (hashd_of orc h512 (alg_text (d_digest de)) data) (d_digest de))
      | _ => true
      end
  | CRange src hdr rd blob obs =>
      match src, blob, obs with
      | Some (o0, o1), Some (de, data), WResp r body =>
          if rs_status r =? 206 then
            let e := clamp (blen data) o1 in
            (0 <=? o0) && (o0 <=? e) && beqb body (slice data o0 e)
            && (rs_clen r =? blen body)
            && match after_last 47%N (rs_crange r) with
               | Some t => match parse_int t with Some n => n =? blen data | None => false end
               | None => false
               end
            (* "bytes first-last/total" names the slice: first = o0, last = o1' - 1 *)
            && beqb (rs_crange r)
                    (s "bytes " ++ fmt_int o0 ++ 45%N :: fmt_int (e - 1) ++ 47%N :: fmt_int (blen data))
          else true
      | _, _, _ => true
      end
  | CBig _ _ len pushed push_ok reads => big_ok len pushed push_ok reads
  | CFault _ kind o0 o1 dig content _ _ _ obs => fault_ok kind o0 o1 dig content obs
  end.

(* a case says something when a read returned data or a push was refused; when a reader was
   obtained for the scripted response; when the server answered for a blob it has *)
Definition is_push (x : xop) : bool :=
  match x with
  | XO (PushBlob _ _ _) | XO (PushManifest _ _ _ _) | XO (WCommit _ _) | XPutManifest _ _ _ _ => true
  | _ => false
  end.
Definition nontrivial (c : case) : bool :=
  match c with
  | CHist _ _ _ _ ops obs =>
      existsb (fun xo => match projo (snd xo) with
                         | PRead _ _ _ => true
                         | PFail => is_push (fst xo)
                         | _ => false
                         end) (combine ops obs)
  | CRead _ _ _ _ _ _ _ _ _ obs => match obs with RDone _ _ _ => true | _ => false end
  | CRange _ _ _ blob obs => match blob, obs with Some _, _ => true | _, _ => false end
  | CBig _ _ _ _ _ reads => existsb br_ok reads
  | CFault _ _ _ _ _ _ _ _ _ obs => match obs with RDone _ _ _ => true | _ => false end
  end.

(* ---------- soundness of the correspondence ---------- *)

Lemma agrees_proj o m : agrees o m = true -> projo o = proj m.
Proof.
  destruct o as [r|l e|l e|c|], m as [r'|e'| |]; cbn; try discriminate; try reflexivity.
  - destruct r, r'; cbn; try discriminate; intros H.
    + apply desc_eqb_eq in H. now subst.
    + apply andb_true_iff in H as [H1 H2]. apply desc_eqb_eq in H1. apply beqb_eq in H2. now subst.
    + apply N.eqb_eq in H. now subst.
    + apply Z.eqb_eq in H. now subst.
    + reflexivity.
    + reflexivity.
  - destruct r'; try discriminate. reflexivity.
  - destruct r'; try discriminate. reflexivity.
Qed.

Lemma agree_list_proj stack obs ms :
  agree_list stack obs ms = true -> map projo obs = map proj ms /\ length obs = length ms.
Proof.
  revert ms; induction obs as [|o obs IH]; intros [|m ms]; cbn; try discriminate; [auto|].
  intros H. apply andb_true_iff in H as [H1 H2]. destruct (IH _ H2) as [E L]. rewrite E, L.
  split; [|reflexivity]. f_equal. unfold agree1 in H1. destruct (stack =? 0)%N.
  - now apply agrees_proj.
  - now apply pobs_eqb_eq.
Qed.

Lemma vresults_length vref hashd vd vr vt di dx cfg sj k : forall ops st,
  length (vresults vref hashd vd vr vt di dx cfg sj k st ops) = length ops.
Proof.
  induction ops as [|x ops IH]; intros st; cbn [vresults]; [reflexivity|].
  destruct (vstep vref hashd vd vr vt di dx cfg sj k st x) as [st1 r]. cbn. now rewrite IH.
Qed.

Lemma in64b_in64 z : in64b z = true -> in64 z.
Proof. unfold in64b, in64. intros H. apply andb_true_iff in H as [A B]. apply Z.leb_le in A, B. auto. Qed.

Lemma int64_ops_of ops : forallb int64_opb ops = true -> Forall int64_op ops.
Proof.
  rewrite forallb_forall. intros H. apply Forall_forall. intros x Hx. specialize (H x Hx).
  destruct x as [[]|]; cbn in *; auto. apply andb_true_iff in H as [A B]. split; now apply in64b_in64.
Qed.

Lemma corr_hist stack imm orc sj ops obs :
  model_agrees (CHist stack imm orc sj ops obs) = true -> obs_ok (CHist stack imm orc sj ops obs) = true.
Proof.
  cbn. intros H. apply andb_true_iff in H as [H64 H]. apply int64_ops_of in H64.
  apply agree_list_proj in H as [E L]. unfold model_results in *. rewrite vresults_length in L.
  rewrite E, L, Nat.eqb_refl. cbn [andb].
  exact (vstep_hist_ok (orc_vd orc) (hashd_of orc []) (orc_vd orc) (orc_vr orc) (orc_vt orc) (orc_img orc) (orc_idx orc)
           {| immutable_tags := imm |} (subj_fn sj) (hops_of stack) ops H64).
Qed.

(* every path of the client's read ends in a blobReader over some script *)
Lemma client_read_reader vref hashd kind known resp body head de dr :
  client_read vref hashd kind known resp body head = Ok (de, dr) ->
  exists r sc, new_blob_reader de true = Ok r /\ dr = drain hashd r sc [].
Proof.
  unfold client_read. destruct (negb _); [discriminate|].
  destruct (descriptor_from_response _ _ _ _ _) as [de0|]; [|discriminate].
  destruct (d_digest de0) eqn:ED.
  - destruct kind; [discriminate|]. destruct (d_size de0 <=? IN_MEM_THRESHOLD).
    + destruct (flatten body) as [data e]. destruct e.
      * destruct (negb _); [discriminate|]. destruct (new_blob_reader _ true) as [r| | |] eqn:ER; cbn; try discriminate.
        intros H; injection H as <- <-. eauto.
      * destruct (negb _); [discriminate|]. destruct (new_blob_reader _ true) as [r| | |] eqn:ER; cbn; try discriminate.
        intros H; injection H as <- <-. eauto.
      * destruct (_ <=? _); discriminate.
    + destruct head as [hr|]; [|discriminate]. destruct (negb _); [discriminate|].
      destruct (descriptor_from_response _ _ _ _ _) as [de1|]; [|discriminate].
      destruct (new_blob_reader de1 true) as [r| | |] eqn:ER; cbn; try discriminate.
      intros H; injection H as <- <-. eauto.
  - destruct (new_blob_reader de0 true) as [r| | |] eqn:ER; cbn; try discriminate.
    intros H; injection H as <- <-. eauto.
Qed.

Lemma br_alg_text de v r : new_blob_reader de v = Ok r -> br_alg r = alg_text (d_digest de).
Proof. intros H. apply new_blob_reader_ok in H. now subst r. Qed.

Lemma verified_ok vref hashd kind known resp body head de data :
  client_read vref hashd kind known resp body head = Ok (de, DClean data) ->
  blen data = d_size de /\ hashd (alg_text (d_digest de)) data = d_digest de.
Proof.
  intros H. apply client_read_reader in H as (r & sc & Hr & Hd). symmetry in Hd.
  destruct (blobreader_sound hashd de r sc data Hr Hd) as [A B]. rewrite (br_alg_text _ _ _ Hr) in B. auto.
Qed.

Lemma drain_clean_flatten hashd sc : forall r data out,
  drain hashd r sc data = DClean out -> snd (flatten sc) = REOF.
Proof.
  induction sc as [|[chunk e] rest IH]; intros r data out; cbn [drain]; [discriminate|].
  destruct (br_read hashd r chunk e) as [r' res] eqn:ER. destruct e; cbn [flatten].
  - destruct (flatten rest) as [d e'] eqn:EF. cbn [snd] in *.
    unfold br_read in ER. destruct (_ >? _) in ER; injection ER as _ <-; [discriminate|].
    intros H. exact (IH _ _ _ H).
  - reflexivity.
  - unfold br_read in ER. injection ER as _ <-. discriminate.
Qed.

Lemma client_read_no_fail vref hashd kind known resp body head de data :
  client_read vref hashd kind known resp body head = Ok (de, DClean data) ->
  snd (flatten body) <> RFail.
Proof.
  unfold client_read. destruct (negb _); [discriminate|].
  destruct (descriptor_from_response _ _ _ _ _) as [de0|]; [|discriminate].
  assert (Hd : forall (r : R err br) (d0 : desc),
            (do r' <- r; Ok (d0, drain hashd r' body [])) = Ok (de, DClean data) -> snd (flatten body) <> RFail).
  { intros r d0. destruct r as [r'| | |]; cbn; try discriminate. intros H. injection H as _ H.
    rewrite (drain_clean_flatten _ _ _ _ _ H). discriminate. }
  destruct (d_digest de0) eqn:ED; [|apply Hd].
  destruct kind; [discriminate|]. destruct (d_size de0 <=? IN_MEM_THRESHOLD).
  - destruct (flatten body) as [dt e]. destruct e; cbn [snd]; try (intros _ HH; discriminate HH).
    destruct (_ <=? _); intros HH; discriminate HH.
  - destruct head as [hr|]; [|discriminate]. destruct (negb _); [discriminate|].
    destruct (descriptor_from_response _ _ _ _ _) as [de1|]; [|discriminate]. apply Hd.
Qed.

Lemma read_model_no_fail kind o0 o1 known resp body head orc h512 de data :
  read_model kind o0 o1 known resp body head orc h512 = Ok (de, DClean data) ->
  script_failed body = false.
Proof.
  intros EM. unfold script_failed.
  assert (snd (flatten (script_of body)) <> RFail) as H; [|destruct (snd _); congruence].
  unfold read_model in EM.
  destruct kind as [|[[|[]|]|[]|]]; try (now apply client_read_no_fail in EM).
  all: unfold client_get_blob_range in EM; destruct ((o0 =? 0) && (o1 <? 0)); [now apply client_read_no_fail in EM|].
  all: destruct (negb _) in EM; [discriminate|].
  all: destruct (descriptor_from_response _ _ _ _ _) as [de0|] in EM; [|discriminate].
  all: destruct (new_blob_reader de0 false) as [r| | |] eqn:ER; cbn in EM; try discriminate.
  all: injection EM as _ Hd; rewrite (drain_clean_flatten _ _ _ _ _ Hd); discriminate.
Qed.

Lemma corr_read kind o0 o1 known resp body head orc h512 obs :
  model_agrees (CRead kind o0 o1 known resp body head orc h512 obs) = true ->
  obs_ok (CRead kind o0 o1 known resp body head orc h512 obs) = true.
Proof.
  cbn. destruct obs as [| |de data clean]; try reflexivity. destruct clean; [|reflexivity].
  unfold read_agrees. destruct (read_model _ _ _ _ _ _ _ _ _) as [[de' dr]| | |] eqn:EM; try discriminate.
  destruct dr as [data'| |]; try discriminate. intros H. apply andb_true_iff in H as [H1 H2].
  apply desc_eqb_eq in H1. apply beqb_eq in H2. subst de' data'.
  rewrite (read_model_no_fail _ _ _ _ _ _ _ _ _ _ _ EM). cbn [negb andb].
  assert (Hver : forall k kn hd, client_read (orc_vd orc) (hashd_of orc h512) k kn resp (script_of body) hd = Ok (de, DClean data) ->
            (blen data =? d_size de) && beqb (hashd_of orc h512 (alg_text (d_digest de)) data) (d_digest de) = true).
  { intros k kn hd Hc. apply verified_ok in Hc as [A B]. rewrite A, B, Z.eqb_refl, beqb_refl. reflexivity. }
  unfold read_model in EM. unfold unverified.
  destruct kind as [|[[|[]|]|[]|]]; try (now apply Hver in EM).
  all: unfold client_get_blob_range in EM; destruct ((o0 =? 0) && (o1 <? 0)); cbn [negb]; [now apply Hver in EM|].
  all: destruct (negb _) in EM; [discriminate|].
  all: destruct (descriptor_from_response _ _ _ _ _) as [de0|] in EM; [|discriminate].
  all: destruct (new_blob_reader de0 false) as [r| | |] eqn:ER; cbn in EM; try discriminate.
  all: injection EM as <- Hd; apply Z.leb_le; eapply blobreader_unverified_sound; eauto.
Qed.

Lemma corr_range src hdr rd blob obs :
  model_agrees (CRange src hdr rd blob obs) = true -> obs_ok (CRange src hdr rd blob obs) = true.
Proof.
  cbn. destruct src as [[o0 o1]|]; [|reflexivity]. destruct blob as [[de data]|]; [|reflexivity].
  destruct obs as [st|r body]; [reflexivity|].
  intros H. apply andb_true_iff in H as [H Hr]. apply andb_true_iff in H as [H Hd].
  apply andb_true_iff in H as [H Hh]. apply andb_true_iff in H as [H0 H1].
  apply andb_true_iff in Hd as [Hs Hs64].
  apply in64b_in64 in H0, H1. apply beqb_eq in Hh. apply Z.eqb_eq in Hs. subst hdr.
  destruct (rs_status r =? 206) eqn:ES; [|reflexivity].
  unfold range_model, server_blob_get in Hr. rewrite (parse_client_range o0 o1 H0 H1) in Hr.
  destruct (Z.ltb_spec o0 0) as [Hneg|Hpos]; [discriminate|].
  pose proof (blen_nonneg data) as Hn.
  assert (Hcase : forall e, e = -1 \/ 0 <= e -> clamp (blen data) e = clamp (blen data) o1 ->
    range_agrees
      match range_of_blob de data o0 e with
      | Ok (de0, data0) =>
          let en := if (e =? -1) || (e >? d_size de0) then d_size de0 else e in
          if o0 >? d_size de0 then S416
          else if en <? o0 then S416
          else SResp {| rs_status := 206; rs_ctype := d_media de0; rs_clen := en - o0;
                        rs_crange := content_range_header o0 en (d_size de0); rs_digest := rd |} data0
      | Err e0 => SBackend e0
      | _ => SPanic
      end (WResp r body) = true ->
    (0 <=? o0) && (o0 <=? clamp (blen data) o1) && beqb body (slice data o0 (clamp (blen data) o1))
    && (rs_clen r =? blen body)
    && match after_last 47%N (rs_crange r) with
       | Some t => match parse_int t with Some n => n =? blen data | None => false end
       | None => false
       end
    && beqb (rs_crange r)
            (s "bytes " ++ fmt_int o0 ++ 45%N :: fmt_int (clamp (blen data) o1 - 1) ++ 47%N :: fmt_int (blen data)) = true).
  { intros e He Hcl. unfold range_of_blob. fold (clamp (blen data) e). rewrite Hcl.
    set (c := clamp (blen data) o1) in *.
    assert (Hc : c <= blen data) by (unfold c, clamp; destruct ((o1 <? 0) || (o1 >? blen data)) eqn:E; [lia|];
                                    apply orb_false_iff in E as [_ E]; rewrite Z.gtb_ltb in E; apply Z.ltb_ge in E; lia).
    destruct ((o0 <? 0) || (o0 >? c)) eqn:EB; [discriminate|].
    apply orb_false_iff in EB as [_ EB]. rewrite Z.gtb_ltb in EB. apply Z.ltb_ge in EB.
    cbn zeta. rewrite Hs.
    assert (Hen : (if (e =? -1) || (e >? blen data) then blen data else e) = c).
    { rewrite <- Hcl. unfold clamp. destruct He as [->|He]; [reflexivity|].
      destruct (Z.eqb_spec e (-1)); [lia|]. destruct (Z.ltb_spec e 0); [lia|]. reflexivity. }
    rewrite Hen. destruct (o0 >? blen data); [discriminate|]. destruct (c <? o0); [discriminate|].
    cbn [range_agrees]. intros Hq. apply andb_true_iff in Hq as [Hq Hb]. apply beqb_eq in Hb. subst body.
    unfold response_eqb in Hq. cbn [rs_status rs_ctype rs_clen rs_crange rs_digest] in Hq.
    repeat (apply andb_true_iff in Hq as [Hq ?]).
    match goal with Hc1 : (c - o0 =? rs_clen r) = true |- _ => apply Z.eqb_eq in Hc1; rewrite <- Hc1 end.
    match goal with Hc2 : beqb (content_range_header _ _ _) (rs_crange r) = true |- _ => apply beqb_eq in Hc2; rewrite <- Hc2 end.
    rewrite content_range_total, parse_int_fmt_int_gen.
    assert (in_int64 (blen data) = true) as E64 by (rewrite <- Hs; exact Hs64). rewrite E64.
    assert (Ecr : content_range_header o0 c (blen data)
                  = s "bytes " ++ fmt_int o0 ++ 45%N :: fmt_int (c - 1) ++ 47%N :: fmt_int (blen data)).
    { unfold content_range_header. rewrite wrap64_id; [reflexivity|].
      apply in_int64_iff in E64. unfold MIN64 in *. lia. }
    rewrite Ecr.
    change (firstn (Z.to_nat (c - o0)) (skipn (Z.to_nat o0) data)) with (slice data o0 c). rewrite blen_slice by lia.
    rewrite !beqb_refl, !Z.eqb_refl. destruct (Z.leb_spec 0 o0), (Z.leb_spec o0 c); try lia; reflexivity. }
  destruct (Z.ltb_spec o1 0) as [H1n|H1p].
  - apply (Hcase (-1)); [now left | | exact Hr]. unfold clamp. cbn. destruct (Z.ltb_spec o1 0); [reflexivity | lia].
  - destruct (o1 <=? o0); [discriminate|]. apply (Hcase o1); [now right | reflexivity | exact Hr].
Qed.

Lemma corr_sound c : model_agrees c = true -> obs_ok c = true.
Proof.
  destruct c; [apply corr_hist | apply corr_read | apply corr_range | | ].
  - cbn. intros H. apply andb_true_iff in H as [_ H]. exact H.
  - cbn. intros H. exact H.
Qed.

Definition mismatches (cs : list case) : list (N * bool) :=
  bad_from 0 (fun c => if model_agrees c then None else Some (obs_ok c)) cs.
Definition bad_obs (cs : list case) : list (N * bool) :=
  bad_from 0 (fun c => if obs_ok c then None else Some (model_agrees c)) cs.

(* diagnostics: index of the first observation the model does not reproduce, with the
   model's projected result *)
Fixpoint first_diff (stack : N) (i : N) (obs : list oresult) (ms : list result) : option (N * pobs) :=
  match obs, ms with
  | o :: obs', m :: ms' => if agree1 stack o m then first_diff stack (N.succ i) obs' ms' else Some (i, proj m)
  | [], [] => None
  | _, _ => Some (i, PPanic)
  end.
Definition where_bad (c : case) : option (N * pobs) :=
  match c with
  | CHist stack imm orc sj ops obs => first_diff stack 0 obs (model_results stack imm orc sj ops)
  | _ => None
  end.
