(* Correspondence for C17: what the harness observed on ociref.Parse / ParseRelative /
   Reference.String / IsValidHost / IsValidRepository / IsValidTag / IsValidDigest, on the
   wrappers of ociregistry/valid.go and on Digest.Validate, versus the model (Model/Ref.v)
   and versus the property's specification. *)
From Coq Require Import String.
From OCI Require Export Base.Outcome Base.Regex Model.Ref.
From OCI Require Import Proofs.Ref.

(* the harness binary links crypto/sha256 and crypto/sha512: all three hashes are available *)
Definition L : alg -> bool := fun _ => true.

(* an observed boolean result: true / false / the call panicked *)
Inductive ob := OT | OF | OP.
(* an observed (Reference, error) result *)
Inductive pres := PPanic | PErr | POk (h r t d : bytes).
(* the four predicates applied to four strings (host, repository, tag, digest) *)
Record preds := mkp { p_host : ob; p_repo : ob; p_tag : ob; p_digest : ob }.

(* where in a URL a string is placed: /v2/<PRepo>/..., .../manifests/<ref> received as a tag
   (PTagRef) or as a digest (PDigestRef), .../blobs/<PDigest> (also referrers/, ?mount=),
   ?from=<PFrom> of a mount *)
Inductive rpos := PRepo | PTagRef | PDigest | PFrom | PDigestRef.

(* how the string is spelled in the request target.  [Canon]: the harness hands net/url the
   decoded string and lets it produce its canonical encoding (no RawPath).  [Raw inq raw]: the
   request line carries [raw], another of the equivalent percent-encoded spellings of the same
   string (unnecessary escapes, lower-case hex digits, sub-delimiters left literal, '+' for a
   space in a query), in the path ([inq] = false) or as a query value ([inq] = true); the request
   is read by http.ReadRequest as a server reads it, so URL.RawPath is set. *)
Inductive spell := Canon | Raw (inq : bool) (raw : bytes).

(* RFC 3986 percent-decoding, written on bytes as numbers (37 is the percent sign, 43 is '+',
   32 the space); None when an escape is malformed *)
Definition spec_hexval (c : N) : option N :=
  if (48 <=? c) && (c <=? 57) then Some (c - 48)
  else if (97 <=? c) && (c <=? 102) then Some (c - 87)
  else if (65 <=? c) && (c <=? 70) then Some (c - 55)
  else None.

Fixpoint pct_decode (plus : bool) (b : bytes) : option bytes :=
  match b with
  | [] => Some []
  | c :: rest =>
      if c =? 37 then
        match rest with
        | h :: l :: rest' =>
            match spec_hexval h, spec_hexval l, pct_decode plus rest' with
            | Some a, Some b', Some r => Some (16 * a + b' :: r)
            | _, _, _ => None
            end
        | _ => None
        end
      else
        match pct_decode plus rest with
        | Some r => Some ((if plus && (c =? 43) then 32 else c) :: r)
        | None => None
        end
  end.

(* the spelling denotes the string w *)
Definition spells (sp : spell) (w : bytes) : bool :=
  match sp with
  | Canon => true
  | Raw inq raw => match pct_decode inq raw with Some w' => beqb w' w | None => false end
  end.

(* the decoded form of a case (the case files carry [case] below, a compressed form) *)
Inductive dcase :=
  (* a string handed to the parser and to every predicate *)
  | CS (w : bytes)
       (rel abs : pres)          (* ParseRelative w ; Parse w *)
       (str : option bytes)      (* String() of ParseRelative's result, None when there is none *)
       (pv : option preds)       (* the predicates on the parts of that result *)
       (sv : preds)              (* the four predicates on w itself *)
       (wv : preds)              (* ociregistry.IsValidRepoName / IsValidTag / IsValidDigest on w
                                    (p_host unused: OF) *)
       (dg : option N)           (* Digest(w).Validate(): 0 nil, 1 format, 2 length, 3 unsupported *)
  (* four parts printed and parsed back *)
  | CP (h r t d : bytes)
       (pv : preds)              (* IsValidHost h, IsValidRepository r, IsValidTag t, IsValidDigest d *)
       (str : option bytes)      (* Reference{h,r,t,d}.String(), None when it panicked *)
       (rel abs : pres)          (* ParseRelative / Parse of that string *)
  (* a string placed at a routing position of a URL handled by ociserver over a recording
     backend: did the backend receive exactly this string in that position *)
  | CR (pos : rpos) (w : bytes)
       (sp : spell)              (* which of the equivalent spellings of w the URL carried *)
       (pv : preds)              (* ociref.IsValidRepository / IsValidTag / IsValidDigest on w (p_host unused: OF) *)
       (acc : ob).               (* OT reached the backend as w, OF did not, OP the handler panicked *)

(* ---------- the model's prediction of every observable ---------- *)

Definition ob_of (r : R unit bool) : ob :=
  match r with Ok true => OT | Ok false => OF | _ => OP end.

Definition pres_of (r : R parse_err reference) : pres :=
  match r with
  | Ok ref => POk (r_host ref) (r_repo ref) (r_tag ref) (r_digest ref)
  | Err _ => PErr
  | _ => PPanic
  end.

Definition preds_of (h r t d : bytes) : preds :=
  mkp (ob_of (is_valid_host h)) (ob_of (is_valid_repository r)) (ob_of (is_valid_tag t))
      (ob_of (is_valid_digest L d)).

Definition dg_of (r : R digest_err unit) : option N :=
  match r with
  | Ok _ => Some 0
  | Err DInvalidFormat => Some 1
  | Err DInvalidLength => Some 2
  | Err DUnsupported => Some 3
  | _ => None
  end.

Definition predict (c : dcase) : dcase :=
  match c with
  | CS w _ _ _ _ _ _ _ =>
      let pr := parse_relative L w in
      CS w (pres_of pr) (pres_of (parse L w))
         (match pr with Ok ref => Some (to_string ref) | _ => None end)
         (match pr with
          | Ok ref => Some (preds_of (r_host ref) (r_repo ref) (r_tag ref) (r_digest ref))
          | _ => None end)
         (preds_of w w w w)
         (mkp OF (ob_of (root_is_valid_repo_name w)) (ob_of (root_is_valid_tag w))
              (ob_of (root_is_valid_digest L w)))
         (dg_of (digest_validate L w))
  | CP h r t d _ _ _ _ =>
      let str := to_string (mkref h r t d) in
      CP h r t d (preds_of h r t d) (Some str) (pres_of (parse_relative L str)) (pres_of (parse L str))
  | CR pos w sp _ _ =>
      (* the router works on URL.Path and on the parsed query, that is on the decoded string:
         the spelling plays no part *)
      CR pos w sp (mkp OF (ob_of (is_valid_repository w)) (ob_of (is_valid_tag w)) (ob_of (is_valid_digest L w)))
         (match pos with
          | PRepo | PFrom => ob_of (router_valid_repo w)
          | PDigest => ob_of (router_valid_digest L w)
          | PTagRef => match router_manifest_ref L w with Ok RTag => OT | Ok _ => OF | _ => OP end
          | PDigestRef => match router_manifest_ref L w with Ok RDigest => OT | Ok _ => OF | _ => OP end
          end)
  end.

(* ---------- equality of observations ---------- *)

Definition ob_eqb (a b : ob) : bool :=
  match a, b with OT, OT | OF, OF | OP, OP => true | _, _ => false end.
Definition pres_eqb (a b : pres) : bool :=
  match a, b with
  | PPanic, PPanic | PErr, PErr => true
  | POk h r t d, POk h' r' t' d' => beqb h h' && beqb r r' && beqb t t' && beqb d d'
  | _, _ => false
  end.
Definition preds_eqb (a b : preds) : bool :=
  ob_eqb (p_host a) (p_host b) && ob_eqb (p_repo a) (p_repo b) &&
  ob_eqb (p_tag a) (p_tag b) && ob_eqb (p_digest a) (p_digest b).

Definition rpos_eqb (a b : rpos) : bool :=
  match a, b with
  | PRepo, PRepo | PTagRef, PTagRef | PDigest, PDigest | PFrom, PFrom | PDigestRef, PDigestRef => true
  | _, _ => false
  end.

Definition spell_eqb (a b : spell) : bool :=
  match a, b with
  | Canon, Canon => true
  | Raw q r, Raw q' r' => Bool.eqb q q' && beqb r r'
  | _, _ => false
  end.

Definition case_eqb (a b : dcase) : bool :=
  match a, b with
  | CS w rel abs str pv sv wv dg, CS w' rel' abs' str' pv' sv' wv' dg' =>
      beqb w w' && pres_eqb rel rel' && pres_eqb abs abs' && option_eqb beqb str str' &&
      option_eqb preds_eqb pv pv' && preds_eqb sv sv' && preds_eqb wv wv' && option_eqb N.eqb dg dg'
  | CP h r t d pv str rel abs, CP h' r' t' d' pv' str' rel' abs' =>
      beqb h h' && beqb r r' && beqb t t' && beqb d d' && preds_eqb pv pv' &&
      option_eqb beqb str str' && pres_eqb rel rel' && pres_eqb abs abs'
  | CR pos w sp pv acc, CR pos' w' sp' pv' acc' =>
      rpos_eqb pos pos' && beqb w w' && spell_eqb sp sp' && preds_eqb pv pv' && ob_eqb acc acc'
  | _, _ => false
  end.

Lemma ob_eqb_eq a b : ob_eqb a b = true -> a = b.
Proof. destruct a, b; cbn; congruence. Qed.

Lemma rpos_eqb_eq a b : rpos_eqb a b = true -> a = b.
Proof. destruct a, b; cbn; congruence. Qed.

Lemma spell_eqb_eq a b : spell_eqb a b = true -> a = b.
Proof.
  destruct a as [|q r], b as [|q' r']; cbn; try congruence. intros H.
  apply andb_true_iff in H as [H1 H2]. apply Bool.eqb_prop in H1. apply beqb_eq in H2. now subst.
Qed.

Lemma pres_eqb_eq a b : pres_eqb a b = true -> a = b.
Proof.
  destruct a, b; cbn; try congruence. intros H.
  repeat (apply andb_true_iff in H as [H ?]).
  apply beqb_eq in H, H0, H1, H2. now subst.
Qed.

Lemma preds_eqb_eq a b : preds_eqb a b = true -> a = b.
Proof.
  destruct a, b; unfold preds_eqb; cbn. intros H.
  repeat (apply andb_true_iff in H as [H ?]).
  apply ob_eqb_eq in H, H0, H1, H2. now subst.
Qed.

Lemma option_eqb_eq {A} (f : A -> A -> bool) :
  (forall a b, f a b = true -> a = b) -> forall a b, option_eqb f a b = true -> a = b.
Proof. intros Hf [a|] [b|]; cbn; try congruence. intros H. f_equal. auto. Qed.

Lemma beqb_true a b : beqb a b = true -> a = b.
Proof. apply beqb_eq. Qed.
Lemma neqb_true a b : N.eqb a b = true -> a = b.
Proof. apply N.eqb_eq. Qed.

Ltac split_ands :=
  repeat match goal with H : _ && _ = true |- _ => apply andb_true_iff in H as [? ?] end.
Ltac to_eqs :=
  repeat match goal with
  | H : beqb _ _ = true |- _ => apply beqb_true in H
  | H : pres_eqb _ _ = true |- _ => apply pres_eqb_eq in H
  | H : rpos_eqb _ _ = true |- _ => apply rpos_eqb_eq in H
  | H : spell_eqb _ _ = true |- _ => apply spell_eqb_eq in H
  | H : ob_eqb _ _ = true |- _ => apply ob_eqb_eq in H
  | H : preds_eqb _ _ = true |- _ => apply preds_eqb_eq in H
  | H : option_eqb beqb _ _ = true |- _ => apply (option_eqb_eq beqb beqb_true) in H
  | H : option_eqb preds_eqb _ _ = true |- _ => apply (option_eqb_eq preds_eqb preds_eqb_eq) in H
  | H : option_eqb N.eqb _ _ = true |- _ => apply (option_eqb_eq N.eqb neqb_true) in H
  end.

Lemma case_eqb_eq a b : case_eqb a b = true -> a = b.
Proof.
  destruct a, b; cbn; try congruence; intros H; split_ands; to_eqs; now subst.
Qed.

(* a routing case is well formed when the spelling the harness sent does denote the string
   (a harness invariant, checked here rather than trusted) *)
Definition d_wf (c : dcase) : bool :=
  match c with CR _ w sp _ _ => spells sp w | _ => true end.

Definition d_model_agrees (c : dcase) : bool := d_wf c && case_eqb c (predict c).

(* ---------- the specification, read off the property ----------
   Written on the observations alone: it never calls the model's parser, printer or
   predicates.  The predicates' answers are the ones observed on the real code. *)

Definition is_t (o : ob) : bool := ob_eqb o OT.
Definition no_panic_ob (o : ob) : bool := negb (ob_eqb o OP).
Definition no_panic_preds (p : preds) : bool :=
  no_panic_ob (p_host p) && no_panic_ob (p_repo p) && no_panic_ob (p_tag p) && no_panic_ob (p_digest p).
Definition no_panic_pres (p : pres) : bool := match p with PPanic => false | _ => true end.

(* Parse is ParseRelative plus "the host must be present" *)
Definition abs_of_rel (rel : pres) : pres :=
  match rel with
  | POk h r t d => if nonempty h then rel else PErr
  | p => p
  end.

(* the OCI distribution specification's tag grammar [a-zA-Z0-9_][a-zA-Z0-9._-]{0,127}, written
   here byte by byte (bytes as numbers) without reference to the model *)
Definition spec_alnum_us (c : N) : bool :=
  ((48 <=? c) && (c <=? 57)) || ((65 <=? c) && (c <=? 90)) || ((97 <=? c) && (c <=? 122)) || (c =? 95).
Definition spec_tag (w : bytes) : bool :=
  match w with
  | [] => false
  | c :: rest =>
      spec_alnum_us c && forallb (fun x => spec_alnum_us x || (x =? 46) || (x =? 45)) rest &&
      (Nat.leb (length w) 128)
  end.

Definition d_obs_ok (c : dcase) : bool :=
  match c with
  | CS w rel abs str pv sv wv dg =>
      (* nothing panicked; every predicate answered on w (whatever w is, the empty string included) *)
      no_panic_pres rel && no_panic_pres abs && no_panic_preds sv && no_panic_preds wv &&
      match dg with Some _ => true | None => false end &&
      (* a parsed string prints back to itself and its parts are valid and within the limits *)
      match rel, str, pv with
      | POk h r t d, Some w', Some p =>
          beqb w' w && no_panic_preds p &&
          (negb (nonempty h) || is_t (p_host p)) &&
          is_t (p_repo p) && (blen r <=? 255)%Z &&
          (negb (nonempty t) || (is_t (p_tag p) && (blen t <=? 128)%Z)) &&
          (negb (nonempty d) || is_t (p_digest p))
      | POk _ _ _ _, _, _ => false
      | _, None, None => true
      | _, _, _ => false
      end &&
      (* Parse = ParseRelative restricted to references with a host *)
      pres_eqb abs (abs_of_rel rel) &&
      (* the exported wrappers (which the router's predicates are) agree with ociref's *)
      ob_eqb (p_repo wv) (p_repo sv) && ob_eqb (p_tag wv) (p_tag sv) && ob_eqb (p_digest wv) (p_digest sv) &&
      (* IsValidDigest is "Validate returns nil" *)
      Bool.eqb (is_t (p_digest sv)) (match dg with Some 0 => true | _ => false end) &&
      (* IsValidTag decides the specification's tag grammar *)
      Bool.eqb (is_t (p_tag sv)) (spec_tag w)
  | CP h r t d pv str rel abs =>
      no_panic_preds pv && no_panic_pres rel && no_panic_pres abs &&
      match str with Some _ => true | None => false end &&
      (* valid parts with a non-empty host, within the limits: parse back to the same parts *)
      (if nonempty h && is_t (p_host pv) && is_t (p_repo pv) && (blen r <=? 255)%Z &&
          (negb (nonempty t) || is_t (p_tag pv)) && (negb (nonempty d) || is_t (p_digest pv))
       then pres_eqb rel (POk h r t d) && pres_eqb abs (POk h r t d)
       else true)
  | CR pos w sp pv acc =>
      (* the routing layer accepts a string in a position exactly when the position's validity
         predicate (as observed on the exported functions) holds - whichever of its equivalent
         spellings the URL uses; a manifest reference is taken as a digest first, else as a tag *)
      spells sp w && no_panic_preds pv && no_panic_ob acc &&
      Bool.eqb (is_t acc)
        (match pos with
         | PRepo | PFrom => is_t (p_repo pv)
         | PDigest | PDigestRef => is_t (p_digest pv)
         | PTagRef => is_t (p_tag pv) && negb (is_t (p_digest pv))
         end)
  end.

(* a case that exercises an accepting path: something parsed or some predicate said yes *)
Definition d_nontrivial (c : dcase) : bool :=
  match c with
  | CS _ rel _ _ _ sv _ _ =>
      match rel with POk _ _ _ _ => true | _ => false end ||
      is_t (p_host sv) || is_t (p_repo sv) || is_t (p_tag sv) || is_t (p_digest sv)
  | CP h r t d pv _ rel _ =>
      nonempty h && is_t (p_host pv) && is_t (p_repo pv) &&
      (negb (nonempty t) || is_t (p_tag pv)) && (negb (nonempty d) || is_t (p_digest pv))
  | CR _ _ _ pv acc => is_t acc || is_t (p_repo pv) || is_t (p_tag pv) || is_t (p_digest pv)
  end.

(* ---------- soundness of the correspondence ---------- *)

Lemma ob_of_total (r : R unit bool) : (exists b, r = Ok b) -> no_panic_ob (ob_of r) = true.
Proof. intros [[] ->]; reflexivity. Qed.

Lemma preds_of_no_panic h r t d : no_panic_preds (preds_of h r t d) = true.
Proof.
  unfold no_panic_preds, preds_of. cbn [p_host p_repo p_tag p_digest].
  destruct (predicates_total L h) as [Hh _], (predicates_total L r) as [_ [Hr _]],
    (predicates_total L t) as [_ [_ [Ht _]]], (predicates_total L d) as [_ [_ [_ Hd]]].
  now rewrite !ob_of_total.
Qed.

Lemma is_t_ob_of r : is_t (ob_of r) = true <-> r = Ok true.
Proof. destruct r as [[]|[]| |]; cbn; split; congruence. Qed.

Lemma pres_eqb_refl p : pres_eqb p p = true.
Proof. destruct p; cbn; auto. now rewrite !beqb_refl. Qed.

Lemma ob_eqb_refl o : ob_eqb o o = true.
Proof. now destruct o. Qed.

Lemma spec_alnum_us_word c : spec_alnum_us c = is_word c.
Proof.
  unfold spec_alnum_us, is_word, b_us.
  destruct (c =? 95)%N, ((48 <=? c) && (c <=? 57))%N, ((65 <=? c) && (c <=? 90))%N, ((97 <=? c) && (c <=? 122))%N; reflexivity.
Qed.

Lemma spec_tag_tag_spec w : spec_tag w = tag_spec w.
Proof.
  destruct w as [|c rest]; [reflexivity|]. unfold spec_tag, tag_spec.
  rewrite spec_alnum_us_word. f_equal; [f_equal|].
  - induction rest as [|x rest IH]; cbn [forallb]; [reflexivity|]. rewrite IH.
    unfold tag_char, b_dot, b_dash. now rewrite spec_alnum_us_word.
  - unfold blen. destruct (Nat.leb_spec (length (c :: rest)) 128); symmetry; [apply Z.leb_le | apply Z.leb_gt]; lia.
Qed.

Lemma predict_wf c : d_wf (predict c) = d_wf c.
Proof. now destruct c. Qed.

Lemma predict_ok c : d_wf c = true -> d_obs_ok (predict c) = true.
Proof.
  intros Hwf.
  destruct c as [w rel abs str pv sv wv dg | h r t d pv str rel abs | pos w sp pv acc]; cbn [predict d_obs_ok].
  - (* string case *)
    destruct (parsing_never_panics L w) as [N1 [N2 [N3 N4]]].
    assert (Hsv : no_panic_preds (preds_of w w w w) = true) by apply preds_of_no_panic.
    rewrite Hsv. unfold root_is_valid_repo_name, root_is_valid_tag, root_is_valid_digest.
    cbn [p_host p_repo p_tag p_digest preds_of].
    assert (Hwv : no_panic_preds (mkp OF (ob_of (is_valid_repository w)) (ob_of (is_valid_tag w))
                                      (ob_of (is_valid_digest L w))) = true).
    { unfold no_panic_preds, preds_of in *. cbn [p_host p_repo p_tag p_digest] in *.
      apply andb_true_iff in Hsv as [Hsv H4]. apply andb_true_iff in Hsv as [Hsv H3].
      apply andb_true_iff in Hsv as [H1 H2]. now rewrite H2, H3, H4. }
    rewrite Hwv, !ob_eqb_refl.
    assert (Hdg : match dg_of (digest_validate L w) with Some _ => true | None => false end = true
                  /\ Bool.eqb (is_t (ob_of (is_valid_digest L w)))
                       (match dg_of (digest_validate L w) with Some 0 => true | _ => false end) = true).
    { unfold is_valid_digest. destruct (digest_validate_total L w) as [H|[e H]]; rewrite H; cbn.
      - auto.
      - destruct e; auto. }
    destruct Hdg as [-> ->].
    assert (Htg : Bool.eqb (is_t (ob_of (is_valid_tag w))) (spec_tag w) = true).
    { rewrite spec_tag_tag_spec, is_valid_tag_spec. now destruct (tag_spec w). }
    rewrite Htg, !andb_true_r.
    unfold parse. destruct (parse_relative L w) as [ref| e | |] eqn:E; try congruence.
    + pose proof (parse_print L _ _ E) as Hp. pose proof (parts_valid L _ _ E) as [Vh [Vr [Lr [Vt Vd]]]].
      destruct ref as [h r t d]. cbn [r_host r_repo r_tag r_digest rbind pres_of] in *.
      rewrite Hp, beqb_refl, preds_of_no_panic. cbn [p_host p_repo p_tag p_digest preds_of].
      assert ((negb (nonempty h) || is_t (ob_of (is_valid_host h))) = true) as ->.
      { destruct Vh as [->|Vh]; [reflexivity|]. apply is_t_ob_of in Vh. rewrite Vh. apply orb_true_r. }
      assert (is_t (ob_of (is_valid_repository r)) = true) as -> by now apply is_t_ob_of.
      assert ((blen r <=? 255)%Z = true) as -> by now apply Z.leb_le.
      assert ((negb (nonempty t) || (is_t (ob_of (is_valid_tag t)) && (blen t <=? 128)%Z)) = true) as ->.
      { destruct Vt as [->|[Vt Lt]]; [reflexivity|]. apply is_t_ob_of in Vt. rewrite Vt.
        apply Z.leb_le in Lt. rewrite Lt. apply orb_true_r. }
      assert ((negb (nonempty d) || is_t (ob_of (is_valid_digest L d))) = true) as ->.
      { destruct Vd as [->|Vd]; [reflexivity|]. apply is_t_ob_of in Vd. rewrite Vd. apply orb_true_r. }
      cbn [abs_of_rel]. destruct (nonempty h); cbn; now rewrite ?beqb_refl.
    + reflexivity.
  - (* parts case *)
    rewrite preds_of_no_panic.
    set (str' := to_string (mkref h r t d)).
    destruct (parsing_never_panics L str') as [N1 [N2 [N3 N4]]].
    assert (no_panic_pres (pres_of (parse_relative L str')) = true) as ->
      by (destruct (parse_relative L str'); cbn; congruence).
    assert (no_panic_pres (pres_of (parse L str')) = true) as ->
      by (destruct (parse L str'); cbn; congruence).
    cbn [andb p_host p_repo p_tag p_digest preds_of].
    destruct (nonempty h && is_t (ob_of (is_valid_host h)) && is_t (ob_of (is_valid_repository r)) &&
              (blen r <=? 255)%Z && (negb (nonempty t) || is_t (ob_of (is_valid_tag t))) &&
              (negb (nonempty d) || is_t (ob_of (is_valid_digest L d)))) eqn:Hyp; [|reflexivity].
    repeat (apply andb_true_iff in Hyp as [Hyp ?]).
    apply is_t_ob_of in H2, H3. apply Z.leb_le in H1.
    assert (Ht : t = [] \/ is_valid_tag t = Ok true).
    { apply orb_true_iff in H0 as [H0|H0]; [left; now apply nonempty_false, negb_true_iff | right; now apply is_t_ob_of]. }
    assert (Hd : d = [] \/ is_valid_digest L d = Ok true).
    { apply orb_true_iff in H as [H|H]; [left; now apply nonempty_false, negb_true_iff | right; now apply is_t_ob_of]. }
    destruct (print_parse L h r t d H3 H2 H1 Ht Hd) as [P1 P2]. fold str' in P1, P2.
    rewrite P1, P2. cbn [pres_of r_host r_repo r_tag r_digest]. now rewrite pres_eqb_refl.
  - (* routing case *)
    cbn [d_wf] in Hwf. rewrite Hwf. cbn [andb].
    unfold router_valid_repo, router_valid_digest, router_manifest_ref, no_panic_preds.
    cbn [p_host p_repo p_tag p_digest].
    destruct (predicates_total L w) as [_ [[br Hr] [[bt Ht] [bd Hd]]]].
    rewrite Hr, Ht, Hd. cbn [rbind].
    destruct pos, br, bt, bd; reflexivity.
Qed.

Lemma d_corr_sound c : d_model_agrees c = true -> d_obs_ok c = true.
Proof.
  unfold d_model_agrees. intros H. apply andb_true_iff in H as [Hwf H].
  apply case_eqb_eq in H. rewrite H. apply predict_ok. exact Hwf.
Qed.

(* ---------- the form cases have in the case files ----------
   Most observed strings are pieces of the input (the parts of a parsed reference, the
   printed form).  To keep the files small the harness writes such a value as a reference
   into a base string: [W] the whole base, [Sub off len] a substring, [E b] a literal.
   Decoding is done here; what is compared and specified is the decoded case. *)

Inductive enc := E (b : bytes) | W | Sub (off len : N).
Inductive epres := EPanic | EErr | EOk (h r t d : enc).

Inductive case :=
  | ES (w : bytes) (rel abs : epres) (str : option enc) (pv : option preds) (sv wv : preds) (dg : option N)
  | EP (base : bytes) (h r t d : enc) (pv : preds) (str : option enc) (rel abs : epres)
  | ER (pos : rpos) (w : bytes) (sp : spell) (pv : preds) (acc : ob).

Definition dec (base : bytes) (e : enc) : bytes :=
  match e with
  | E b => b
  | W => base
  | Sub off len => firstn (N.to_nat len) (skipn (N.to_nat off) base)
  end.

Definition dec_pres (base : bytes) (p : epres) : pres :=
  match p with
  | EPanic => PPanic
  | EErr => PErr
  | EOk h r t d => POk (dec base h) (dec base r) (dec base t) (dec base d)
  end.

Definition decode (c : case) : dcase :=
  match c with
  | ES w rel abs str pv sv wv dg =>
      CS w (dec_pres w rel) (dec_pres w abs) (option_map (dec w) str) pv sv wv dg
  | EP base h r t d pv str rel abs =>
      CP (dec base h) (dec base r) (dec base t) (dec base d) pv (option_map (dec base) str)
         (dec_pres base rel) (dec_pres base abs)
  | ER pos w sp pv acc => CR pos w sp pv acc
  end.

Definition model_agrees (c : case) : bool := d_model_agrees (decode c).
Definition obs_ok (c : case) : bool := d_obs_ok (decode c).
Definition nontrivial (c : case) : bool := d_nontrivial (decode c).

Lemma corr_sound c : model_agrees c = true -> obs_ok c = true.
Proof. apply d_corr_sound. Qed.

Definition mismatches (cs : list case) : list (N * bool) :=
  bad_from 0 (fun c => if model_agrees c then None else Some (obs_ok c)) cs.
Definition bad_obs (cs : list case) : list (N * bool) :=
  bad_from 0 (fun c => if obs_ok c then None else Some (model_agrees c)) cs.
