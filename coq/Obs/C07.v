(* Correspondence for C07: what the harness observed through real ociserver / ociclient pairs
   (1..3 hops over loopback HTTP, every Interface method as the carrier) versus the model
   (Model/Errors.v) and versus the property's specification. *)
From Coq Require Import String.
From OCI Require Export Base.Outcome Model.Errors.
From OCI Require Import Proofs.Errors.

(* ---------------------------------------------------------------- inputs *)

(* the error values the property quantifies over: a standard value or a custom coded error or
   an uncoded error, wrapped any number of times by fmt %w or by the HTTP-status wrapper *)
Inductive serr :=
  | EStd (t : std)
  | EWire (w : werr)
  | EWrap (p : bytes) (e : serr)
  | EHttp (st : Z) (e : serr)
  | EHttpNil (st : Z)
  | EPlain (m : bytes)
  (* values of types that are not the library's (harness/cmd/c07/own.go): a type conforming to
     ociregistry.Error (Code, Detail; Error() and Is in the registry convention the library's
     WireError follows), one conforming to ociregistry.HTTPError around an inner error or nil,
     one value conforming to both.  For errors.Is / errors.As by interface / Error() they are
     the library's values; errors.As to the concrete *WireError does not find them. *)
  | EOwn (w : werr)
  | EOwnHttp (st : Z) (e : serr)
  | EOwnHttpNil (st : Z)
  | EOwnBoth (st : Z) (w : werr).

Fixpoint to_gerr (e : serr) : gerr :=
  match e with
  | EStd t => std_err t
  | EWire w => Wire w
  | EWrap p e' => Wrap p (to_gerr e')
  | EHttp st e' => Http st (Some (to_gerr e')) false
  | EHttpNil st => Http st None false
  | EPlain m => Plain m
  | EOwn w => Wire w
  | EOwnHttp st e' => Http st (Some (to_gerr e')) false
  | EOwnHttpNil st => Http st None false
  | EOwnBoth st w => Http st (Some (Wire w)) false
  end.

(* errors.As(err, &we) with we of the concrete type *WireError, on the original value: the
   Message field a caller can read.  Own types are not found. *)
Fixpoint smsg (e : serr) : option bytes :=
  match e with
  | EStd t => Some (std_msg t)
  | EWire w => Some (w_msg w)
  | EWrap _ e' | EHttp _ e' | EOwnHttp _ e' => smsg e'
  | EHttpNil _ | EOwnHttpNil _ | EPlain _ | EOwn _ | EOwnBoth _ _ => None
  end.

(* carriers: the client call sequence + the point of the innermost backend that fails
   (harness/cmd/c07/carriers.go) *)
Inductive carrier :=
  | CGetBlob | CGetBlobRange | CGetManifest | CGetTag
  | CResolveBlob | CResolveManifest | CResolveTag
  | CPushBlobStart | CPushBlobResume | CPushBlobWrite | CPushBlobCommit | CPushBlobChunked
  | CResumeInfo | CPatchResume | CPatchWrite | CPatchClose
  | CCommitResume | CCommitWrite | CCommitCommit
  | CMountBlob | CPushManifest | CDeleteBlob | CDeleteManifest | CDeleteTag
  | CRepositories | CTags | CReferrers
  (* the same listings failing on a page after the first (the client's pager loop) *)
  | CRepositoriesLater | CTagsLater
  (* ... and failing after the backend's iterator has yielded an item *)
  | CRepositoriesMid | CTagsMid | CReferrersMid
  (* GetBlobRange(0, -1), which the client turns into GetBlob, and GetBlobRange(1, -1) *)
  | CGetBlobRangeAll | CGetBlobRangeOpen
  (* PushBlobChunkedResume(-1) succeeds (upload-status GET), then Commit / Write fails *)
  | CInfoCommit | CInfoPatchWrite
  (* follow-up and preliminary requests that only some server configurations provoke:
     - GetTag of a manifest above the client's in-memory threshold from servers that omit the
       digest header: the GET succeeds, the client's follow-up HEAD (ResolveTag) fails;
     - GetBlob / GetBlobRange from servers that redirect blob downloads: the handler's
       preliminary ResolveBlob fails (below the outermost level that is a HEAD request);
       the ...1 carriers are the same call through one hop only (no HEAD involved) *)
  | CGetTagLookup | CGetBlobResolve | CGetBlobRangeResolve
  | CGetBlobResolve1 | CGetBlobRangeResolve1.

(* the server configuration of the chain (harness/cmd/c07/chain.go); the model does not depend
   on it: that is the property's claim *)
Inductive config := KDefault | KQuirks | KAuth.

(* every level is a HEAD request *)
Definition carrier_head (c : carrier) : bool :=
  match c with CResolveBlob | CResolveManifest | CResolveTag => true | _ => false end.

(* some levels are HEAD requests, the others carry a body *)
Definition carrier_mixed (c : carrier) : bool :=
  match c with CGetTagLookup | CGetBlobResolve | CGetBlobRangeResolve => true | _ => false end.

Definition has_heads (c : carrier) : bool := carrier_head c || carrier_mixed c.

(* is the request that carries the error at a level a HEAD?  first = the level next to the
   backend, outer = the level the caller talks to *)
Definition level_head (c : carrier) (first outer : bool) : bool :=
  match c with
  | CGetTagLookup => first
  | CGetBlobResolve | CGetBlobRangeResolve => negb outer
  | _ => carrier_head c
  end.

(* texts of the wrapping calls in ociserver/writer.go and ociclient/writer.go *)
Definition t_copy_put : bytes := s "failed to copy data to *main.scriptWriter: ".
Definition t_copy_patch : bytes := s "cannot copy blob data: ".
Definition t_close : bytes := s "cannot close BlobWriter: ".
Definition t_commit : bytes := s "cannot flush data before commit: ".
Definition t_recover : bytes := s "cannot recover chunk offset: ".

(* what the handler at level j (1 = next to the backend) adds before the error exit:
   handleBlobCompleteUpload wraps an io.Copy failure, handleBlobUploadChunk wraps an io.Copy
   failure and a Close failure; above level 1 the backend is an ociclient whose BlobWriter
   buffers the copy and fails in Close (PATCH) or Commit (PUT, returned as is). *)
Definition swrap (c : carrier) (first : bool) : wrap :=
  if first then
    match c with
    | CPushBlobWrite | CCommitWrite => WW t_copy_put
    | CPatchWrite | CInfoPatchWrite => WW t_copy_patch
    | CPatchClose => WW t_close
    | _ => WNone
    end
  else
    match c with
    | CPatchResume | CPatchWrite | CPatchClose | CInfoPatchWrite => WW t_close
    | _ => WNone
    end.

(* what the client method at a level adds to makeError's result: the outermost method is the
   carrier's own; below it the handler of the next level called PushBlobChunkedResume + Commit
   (closing PUT), PushBlobChunkedResume(-1) (upload info) or Close (PATCH). *)
Definition cwrap (c : carrier) (outer : bool) : wrap :=
  match c with
  | CResumeInfo => WW t_recover
  | CCommitResume | CCommitWrite | CCommitCommit | CInfoCommit => WW t_commit
  | CPushBlobResume | CPushBlobWrite | CPushBlobCommit => if outer then WNone else WW t_commit
  | _ => WNone
  end.

Fixpoint path_from (c : carrier) (first : bool) (lens : list Z) : list hopspec :=
  match lens with
  | [] => []
  | n :: r =>
      let outer := match r with [] => true | _ => false end in
      {| h_head := level_head c first outer; h_swrap := swrap c first;
         h_cwrap := cwrap c outer; h_len := n |}
      :: path_from c false r
  end.

(* the hops of one call, level 1 first; one observed body length per level *)
Definition path (c : carrier) (lens : list Z) : list hopspec := path_from c true lens.

(* some handler or client method on the path adds a text prefix *)
Definition opwrap (c : carrier) : bool :=
  match c with
  | CPushBlobResume | CPushBlobWrite | CPushBlobCommit | CResumeInfo
  | CPatchResume | CPatchWrite | CPatchClose | CCommitResume | CCommitWrite | CCommitCommit
  | CInfoCommit | CInfoPatchWrite => true
  | _ => false
  end.

(* ---------------------------------------------------------------- observations *)

(* what a caller can see of an error value *)
Record view := {
  v_is : list bool;            (* errors.Is against the 15 values, in all_std order *)
  v_status : option Z;         (* errors.As HTTPError: StatusCode *)
  v_resp : bool;               (* ... Response() != nil *)
  v_code : option bytes;       (* errors.As Error: Code *)
  v_detail : option bytes;     (* ... Detail, canonical JSON; None when empty *)
  v_msg : option bytes;        (* errors.As *WireError: Message *)
  v_text : bytes               (* Error() *)
}.

(* compact form of v_is in the case files: bit i of the mask is the answer for the i-th value *)
Definition isbits (m : N) : list bool :=
  map (N.testbit m) [0; 1; 2; 3; 4; 5; 6; 7; 8; 9; 10; 11; 12; 13; 14]%N.

Record callrec := {
  o_lens : list Z;             (* body length of the error response at each level *)
  o_wstatus : Z;               (* the outermost server's response: status, code, message, detail *)
  o_wcode : bytes;
  o_wmsg : bytes;
  o_wdetail : option bytes;
  o_view : view                (* the error the outermost client returned *)
}.

Inductive callobs :=
  | OCall (o : callrec)
  | OBad (what : bytes).       (* no error, panic, unexpected response *)

Inductive field := FStatus | FIs | FDetail | FMessage | FHead.

Record case := {
  c_err : serr;
  c_config : config;           (* the server options of the chain *)
  c_carrier : carrier;
  c_field : field;             (* the clause of the property this case is judged on *)
  c_v0 : view;                 (* the original error, observed directly *)
  c_calls : list callobs       (* call k goes through k hops, k = 1, 2, ... *)
}.

(* ---------------------------------------------------------------- the model's prediction *)

Definition sp := go_sprefix.
Definition cp := go_cprefix.

Fixpoint as_http_resp (e : gerr) : bool :=
  match e with
  | Wrap _ e' => as_http_resp e'
  | Http _ _ r => r
  | _ => false
  end.

Definition norm_detail (d : option bytes) : option bytes :=
  match d with Some [] => None | _ => d end.

Definition mview (e : gerr) : view :=
  {| v_is := map (is e) all_std;
     v_status := as_http e;
     v_resp := as_http_resp e;
     v_code := option_map w_code (as_err e);
     v_detail := match as_err e with Some w => norm_detail (w_detail w) | None => None end;
     v_msg := cmsg e;
     v_text := text sp cp e |}.

Definition bool_list_eqb := list_eqb Bool.eqb.
Definition optb_eqb := option_eqb beqb.
Definition optz_eqb := option_eqb Z.eqb.

Definition view_eqb (a b : view) : bool :=
  bool_list_eqb (v_is a) (v_is b) && optz_eqb (v_status a) (v_status b) &&
  Bool.eqb (v_resp a) (v_resp b) && optb_eqb (v_code a) (v_code b) &&
  optb_eqb (v_detail a) (v_detail b) && optb_eqb (v_msg a) (v_msg b) && beqb (v_text a) (v_text b).

(* the response the outermost server of the path writes *)
Fixpoint last_wire (p : list hopspec) (e : gerr) : wire :=
  match p with
  | [] => marshal_error sp cp e
  | [hs] => marshal_error sp cp (apply_wrap sp cp (h_swrap hs) e)
  | hs :: p' => last_wire p' (hop sp cp hs e)
  end.

Definition call_agrees (c : carrier) (e : gerr) (k : nat) (o : callobs) : bool :=
  match o with
  | OBad _ => false
  | OCall o =>
      let p := path c (o_lens o) in
      let w := last_wire p e in
      Nat.eqb (length (o_lens o)) k && negb (Nat.eqb k 0) &&
      is_ok (hops_r sp cp p e) &&
      Z.eqb (o_wstatus o) (r_status w) && beqb (o_wcode o) (w_code (r_err w)) &&
      beqb (o_wmsg o) (w_msg (r_err w)) && optb_eqb (o_wdetail o) (w_detail (r_err w)) &&
      view_eqb (o_view o) (mview (hops sp cp p e))
  end.

Fixpoint all_calls (f : nat -> callobs -> bool) (k : nat) (l : list callobs) : bool :=
  match l with
  | [] => true
  | o :: r => f k o && all_calls f (S k) r
  end.

Definition model_agrees_core (c : case) : bool :=
  let e := to_gerr (c_err c) in
  view_eqb (c_v0 c) (mview e) &&
  match c_calls c with [] => false | _ => true end &&
  all_calls (call_agrees (c_carrier c) e) 1 (c_calls c).

(* The original value may be of a type of the harness's own: what errors.As to the concrete
   *WireError finds on it is [smsg]; every other observable is that of the library value
   [to_gerr] maps it to. *)
Definition set_msg (v : view) (m : option bytes) : view :=
  {| v_is := v_is v; v_status := v_status v; v_resp := v_resp v; v_code := v_code v;
     v_detail := v_detail v; v_msg := m; v_text := v_text v |}.

Definition fix_v0 (c : case) : case :=
  {| c_err := c_err c; c_config := c_config c; c_carrier := c_carrier c; c_field := c_field c;
     c_v0 := set_msg (c_v0 c) (cmsg (to_gerr (c_err c))); c_calls := c_calls c |}.


(* ---------------------------------------------------------------- the specification *)

(* Written from the property text, on observations only (the caller's view of the original
   error, the caller's view after k hops, the status line of the outermost response):
     FStatus   the HTTP status is the specification's for the error's code, else the error's
               own status (MarshalError's documented default 500 when it has none), and it
               is the status the caller reads;
     FIs       errors.Is against the 15 standard values answers as on the original (and a
               non-empty code is still the code);
     FDetail   the detail JSON (canonical form) is the original's;
     FMessage  the message the caller finds after k hops is the one found after one hop;
     FHead     (boundary of the HEAD finding, not in the property text) a call whose path has
               a HEAD request answers errors.Is exactly as the documented status fallback
               does; the code is the fallback's (none, or UNKNOWN once a body-carrying hop
               has followed, for a status without a fallback).
   A carrier with HEAD requests at some levels only (carrier_mixed) is judged on FMessage from
   the first call in which a body-carrying hop follows the HEAD hops: every such call finds
   the same message. *)

(* the status the distribution specification assigns to each code (written out again here,
   independently of the model's table) *)
Definition spec_table : list (bytes * Z) :=
  [ (s "BLOB_UNKNOWN", 404); (s "BLOB_UPLOAD_INVALID", 416); (s "BLOB_UPLOAD_UNKNOWN", 404);
    (s "DIGEST_INVALID", 400); (s "MANIFEST_BLOB_UNKNOWN", 404); (s "MANIFEST_INVALID", 400);
    (s "MANIFEST_UNKNOWN", 404); (s "NAME_INVALID", 400); (s "NAME_UNKNOWN", 404);
    (s "SIZE_INVALID", 400); (s "UNAUTHORIZED", 401); (s "DENIED", 403); (s "UNSUPPORTED", 400);
    (s "TOOMANYREQUESTS", 429); (s "RANGE_INVALID", 416) ]%Z.

Definition expected_status (v0 : view) : Z :=
  let own := match v_status v0 with Some st => st | None => 500%Z end in
  match v_code v0 with
  | Some c => match lookup c spec_table with Some st => st | None => own end
  | None => own
  end.

Definition status_ok_call (v0 : view) (o : callrec) : bool :=
  optz_eqb (v_status (o_view o)) (Some (o_wstatus o)) && Z.eqb (o_wstatus o) (expected_status v0).

Definition is_ok_call (v0 : view) (o : callrec) : bool :=
  bool_list_eqb (v_is (o_view o)) (v_is v0) &&
  match v_code v0 with
  | Some (b :: r) => optb_eqb (v_code (o_view o)) (Some (b :: r))
  | _ => true
  end.

Definition detail_ok_call (v0 : view) (o : callrec) : bool :=
  optb_eqb (v_detail (o_view o)) (v_detail v0).

(* the message after the first hop *)
Definition first_msg (c : case) : option (option bytes) :=
  match c_calls c with OCall o :: _ => Some (v_msg (o_view o)) | _ => None end.

Definition message_ok_call (m1 : option bytes) (o : callrec) : bool :=
  optb_eqb (v_msg (o_view o)) m1.

(* HEAD responses have no body: the documented fallback is by status *)
Definition head_value (st : Z) : option bytes :=
  if Z.eqb st 404 then Some (s "NAME_UNKNOWN")
  else if Z.eqb st 401 then Some (s "UNAUTHORIZED")
  else if Z.eqb st 403 then Some (s "DENIED")
  else if Z.eqb st 429 then Some (s "TOOMANYREQUESTS")
  else if Z.eqb st 400 then Some (s "UNSUPPORTED")
  else None.

Definition head_is (st : Z) (t : std) : bool :=
  optb_eqb (head_value st) (Some (std_code t)) || (Z.eqb st 416 && std_eqb t SRangeInvalid).

(* which hops of a call through k levels are HEAD requests, level 1 first (carrier metadata) *)
Fixpoint heads_from (c : carrier) (first : bool) (k : nat) : list bool :=
  match k with
  | O => []
  | S k' => level_head c first (match k' with O => true | _ => false end) :: heads_from c false k'
  end.

Definition call_heads (c : carrier) (o : callrec) : list bool :=
  heads_from c true (length (o_lens o)).

(* the flags of the hops after the last HEAD hop (the whole list when there is none) *)
Fixpoint after_last_true (l : list bool) : list bool :=
  match l with
  | [] => []
  | b :: r => if existsb (fun x => x) r then after_last_true r else if b then r else b :: r
  end.

Definition has_head (c : carrier) (o : callrec) : bool := existsb (fun x => x) (call_heads c o).

(* a HEAD hop is on the path and body-carrying hops follow it *)
Definition body_after_head (c : carrier) (o : callrec) : bool :=
  has_head c o && match after_last_true (call_heads c o) with [] => false | _ => true end.

Definition head_ok_call (c : carrier) (o : callrec) : bool :=
  bool_list_eqb (v_is (o_view o)) (map (head_is (o_wstatus o)) all_std) &&
  optb_eqb (v_code (o_view o))
    (if body_after_head c o
     then Some (match head_value (o_wstatus o) with Some cd => cd | None => s "UNKNOWN" end)
     else head_value (o_wstatus o)).

(* mixed carriers: the message of the first call in which a body hop follows the HEAD hops *)
Definition is_body_after_head (c : carrier) (co : callobs) : bool :=
  match co with OCall o => body_after_head c o | OBad _ => false end.

Definition mixed_msg (c : case) : option (option bytes) :=
  match find (is_body_after_head (c_carrier c)) (c_calls c) with
  | Some (OCall o) => Some (v_msg (o_view o))
  | _ => None
  end.

Definition field_ok_call (c : case) (o : callobs) : bool :=
  match o with
  | OBad _ => false
  | OCall o =>
      match c_field c with
      | FStatus => status_ok_call (c_v0 c) o
      | FIs => is_ok_call (c_v0 c) o
      | FDetail => detail_ok_call (c_v0 c) o
      | FMessage =>
          if carrier_mixed (c_carrier c)
          then negb (body_after_head (c_carrier c) o) ||
               match mixed_msg c with Some m => message_ok_call m o | None => false end
          else match first_msg c with Some m1 => message_ok_call m1 o | None => false end
      | FHead => negb (has_head (c_carrier c) o) || head_ok_call (c_carrier c) o
      end
  end.

Definition obs_ok (c : case) : bool :=
  match c_calls c with [] => false | _ => true end &&
  forallb (field_ok_call c) (c_calls c).

(* ---------------------------------------------------------------- known findings *)

(* Each is computed from observations and the carrier only, exactly as the harness computes
   the tag "finding" (harness/cmd/c07/main.go). *)

(* some error response on the way was larger than the client's errorBodySizeLimit *)
Definition lens_ok (o : callrec) : bool := forallb (fun n => Z.leb n 8192) (o_lens o).
Definition oversize (c : case) : bool :=
  existsb (fun o => match o with OCall o => negb (lens_ok o) | OBad _ => false end) (c_calls c).

(* status 416 answers errors.Is(ErrRangeInvalid) by itself (httpError.Is): what the first
   response says about ErrRangeInvalid differs from the original's answer *)
Definition ambig416 (c : case) : bool :=
  match c_calls c with
  | OCall o :: _ =>
      negb (Bool.eqb (Z.eqb (o_wstatus o) 416 || beqb (o_wcode o) (s "RANGE_INVALID"))
                     (nth 14 (v_is (c_v0 c)) false))
  | _ => false
  end.

Inductive finding :=
  | KNone
  | KHeadIdentity      (* HEAD responses carry no body: code identity degrades to the status class *)
  | KHeadDetail        (* ... and the detail is lost *)
  | KOversize          (* error body above 8 KiB: the client drops code, detail and message *)
  | KIs416             (* status 416 and code RANGE_INVALID disagree *)
  | KUploadMessage.    (* upload carriers: handler / client text prefixes pile up per hop *)

Definition finding_of (c : case) : finding :=
  let head := has_heads (c_carrier c) in
  match c_field c with
  | FStatus => KNone
  | FHead => if carrier_mixed (c_carrier c) && oversize c then KOversize else KNone
  | FIs => if head then KHeadIdentity else if oversize c then KOversize
           else if ambig416 c then KIs416 else KNone
  | FDetail => if head then KHeadDetail else if oversize c then KOversize else KNone
  | FMessage => if carrier_head (c_carrier c) then KNone else if oversize c then KOversize
                else if opwrap (c_carrier c) then KUploadMessage else KNone
  end.

Definition known_case (c : case) : bool :=
  match finding_of c with KNone => false | _ => true end.


(* ---------------------------------------------------------------- text the client originates *)

(* When a response is above the client's limit the CLIENT originates an error text of its own
   (makeError's "error body too large").  That prose is not the backend's and the property does
   not fix it: in a call that has such a level, the three places it shows up in (Error() text,
   the *WireError message the caller finds, the message the next server writes) are not compared
   with the model's literal spelling; [stable] states what the property does say about it: once
   it is on the wire the caller finds exactly the wire message, the same at every further level
   (no accumulation), and it does not carry the oversize body along. *)
Definition set_prose (v : view) (m : option bytes) (t : bytes) : view :=
  {| v_is := v_is v; v_status := v_status v; v_resp := v_resp v; v_code := v_code v;
     v_detail := v_detail v; v_msg := m; v_text := t |}.

Definition scrub_call (C : carrier) (e : gerr) (co : callobs) : callobs :=
  match co with
  | OBad _ => co
  | OCall o =>
      if lens_ok o || carrier_head C then co
      else let p := path C (o_lens o) in
           let mv := mview (hops sp cp p e) in
           OCall {| o_lens := o_lens o; o_wstatus := o_wstatus o; o_wcode := o_wcode o;
                    o_wmsg := w_msg (r_err (last_wire p e)); o_wdetail := o_wdetail o;
                    o_view := set_prose (o_view o) (v_msg mv) (v_text mv) |}
  end.

Definition scrub_case (c : case) : case :=
  {| c_err := c_err c; c_config := c_config c; c_carrier := c_carrier c; c_field := c_field c;
     c_v0 := c_v0 c;
     c_calls := map (scrub_call (c_carrier c) (to_gerr (c_err c))) (c_calls c) |}.

(* 1-based index of the first level whose response is above the limit *)
Fixpoint first_big (lens : list Z) (i : nat) : option nat :=
  match lens with
  | [] => None
  | n :: r => if Z.ltb 8192 n then Some i else first_big r (S i)
  end.

(* a level above the first oversize one answered in this call *)
Definition past_big (co : callobs) : bool :=
  match co with
  | OCall o => match first_big (o_lens o) 1 with
               | Some j => Nat.ltb j (length (o_lens o))
               | None => false
               end
  | OBad _ => false
  end.

Definition stable (c : case) : bool :=
  opwrap (c_carrier c) || has_heads (c_carrier c) ||
  let past := filter past_big (c_calls c) in
  match past with
  | OCall o1 :: _ =>
      forallb (fun co => match co with
                         | OCall o => optb_eqb (v_msg (o_view o)) (Some (o_wmsg o)) &&
                                      beqb (o_wmsg o) (o_wmsg o1) &&
                                      Z.ltb (Z.of_nat (length (o_wmsg o))) 8192
                         | OBad _ => true
                         end) past
  | _ => true
  end.

Definition model_agrees (c : case) : bool :=
  optb_eqb (v_msg (c_v0 c)) (smsg (c_err c)) && stable c &&
  model_agrees_core (scrub_case (fix_v0 c)).

(* a case exercises its clause when the error crosses at least two hops and the clause has
   something to lose: a status that is not the default 500 (table row or own status), an
   errors.Is answer that is true, a detail, any message (every second hop has prefixes to
   strip), a carrier with HEAD requests on its path *)
Definition nontrivial (c : case) : bool :=
  Nat.leb 2 (length (c_calls c)) &&
  match c_field c with
  | FStatus => negb (Z.eqb (expected_status (c_v0 c)) 500)
  | FIs => existsb (fun b => b) (v_is (c_v0 c))
  | FDetail => match v_detail (c_v0 c) with Some _ => true | None => false end
  | FMessage => true
  | FHead => has_heads (c_carrier c)
  end.

Definition mismatches (cs : list case) : list (N * bool) :=
  bad_from 0 (fun c => if model_agrees c then None else Some (obs_ok c)) cs.
Definition bad_obs (cs : list case) : list (N * bool) :=
  bad_from 0 (fun c => if obs_ok c then None else Some (model_agrees c)) cs.

(* ================================================================ soundness of the check *)

(* ---------------------------------------------------------------- decoding the comparisons *)

Lemma option_eqb_eq {A} (eqb : A -> A -> bool) :
  (forall a b, eqb a b = true <-> a = b) ->
  forall a b, option_eqb eqb a b = true <-> a = b.
Proof.
  intros H [a|] [b|]; cbn; split; intros E; try discriminate; try reflexivity.
  - f_equal. now apply H.
  - injection E as ->. now apply H.
Qed.

Lemma optb_eqb_eq a b : optb_eqb a b = true <-> a = b.
Proof. apply option_eqb_eq, beqb_eq. Qed.
Lemma optz_eqb_eq a b : optz_eqb a b = true <-> a = b.
Proof. apply option_eqb_eq, Z.eqb_eq. Qed.
Lemma bool_list_eqb_eq a b : bool_list_eqb a b = true <-> a = b.
Proof. apply list_eqb_eq. intros x y. apply eqb_true_iff. Qed.

Lemma view_eqb_eq a b : view_eqb a b = true -> a = b.
Proof.
  unfold view_eqb. intros H.
  repeat (apply andb_true_iff in H as [H ?]).
  destruct a, b; cbn in *.
  apply bool_list_eqb_eq in H. apply optz_eqb_eq in H5. apply eqb_prop in H4.
  apply optb_eqb_eq in H3, H2, H1. apply beqb_eq in H0. now subst.
Qed.

(* ---------------------------------------------------------------- the paths the harness drives *)

Lemma swrap_nowv C f : nowv (swrap C f) = true.
Proof. destruct C, f; reflexivity. Qed.
Lemma cwrap_nowv C o : nowv (cwrap C o) = true.
Proof. destruct C, o; reflexivity. Qed.

Lemma opwrap_none C f o : opwrap C = false -> swrap C f = WNone /\ cwrap C o = WNone.
Proof. destruct C, f, o; cbn; intros H; try discriminate H; auto. Qed.

Lemma head_none C f o : carrier_head C = true -> swrap C f = WNone /\ cwrap C o = WNone.
Proof. destruct C, f, o; cbn; intros H; try discriminate H; auto. Qed.

Lemma heads_none C f o : has_heads C = true -> swrap C f = WNone /\ cwrap C o = WNone.
Proof. destruct C, f, o; cbn; intros H; try discriminate H; auto. Qed.

Lemma level_head_all C f o : carrier_head C = true -> level_head C f o = true.
Proof. destruct C; cbn; intros H; try discriminate H; reflexivity. Qed.

Lemma level_head_none C f o : has_heads C = false -> level_head C f o = false.
Proof. destruct C; cbn; intros H; try discriminate H; reflexivity. Qed.

Lemma head_not_mixed C : carrier_head C = true -> carrier_mixed C = false.
Proof. destruct C; cbn; intros H; try discriminate H; reflexivity. Qed.

Lemma path_from_length C f lens : length (path_from C f lens) = length lens.
Proof. revert f. induction lens as [|n r IH]; intros f; cbn; [reflexivity | now rewrite IH]. Qed.

Lemma path_from_nowv C f lens : forallb nowvspec (path_from C f lens) = true.
Proof.
  revert f. induction lens as [|n r IH]; intros f; cbn [path_from forallb]; [reflexivity|].
  rewrite IH, andb_true_r. unfold nowvspec. cbn [h_swrap h_cwrap].
  now rewrite swrap_nowv, cwrap_nowv.
Qed.

Definition fits (lens : list Z) : bool := forallb (fun n => Z.leb n 8192) lens.

Lemma path_from_body C f lens :
  has_heads C = false -> fits lens = true -> forallb bodyspec (path_from C f lens) = true.
Proof.
  intros Hh. revert f. induction lens as [|n r IH]; intros f; cbn [path_from forallb fits]; [reflexivity|].
  intros H. apply andb_true_iff in H as [H1 H2]. rewrite (IH _ H2), andb_true_r.
  unfold bodyspec. cbn [h_head h_len h_swrap h_cwrap].
  rewrite (level_head_none C _ _ Hh), swrap_nowv, cwrap_nowv. cbn. unfold error_body_size_limit. now rewrite H1.
Qed.

Lemma path_from_plain C f lens :
  has_heads C = false -> opwrap C = false -> fits lens = true ->
  forallb plainspec (path_from C f lens) = true.
Proof.
  intros Hh Ho. revert f. induction lens as [|n r IH]; intros f; cbn [path_from forallb fits]; [reflexivity|].
  intros H. apply andb_true_iff in H as [H1 H2]. rewrite (IH _ H2), andb_true_r.
  unfold plainspec. cbn [h_head h_len h_swrap h_cwrap].
  destruct (opwrap_none C f (match r with [] => true | _ => false end) Ho) as [-> ->].
  rewrite (level_head_none C _ _ Hh). cbn. unfold error_body_size_limit. now rewrite H1.
Qed.

Lemma path_from_head C f lens :
  carrier_head C = true -> forallb headspec (path_from C f lens) = true.
Proof.
  intros Hh. revert f. induction lens as [|n r IH]; intros f; cbn [path_from forallb]; [reflexivity|].
  rewrite IH, andb_true_r. unfold headspec. cbn [h_head h_swrap h_cwrap].
  destruct (head_none C f (match r with [] => true | _ => false end) Hh) as [-> ->].
  now rewrite (level_head_all C _ _ Hh).
Qed.

(* ---------------------------------------------------------------- paths with HEAD and body hops *)

(* a hop that is a HEAD request or carries a body that fits, and adds no text *)
Definition hpspec (hs : hopspec) : bool := headspec hs || plainspec hs.

(* the hops after the last HEAD hop (the whole path when there is none) *)
Fixpoint after_head (p : list hopspec) : list hopspec :=
  match p with
  | [] => []
  | hs :: l => if existsb h_head l then after_head l else if h_head hs then l else hs :: l
  end.

Lemma hpspec_nowv hs : hpspec hs = true -> nowvspec hs = true.
Proof.
  unfold hpspec. intros H. apply orb_true_iff in H as [H|H].
  - now apply headspec_nowv.
  - now apply bodyspec_nowv, plainspec_body.
Qed.

Lemma hpspec_head hs : hpspec hs = true -> h_head hs = true -> headspec hs = true.
Proof.
  unfold hpspec, plainspec. intros H Hh. rewrite Hh in H. cbn [negb andb] in H.
  now rewrite orb_false_r in H.
Qed.

Lemma hpspec_body hs : hpspec hs = true -> h_head hs = false -> plainspec hs = true.
Proof. unfold hpspec, headspec. intros H Hh. rewrite Hh in H. exact H. Qed.

Lemma nohead_plain l :
  forallb hpspec l = true -> existsb h_head l = false -> forallb plainspec l = true.
Proof.
  induction l as [|hs l IH]; cbn [forallb existsb]; [reflexivity|]. intros H E.
  apply andb_true_iff in H as [H1 H2]. apply orb_false_iff in E as [E1 E2].
  rewrite (hpspec_body hs H1 E1). now apply IH.
Qed.

Lemma after_head_plain p : forallb hpspec p = true -> forallb plainspec (after_head p) = true.
Proof.
  induction p as [|hs l IH]; cbn [after_head forallb]; [reflexivity|]. intros H.
  apply andb_true_iff in H as [H1 H2].
  destruct (existsb h_head l) eqn:El; [now apply IH|].
  destruct (h_head hs) eqn:Eh; [now apply nohead_plain|].
  cbn [forallb]. rewrite (hpspec_body hs H1 Eh). now apply nohead_plain.
Qed.

Section MixedPaths.
  Variable sprefix : Z -> bytes.
  Variable cprefix : bytes -> bytes.

  Lemma head_result_hop hs e :
    nowvspec hs = true -> head_result (hop sprefix cprefix hs e) = head_result e.
  Proof. intros H. unfold head_result. now rewrite (status_preserved_hop sprefix cprefix) by assumption. Qed.

  (* once an error has crossed a HEAD hop, what arrives is what the status fallback gives,
     carried through the hops that follow the last HEAD hop *)
  Lemma hops_after_head p e :
    forallb hpspec p = true -> existsb h_head p = true ->
    hops sprefix cprefix p e = hops sprefix cprefix (after_head p) (head_result e).
  Proof.
    revert e. induction p as [|hs l IH]; intros e H E; [discriminate E|].
    cbn [forallb existsb] in H, E. apply andb_true_iff in H as [H1 H2].
    cbn [after_head hops]. destruct (existsb h_head l) eqn:El.
    - rewrite IH by auto. now rewrite head_result_hop by now apply hpspec_nowv.
    - rewrite orb_false_r in E. rewrite E.
      now rewrite (hop_headspec sprefix cprefix) by now apply hpspec_head.
  Qed.
End MixedPaths.

Lemma head_result_single e : single (head_result e) = true.
Proof. unfold head_result. destruct (head_map (marshal_status e)) as [t|]; reflexivity. Qed.

Lemma head_result_range_clean e : range_clean (head_result e) = true.
Proof.
  unfold range_clean. rewrite (is_head_result sp cp), (head_result_status sp cp).
  unfold is_head, is_range, head_result, marshal_code.
  destruct (head_map (marshal_status e)) as [u|]; cbn [option_map as_err std_err std_werr w_code].
  - destruct (std_code u) eqn:Eu; [now apply std_code_not_empty in Eu|]. rewrite <- Eu.
    rewrite std_code_beqb.
    destruct (std_eqb SRangeInvalid u), (Z.eqb (marshal_status e) 416); reflexivity.
  - destruct (Z.eqb (marshal_status e) 416); reflexivity.
Qed.

(* the statement of Props C07_head_then_body *)
Lemma head_then_body : forall sprefix cprefix p e,
  forallb hpspec p = true -> existsb h_head p = true ->
  hops sprefix cprefix p e = hops sprefix cprefix (after_head p) (head_result e) /\
  forallb plainspec (after_head p) = true /\
  marshal_status (hops sprefix cprefix p e) = marshal_status e /\
  forall t, is (hops sprefix cprefix p e) t = is_head (marshal_status e) t.
Proof.
  intros sp' cp' p e Hp Hh.
  pose proof (hops_after_head sp' cp' p e Hp Hh) as E.
  pose proof (after_head_plain p Hp) as Hpl.
  split; [exact E|]. split; [exact Hpl|]. split.
  - apply status_preserved. clear -Hp. induction p as [|hs l IH]; [reflexivity|].
    cbn [forallb] in *. apply andb_true_iff in Hp as [H1 H2].
    now rewrite (hpspec_nowv hs H1), IH.
  - intros t. rewrite E. destruct (after_head p) as [|b bs].
    + cbn [hops]. exact (is_head_result sp' cp' e t).
    + rewrite is_preserved_hops.
      * exact (is_head_result sp' cp' e t).
      * now apply forallb_plain_body.
      * apply head_result_single.
      * intros _. apply head_result_range_clean.
Qed.

Lemma path_from_hp C f lens :
  has_heads C = true -> carrier_head C = true \/ fits lens = true ->
  forallb hpspec (path_from C f lens) = true.
Proof.
  intros Hh. revert f. induction lens as [|n r IH]; intros f Hd; cbn [path_from forallb]; [reflexivity|].
  rewrite IH, andb_true_r.
  2:{ destruct Hd as [Hd|Hd]; [now left|right]. cbn [fits forallb] in Hd. now apply andb_true_iff in Hd as [_ Hd]. }
  unfold hpspec, headspec, plainspec. cbn [h_head h_len h_swrap h_cwrap].
  destruct (heads_none C f (match r with [] => true | _ => false end) Hh) as [-> ->].
  destruct (level_head C f _) eqn:El; [reflexivity|]. cbn.
  destruct Hd as [Hd|Hd]; [now rewrite (level_head_all C _ _ Hd) in El|].
  cbn [fits forallb] in Hd. apply andb_true_iff in Hd as [Hd _].
  unfold error_body_size_limit. now rewrite Hd.
Qed.

(* the spec's HEAD flags are those of the path *)
Lemma path_heads C f lens : map h_head (path_from C f lens) = heads_from C f (length lens).
Proof.
  revert f. induction lens as [|n r IH]; intros f; cbn [path_from map heads_from length]; [reflexivity|].
  rewrite IH. cbn [h_head]. f_equal. destruct r; reflexivity.
Qed.

Lemma existsb_id_map (l : list hopspec) : existsb (fun x => x) (map h_head l) = existsb h_head l.
Proof. induction l; cbn; congruence. Qed.

Lemma after_head_flags p : map h_head (after_head p) = after_last_true (map h_head p).
Proof.
  induction p as [|hs l IH]; cbn [after_head after_last_true map]; [reflexivity|].
  rewrite existsb_id_map. destruct (existsb h_head l); [exact IH|].
  destruct (h_head hs) eqn:Eh; cbn [map]; rewrite ?Eh; reflexivity.
Qed.

Lemma heads_from_none C :
  has_heads C = false -> forall f k, existsb (fun x => x) (heads_from C f k) = false.
Proof.
  intros H f k. revert f. induction k as [|k IH]; intros f; cbn [heads_from existsb]; [reflexivity|].
  now rewrite (level_head_none C _ _ H), IH.
Qed.

(* ---------------------------------------------------------------- the outermost response *)

Lemma last_wire_snoc l hs e :
  last_wire (l ++ [hs]) e = marshal_error sp cp (apply_wrap sp cp (h_swrap hs) (hops sp cp l e)).
Proof.
  revert e. induction l as [|a l IH]; intros e; [reflexivity|].
  cbn [app hops]. rewrite <- IH. destruct l; reflexivity.
Qed.

Lemma nonempty_snoc {A} (l : list A) : l <> [] -> exists l' a, l = l' ++ [a].
Proof. intros H. destruct (exists_last H) as [l' [a ->]]. eauto. Qed.

Lemma forallb_snoc {A} (f : A -> bool) l a :
  forallb f (l ++ [a]) = true -> forallb f l = true /\ f a = true.
Proof. rewrite forallb_app. cbn. rewrite andb_true_r. apply andb_true_iff. Qed.

(* ---------------------------------------------------------------- what the theorems say about a path *)

Lemma wire_status p e :
  p <> [] -> forallb nowvspec p = true ->
  r_status (last_wire p e) = marshal_status e /\ as_http (hops sp cp p e) = Some (marshal_status e).
Proof.
  intros Hne Hp. destruct (nonempty_snoc p Hne) as [l [hs ->]].
  apply forallb_snoc in Hp as [Hl Hhs].
  rewrite last_wire_snoc, hops_snoc. cbn [r_status marshal_error].
  rewrite (as_http_hop sp cp) by assumption.
  unfold nowvspec in Hhs. apply andb_true_iff in Hhs as [Hs _].
  rewrite (wrap_marshal_status sp cp) by assumption.
  now rewrite (status_preserved sp cp) by assumption.
Qed.

Lemma spec_table_is_model : spec_table = error_statuses.
Proof. reflexivity. Qed.

(* status_table, read on the caller's view of the original *)
Lemma status_spec e : marshal_status e = expected_status (mview e).
Proof.
  unfold expected_status, marshal_status, marshal_code, mview. cbn [v_status v_code].
  rewrite spec_table_is_model.
  destruct (as_err e) as [w|]; cbn [option_map]; [|reflexivity].
  destruct (w_code w); reflexivity.
Qed.

Lemma mview_detail e : v_detail (mview e) = marshal_detail e.
Proof.
  unfold mview, marshal_detail. cbn [v_detail]. destruct (as_err e) as [w|]; [|reflexivity].
  destruct (w_detail w) as [[|]|]; reflexivity.
Qed.

Lemma body_code_detail p e :
  p <> [] -> forallb bodyspec p = true ->
  v_code (mview (hops sp cp p e)) = Some (marshal_code e) /\
  v_detail (mview (hops sp cp p e)) = v_detail (mview e).
Proof.
  intros Hne Hp. rewrite !mview_detail. rewrite (detail_preserved sp cp) by assumption. split; [|reflexivity].
  destruct (nonempty_snoc p Hne) as [l [hs ->]]. apply forallb_snoc in Hp as [Hl Hhs].
  rewrite hops_snoc. unfold mview. cbn [v_code].
  destruct (as_err_hop sp cp hs (hops sp cp l e) Hhs) as [m ->]. cbn.
  now rewrite (code_preserved sp cp) by assumption.
Qed.

Lemma body_msg p e :
  p <> [] -> forallb plainspec p = true -> marshal_status e <> 0%Z ->
  v_msg (mview (hops sp cp p e)) = Some (wmsg sp cp e).
Proof.
  intros Hne Hp Hst. destruct (nonempty_snoc p Hne) as [l [hs ->]]. apply forallb_snoc in Hp as [Hl Hhs].
  rewrite hops_snoc. unfold mview. cbn [v_msg].
  rewrite (cmsg_hop sp cp) by now apply plainspec_body.
  destruct (plainspec_wraps hs Hhs) as [-> _]. cbn [apply_wrap].
  now rewrite (wmsg_fixpoint sp cp) by assumption.
Qed.

Lemma head_value_map st : head_value st = option_map std_code (head_map st).
Proof.
  unfold head_value, head_map.
  repeat match goal with |- context [Z.eqb st ?b] => destruct (Z.eqb st b) end; reflexivity.
Qed.

Lemma head_is_spec st t : head_is st t = is_head st t.
Proof.
  unfold head_is, is_head, is_range. rewrite head_value_map.
  destruct (head_map st) as [u|]; cbn [option_map optb_eqb option_eqb]; [|reflexivity].
  unfold optb_eqb. cbn [option_eqb]. now rewrite beqb_sym, std_code_beqb.
Qed.

Lemma head_view p e :
  p <> [] -> forallb headspec p = true ->
  mview (hops sp cp p e) = mview (head_result e).
Proof.
  intros Hne Hp. destruct p as [|hs l]; [contradiction|]. now rewrite (hops_head sp cp).
Qed.

Lemma single_to_gerr se : single (to_gerr se) = true.
Proof. unfold single. induction se; cbn in *; auto. Qed.

(* ---------------------------------------------------------------- one call *)

Record call_ok (C : carrier) (e : gerr) (k : nat) (o : callrec) : Prop := {
  ck_len : length (o_lens o) = k;
  ck_pos : k <> 0%nat;
  ck_run : is_ok (hops_r sp cp (path C (o_lens o)) e) = true;
  ck_wst : o_wstatus o = r_status (last_wire (path C (o_lens o)) e);
  ck_wcode : o_wcode o = w_code (r_err (last_wire (path C (o_lens o)) e));
  ck_view : o_view o = mview (hops sp cp (path C (o_lens o)) e)
}.

Lemma call_agrees_ok C e k o : call_agrees C e k (OCall o) = true -> call_ok C e k o.
Proof.
  unfold call_agrees. intros H.
  apply andb_true_iff in H as [H Hview]. apply andb_true_iff in H as [H _].
  apply andb_true_iff in H as [H _]. apply andb_true_iff in H as [H Hcode].
  apply andb_true_iff in H as [H Hst]. apply andb_true_iff in H as [H Hrun].
  apply andb_true_iff in H as [Hlen Hpos].
  constructor.
  - now apply Nat.eqb_eq.
  - apply negb_true_iff in Hpos. now apply Nat.eqb_neq.
  - assumption.
  - now apply Z.eqb_eq.
  - now apply beqb_eq.
  - now apply view_eqb_eq.
Qed.

Lemma all_calls_forallb (f : nat -> callobs -> bool) (g : callobs -> bool) :
  (forall k o, f k o = true -> g o = true) ->
  forall l k, all_calls f k l = true -> forallb g l = true.
Proof.
  intros H. induction l as [|o l IH]; intros k; cbn; [reflexivity|]. intros E.
  apply andb_true_iff in E as [E1 E2]. now rewrite (H _ _ E1), (IH _ E2).
Qed.

Section Call.
  Variables (C : carrier) (e : gerr) (k : nat) (o : callrec).
  Hypothesis Hok : call_ok C e k o.

  Let p := path C (o_lens o).

  Lemma p_ne : p <> [].
  Proof.
    intros E. apply (f_equal (@length hopspec)) in E. unfold p, path in E.
    rewrite path_from_length, (ck_len _ _ _ _ Hok) in E. now apply (ck_pos _ _ _ _ Hok).
  Qed.

  Lemma call_status_range : (100 <= marshal_status e <= 999)%Z.
  Proof.
    pose proof (ck_run _ _ _ _ Hok) as Hr. pose proof p_ne as Hne. fold p in Hr.
    destruct p as [|hs l] eqn:Ep; [contradiction|].
    destruct (hops_r sp cp (hs :: l) e) as [e'| | |] eqn:E; try discriminate.
    apply (hops_r_status sp cp hs l e e' E).
    assert (Hn : forallb nowvspec (hs :: l) = true) by (rewrite <- Ep; apply path_from_nowv).
    cbn in Hn. apply andb_true_iff in Hn as [Hn _]. unfold nowvspec in Hn.
    now apply andb_true_iff in Hn as [Hn _].
  Qed.

  Lemma call_status :
    o_wstatus o = marshal_status e /\ v_status (o_view o) = Some (marshal_status e).
  Proof.
    rewrite (ck_wst _ _ _ _ Hok), (ck_view _ _ _ _ Hok). fold p.
    destruct (wire_status p e p_ne (path_from_nowv C true (o_lens o))) as [H1 H2].
    split; [exact H1 | exact H2].
  Qed.

  Lemma call_status_ok : status_ok_call (mview e) o = true.
  Proof.
    unfold status_ok_call. destruct call_status as [H1 H2]. rewrite H2, H1.
    apply andb_true_iff. split; [now apply optz_eqb_eq | apply Z.eqb_eq, status_spec].
  Qed.

  (* body carriers whose responses fit *)
  Section Body.
    Hypothesis Hhead : has_heads C = false.
    Hypothesis Hfit : lens_ok o = true.

    Lemma p_body : forallb bodyspec p = true.
    Proof. now apply path_from_body. Qed.

    Lemma call_detail_ok : detail_ok_call (mview e) o = true.
    Proof.
      unfold detail_ok_call. rewrite (ck_view _ _ _ _ Hok). fold p.
      apply optb_eqb_eq. now apply body_code_detail; [apply p_ne | apply p_body].
    Qed.

    Lemma call_is_ok : single e = true -> range_clean e = true -> is_ok_call (mview e) o = true.
    Proof.
      intros Hs Hr. unfold is_ok_call. rewrite (ck_view _ _ _ _ Hok). fold p.
      apply andb_true_iff. split.
      - apply bool_list_eqb_eq. unfold mview. cbn [v_is]. apply map_ext. intros t.
        pose proof p_ne as Hne. pose proof p_body as Hb.
        destruct p as [|hs l]; [contradiction|]. now apply is_preserved_hops.
      - destruct (body_code_detail p e p_ne p_body) as [Hc _]. rewrite Hc.
        unfold mview at 1. cbn [v_code]. unfold marshal_code.
        destruct (as_err e) as [w|]; cbn [option_map]; [|reflexivity].
        destruct (w_code w) as [|b r]; [reflexivity|]. now apply optb_eqb_eq.
    Qed.

    Lemma call_msg : opwrap C = false -> v_msg (o_view o) = Some (wmsg sp cp e).
    Proof.
      intros Ho. rewrite (ck_view _ _ _ _ Hok). fold p. apply body_msg.
      - apply p_ne.
      - now apply path_from_plain.
      - pose proof call_status_range. lia.
    Qed.
  End Body.

  (* HEAD carriers *)
  Section Head.
    Hypothesis Hhead : carrier_head C = true.

    Lemma call_head_view : o_view o = mview (head_result e).
    Proof.
      rewrite (ck_view _ _ _ _ Hok). fold p. apply head_view; [apply p_ne | now apply path_from_head].
    Qed.

  End Head.

  (* carriers with HEAD requests on the path (at every level or at some), body hops that fit *)
  Section Heads.
    Hypothesis Hhp : forallb hpspec p = true.
    Hypothesis Hhas : has_head C o = true.

    Lemma p_has_head : existsb h_head p = true.
    Proof.
      unfold has_head, call_heads in Hhas. unfold p, path.
      now rewrite <- path_heads, existsb_id_map in Hhas.
    Qed.

    Lemma body_after_head_path :
      body_after_head C o = match after_head p with [] => false | _ => true end.
    Proof.
      unfold body_after_head. rewrite Hhas. cbn [andb]. unfold call_heads.
      rewrite <- (path_heads C true). fold (path C (o_lens o)). fold p.
      rewrite <- after_head_flags. now destruct (after_head p).
    Qed.

    Lemma call_heads_view : o_view o = mview (hops sp cp (after_head p) (head_result e)).
    Proof.
      rewrite (ck_view _ _ _ _ Hok). fold p.
      now rewrite (hops_after_head sp cp) by (try exact Hhp; apply p_has_head).
    Qed.

    Lemma call_head_ok : head_ok_call C o = true.
    Proof.
      unfold head_ok_call. destruct call_status as [-> _].
      rewrite call_heads_view, body_after_head_path.
      pose proof (after_head_plain p Hhp) as Hpl.
      destruct (after_head p) as [|b bs].
      - cbn [hops]. apply andb_true_iff. split.
        + apply bool_list_eqb_eq. unfold mview. cbn [v_is]. apply map_ext. intros t.
          now rewrite (is_head_result sp cp), head_is_spec.
        + apply optb_eqb_eq. unfold mview. cbn [v_code]. rewrite head_value_map.
          unfold head_result. cbn [as_err].
          destruct (head_map (marshal_status e)); reflexivity.
      - assert (Hb : forallb bodyspec (b :: bs) = true) by now apply forallb_plain_body.
        apply andb_true_iff. split.
        + apply bool_list_eqb_eq. unfold mview. cbn [v_is]. apply map_ext. intros t.
          rewrite (is_preserved_hops sp cp) by
            (try exact Hb; try apply head_result_single; intros _; apply head_result_range_clean).
          now rewrite (is_head_result sp cp), head_is_spec.
        + apply optb_eqb_eq.
          destruct (body_code_detail (b :: bs) (head_result e)) as [Hc _]; [discriminate | exact Hb |].
          rewrite Hc, head_value_map. f_equal.
          unfold head_result, marshal_code. cbn [as_err].
          destruct (head_map (marshal_status e)) as [u|]; cbn [option_map as_err std_err std_werr w_code]; [|reflexivity].
          destruct (std_code u) eqn:Eu; [now apply std_code_not_empty in Eu | reflexivity].
    Qed.

    Lemma call_mixed_msg :
      body_after_head C o = true -> v_msg (o_view o) = Some (wmsg sp cp (head_result e)).
    Proof.
      rewrite body_after_head_path, call_heads_view.
      pose proof (after_head_plain p Hhp) as Hpl.
      destruct (after_head p) as [|b bs]; [discriminate|]. intros _.
      apply body_msg; [discriminate | exact Hpl |].
      rewrite (head_result_status sp cp). pose proof call_status_range. lia.
    Qed.
  End Heads.
End Call.

(* ---------------------------------------------------------------- the whole case *)

Lemma all_calls_In (f : nat -> callobs -> bool) l k o :
  all_calls f k l = true -> In o l -> exists k', f k' o = true.
Proof.
  revert k. induction l as [|a l IH]; intros k; cbn; [contradiction|]. intros E [->|Hin].
  - apply andb_true_iff in E as [E _]. eauto.
  - apply andb_true_iff in E as [_ E]. eauto.
Qed.

Lemma existsb_false_In {A} (f : A -> bool) l a : existsb f l = false -> In a l -> f a = false.
Proof.
  intros H Hin. destruct (f a) eqn:E; [|reflexivity].
  assert (existsb f l = true) by (apply existsb_exists; eauto). congruence.
Qed.

Lemma wire_code p e :
  p <> [] -> forallb bodyspec p = true -> w_code (r_err (last_wire p e)) = marshal_code e.
Proof.
  intros Hne Hp. destruct (nonempty_snoc p Hne) as [l [hs ->]]. apply forallb_snoc in Hp as [Hl Hhs].
  rewrite last_wire_snoc. cbn [r_err marshal_error w_code].
  apply bodyspec_nowv in Hhs. unfold nowvspec in Hhs. apply andb_true_iff in Hhs as [Hs _].
  rewrite (wrap_marshal_code sp cp) by assumption. now apply (code_preserved sp cp).
Qed.

Lemma ambig416_clean C e k o :
  call_ok C e k o -> has_heads C = false -> lens_ok o = true ->
  negb (Bool.eqb (Z.eqb (o_wstatus o) 416 || beqb (o_wcode o) (s "RANGE_INVALID"))
                 (nth 14 (v_is (mview e)) false)) = false ->
  range_clean e = true.
Proof.
  intros Hok Hh Hfit H. apply negb_false_iff in H.
  destruct (call_status C e k o Hok) as [Hst _]. rewrite Hst in H.
  rewrite (ck_wcode _ _ _ _ Hok) in H.
  rewrite wire_code in H by (try apply (p_ne C e k o Hok); now apply path_from_body).
  change (nth 14 (v_is (mview e)) false) with (is e SRangeInvalid) in H.
  change (s "RANGE_INVALID") with (std_code SRangeInvalid) in H.
  unfold range_clean. rewrite beqb_sym in H.
  destruct (Z.eqb (marshal_status e) 416), (beqb (std_code SRangeInvalid) (marshal_code e)),
    (is e SRangeInvalid); cbn in *; congruence.
Qed.

Lemma corr_sound_core c : model_agrees_core c = true -> obs_ok c = true \/ known_case c = true.
Proof.
  destruct c as [se K C f v0 calls].
  unfold model_agrees_core, obs_ok, known_case, finding_of, oversize, ambig416, first_msg, mixed_msg, field_ok_call.
  cbn [c_err c_config c_carrier c_field c_v0 c_calls].
  set (e := to_gerr se). intros H.
  apply andb_true_iff in H as [H Hall]. apply andb_true_iff in H as [Hv0 Hne].
  apply view_eqb_eq in Hv0. subst v0. rewrite Hne. cbn [andb].
  assert (Hcalls : forall o, In o calls -> exists o', o = OCall o' /\ exists k, call_ok C e k o').
  { intros o Hin. destruct (all_calls_In _ _ _ _ Hall Hin) as [k Hk].
    destruct o as [o|b]; [|discriminate Hk]. exists o. split; [reflexivity|].
    exists k. now apply call_agrees_ok. }
  assert (Hsingle : single e = true) by apply single_to_gerr.
  (* a call of a carrier with HEAD requests whose body hops fit: its path *)
  assert (Hhp : forall o' k, call_ok C e k o' -> has_heads C = true ->
                carrier_head C = true \/ lens_ok o' = true ->
                forallb hpspec (path C (o_lens o')) = true).
  { intros o' k _ Hhs Hd. now apply path_from_hp. }
  destruct f.
  - (* status *)
    left. apply forallb_forall. intros o Hin. destruct (Hcalls o Hin) as [o' [-> [k Hk]]].
    now apply (call_status_ok C e k).
  - (* errors.Is *)
    destruct (has_heads C) eqn:Hh; [right; reflexivity|].
    destruct (existsb _ calls) eqn:Eo; [right; reflexivity|].
    assert (Hfit : forall o', In (OCall o') calls -> lens_ok o' = true).
    { intros o' Hin. apply (existsb_false_In _ _ _ Eo) in Hin. now apply negb_false_iff in Hin. }
    destruct calls as [|o1 rest]; [discriminate Hne|].
    destruct (Hcalls o1 (or_introl eq_refl)) as [o1' [-> [k1 Hk1]]].
    match goal with |- context [if ?b then KIs416 else KNone] => destruct b eqn:Ea end; [right; reflexivity|].
    left. assert (Hr : range_clean e = true).
    { apply (ambig416_clean C e k1 o1' Hk1 Hh); [apply Hfit; now left | exact Ea]. }
    apply forallb_forall. intros o Hin. destruct (Hcalls o Hin) as [o' [-> [k Hk]]].
    apply (call_is_ok C e k o' Hk Hh); auto.
  - (* detail *)
    destruct (has_heads C) eqn:Hh; [right; reflexivity|].
    destruct (existsb _ calls) eqn:Eo; [right; reflexivity|].
    left. apply forallb_forall. intros o Hin. destruct (Hcalls o Hin) as [o' [-> [k Hk]]].
    apply (call_detail_ok C e k o' Hk Hh).
    apply (existsb_false_In _ _ _ Eo) in Hin. now apply negb_false_iff in Hin.
  - (* message *)
    destruct calls as [|o1 rest]; [discriminate Hne|].
    destruct (Hcalls o1 (or_introl eq_refl)) as [o1' [-> [k1 Hk1]]].
    destruct (carrier_head C) eqn:Hh.
    + left. rewrite (head_not_mixed C Hh).
      apply forallb_forall. intros o Hin. destruct (Hcalls o Hin) as [o' [-> [k Hk]]].
      unfold message_ok_call. apply optb_eqb_eq.
      now rewrite (call_head_view C e k o' Hk Hh), (call_head_view C e k1 o1' Hk1 Hh).
    + destruct (existsb _ (OCall o1' :: rest)) eqn:Eo; [right; reflexivity|].
      destruct (opwrap C) eqn:Hop; [right; reflexivity|].
      left. assert (Hfit : forall o', In (OCall o') (OCall o1' :: rest) -> lens_ok o' = true).
      { intros o' Hin. apply (existsb_false_In _ _ _ Eo) in Hin. now apply negb_false_iff in Hin. }
      destruct (carrier_mixed C) eqn:Hm.
      * assert (Hhs : has_heads C = true) by (unfold has_heads; now rewrite Hm, orb_true_r).
        apply forallb_forall. intros o Hin. destruct (Hcalls o Hin) as [o' [-> [k Hk]]].
        destruct (body_after_head C o') eqn:Hb; [|reflexivity]. cbn [negb orb].
        assert (Hmsg : forall o2 k2, call_ok C e k2 o2 -> In (OCall o2) (OCall o1' :: rest) ->
                         body_after_head C o2 = true ->
                         v_msg (o_view o2) = Some (wmsg sp cp (head_result e))).
        { intros o2 k2 Hk2 Hin2 Hb2. apply (call_mixed_msg C e k2 o2 Hk2).
          - apply (Hhp o2 k2 Hk2 Hhs). right. now apply Hfit.
          - unfold body_after_head in Hb2. now apply andb_true_iff in Hb2 as [Hb2 _].
          - exact Hb2. }
        unfold mixed_msg. cbn [c_carrier c_calls].
        destruct (find (is_body_after_head C) (OCall o1' :: rest)) as [co|] eqn:Ef.
        -- apply find_some in Ef as [Hin2 Hq]. destruct co as [o2|]; [|discriminate Hq].
           cbn [is_body_after_head] in Hq.
           destruct (Hcalls _ Hin2) as [o2' [Heq [k2 Hk2]]]. injection Heq as <-.
           unfold message_ok_call. apply optb_eqb_eq.
           now rewrite (Hmsg o' k Hk Hin Hb), (Hmsg o2 k2 Hk2 Hin2 Hq).
        -- apply (find_none _ _ Ef) in Hin. cbn [is_body_after_head] in Hin. congruence.
      * assert (Hhs : has_heads C = false) by (unfold has_heads; now rewrite Hh, Hm).
        apply forallb_forall. intros o Hin. destruct (Hcalls o Hin) as [o' [-> [k Hk]]].
        unfold message_ok_call. apply optb_eqb_eq.
        rewrite (call_msg C e k o' Hk Hhs (Hfit _ Hin) Hop).
        now rewrite (call_msg C e k1 o1' Hk1 Hhs (Hfit _ (or_introl eq_refl)) Hop).
  - (* HEAD fallback *)
    destruct (carrier_mixed C && existsb _ calls) eqn:Em; [right; reflexivity|].
    left. apply forallb_forall. intros o Hin. destruct (Hcalls o Hin) as [o' [-> [k Hk]]].
    destruct (has_head C o') eqn:Hhas; [|reflexivity]. cbn [negb orb].
    destruct (has_heads C) eqn:Hhs.
    2:{ unfold has_head, call_heads in Hhas. now rewrite (heads_from_none C Hhs) in Hhas. }
    apply (call_head_ok C e k o' Hk); [|exact Hhas].
    apply (Hhp o' k Hk eq_refl).
    destruct (carrier_head C) eqn:Hh; [now left|right].
    unfold has_heads in Hhs. rewrite Hh in Hhs. cbn [orb] in Hhs. rewrite Hhs in Em. cbn [andb] in Em.
    apply (existsb_false_In _ _ _ Em) in Hin. now apply negb_false_iff in Hin.
Qed.

(* the specification and the findings never read the original's *WireError message *)
Lemma obs_ok_fix c : obs_ok (fix_v0 c) = obs_ok c.
Proof. destruct c as [se K C f v0 calls]. destruct f; reflexivity. Qed.

Lemma known_case_fix c : known_case (fix_v0 c) = known_case c.
Proof. destruct c as [se K C f v0 calls]. destruct f; reflexivity. Qed.

(* ... and, outside the message clause, none of the places client-originated text shows up in *)
Lemma scrub_lens C e o o' : scrub_call C e (OCall o) = OCall o' -> o_lens o' = o_lens o.
Proof.
  unfold scrub_call. destruct (lens_ok o || carrier_head C); intros H; injection H as <-; reflexivity.
Qed.

Lemma oversize_scrub c : oversize (scrub_case c) = oversize c.
Proof.
  destruct c as [se K C f v0 calls]. unfold oversize, scrub_case. cbn [c_calls c_carrier c_err].
  induction calls as [|co l IH]; [reflexivity|]. cbn [map existsb]. rewrite IH. f_equal.
  destruct co as [o|b]; [|reflexivity]. unfold scrub_call.
  destruct (lens_ok o || carrier_head C); reflexivity.
Qed.

Lemma ambig416_scrub c : ambig416 (scrub_case c) = ambig416 c.
Proof.
  destruct c as [se K C f v0 calls]. unfold ambig416, scrub_case. cbn [c_calls c_carrier c_err c_v0].
  destruct calls as [|[o|b] l]; try reflexivity. cbn [map]. unfold scrub_call.
  destruct (lens_ok o || carrier_head C); reflexivity.
Qed.

Lemma known_case_scrub c : known_case (scrub_case c) = known_case c.
Proof.
  unfold known_case, finding_of. rewrite oversize_scrub, ambig416_scrub.
  destruct c as [se K C f v0 calls]. reflexivity.
Qed.

Lemma scrub_id C e calls :
  carrier_head C = true \/
  existsb (fun o => match o with OCall o => negb (lens_ok o) | OBad _ => false end) calls = false ->
  map (scrub_call C e) calls = calls.
Proof.
  intros H. induction calls as [|co l IH]; [reflexivity|]. cbn [map]. rewrite IH.
  - f_equal. destruct co as [o|b]; [|reflexivity]. unfold scrub_call. destruct H as [->|H].
    + now rewrite orb_true_r.
    + cbn [existsb] in H. apply orb_false_iff in H as [H _]. apply negb_false_iff in H. now rewrite H.
  - destruct H as [H|H]; [now left|right]. cbn [existsb] in H. now apply orb_false_iff in H as [_ H].
Qed.

Lemma field_ok_scrub c co :
  c_field c <> FMessage ->
  field_ok_call (scrub_case c) (scrub_call (c_carrier c) (to_gerr (c_err c)) co) = field_ok_call c co.
Proof.
  destruct c as [se K C f v0 calls]. cbn [c_field c_carrier c_err]. intros Hf.
  destruct co as [o|b]; [|reflexivity]. unfold scrub_call.
  destruct (lens_ok o || carrier_head C); destruct f; try reflexivity; contradiction.
Qed.

Lemma forallb_map_ext {A B} (f : B -> bool) (g : A -> bool) (h : A -> B) l :
  (forall a, f (h a) = g a) -> forallb f (map h l) = forallb g l.
Proof. intros E. induction l as [|a l IH]; cbn; [reflexivity | now rewrite E, IH]. Qed.

Lemma obs_ok_scrub c :
  obs_ok (scrub_case c) = true \/ known_case (scrub_case c) = true ->
  obs_ok c = true \/ known_case c = true.
Proof.
  rewrite known_case_scrub. intros [H|H]; [|now right].
  destruct (known_case c) eqn:Ek; [now right|left].
  destruct (c_field c) eqn:Ef.
  1-3,5: (unfold obs_ok in *; cbn [scrub_case c_calls] in H;
    apply andb_true_iff in H as [Hne H]; apply andb_true_iff; split;
    [ now destruct (c_calls c)
    | rewrite <- H; symmetry; apply forallb_map_ext;
      intros co; apply field_ok_scrub; congruence ]).
  (* message: a case that is not a recorded finding has no oversize level, or is a HEAD carrier *)
  assert (Hid : scrub_case c = c).
  { destruct c as [se K C f v0 calls]. cbn [c_field] in Ef. subst f.
    unfold known_case, finding_of in Ek. cbn [c_field c_carrier] in Ek.
    unfold scrub_case. cbn [c_err c_config c_carrier c_field c_v0 c_calls]. f_equal.
    apply scrub_id. destruct (carrier_head C); [now left|right].
    unfold oversize in Ek. cbn [c_calls] in Ek. destruct (existsb _ calls); [discriminate Ek | reflexivity]. }
  now rewrite Hid in H.
Qed.

Lemma corr_sound c : model_agrees c = true -> obs_ok c = true \/ known_case c = true.
Proof.
  unfold model_agrees. intros H. apply andb_true_iff in H as [_ H].
  apply corr_sound_core, obs_ok_scrub in H. now rewrite obs_ok_fix, known_case_fix in H.
Qed.
