(* Correspondence for C07: what the harness observed through real ociserver / ociclient pairs
   (1..3 hops over loopback HTTP, every Interface method as the carrier) versus the model
   (Model/Errors.v) and versus the property's specification. *)
From Coq Require Import String.
From OCI Require Export Base.Outcome Model.Errors.
From OCI Require Import Proofs.Errors.

(* ---------------------------------------------------------------- inputs *)

(* the error values the property quantifies over: a standard value or a custom coded error or
   an uncoded error, wrapped any number of times by fmt %w or by the HTTP-status wrapper *)
Inductive serr :=
  | EStd (t : std)
  | EWire (w : werr)
  | EWrap (p : bytes) (e : serr)
  | EHttp (st : Z) (e : serr)
  | EHttpNil (st : Z)
  | EPlain (m : bytes).

Fixpoint to_gerr (e : serr) : gerr :=
  match e with
  | EStd t => std_err t
  | EWire w => Wire w
  | EWrap p e' => Wrap p (to_gerr e')
  | EHttp st e' => Http st (Some (to_gerr e')) false
  | EHttpNil st => Http st None false
  | EPlain m => Plain m
  end.

(* carriers: the client call sequence + the point of the innermost backend that fails
   (harness/cmd/c07/carriers.go) *)
Inductive carrier :=
  | CGetBlob | CGetBlobRange | CGetManifest | CGetTag
  | CResolveBlob | CResolveManifest | CResolveTag
  | CPushBlobStart | CPushBlobResume | CPushBlobWrite | CPushBlobCommit | CPushBlobChunked
  | CResumeInfo | CPatchResume | CPatchWrite | CPatchClose
  | CCommitResume | CCommitWrite | CCommitCommit
  | CMountBlob | CPushManifest | CDeleteBlob | CDeleteManifest | CDeleteTag
  | CRepositories | CTags | CReferrers.

Definition carrier_head (c : carrier) : bool :=
  match c with CResolveBlob | CResolveManifest | CResolveTag => true | _ => false end.

(* texts of the wrapping calls in ociserver/writer.go and ociclient/writer.go *)
Definition t_copy_put : bytes := s "failed to copy data to *main.scriptWriter: ".
Definition t_copy_patch : bytes := s "cannot copy blob data: ".
Definition t_close : bytes := s "cannot close BlobWriter: ".
Definition t_commit : bytes := s "cannot flush data before commit: ".
Definition t_recover : bytes := s "cannot recover chunk offset: ".

(* what the handler at level j (1 = next to the backend) adds before the error exit:
   handleBlobCompleteUpload wraps an io.Copy failure, handleBlobUploadChunk wraps an io.Copy
   failure and a Close failure; above level 1 the backend is an ociclient whose BlobWriter
   buffers the copy and fails in Close (PATCH) or Commit (PUT, returned as is). *)
Definition swrap (c : carrier) (first : bool) : wrap :=
  if first then
    match c with
    | CPushBlobWrite | CCommitWrite => WW t_copy_put
    | CPatchWrite => WW t_copy_patch
    | CPatchClose => WW t_close
    | _ => WNone
    end
  else
    match c with
    | CPatchResume | CPatchWrite | CPatchClose => WW t_close
    | _ => WNone
    end.

(* what the client method at a level adds to makeError's result: the outermost method is the
   carrier's own; below it the handler of the next level called PushBlobChunkedResume + Commit
   (closing PUT), PushBlobChunkedResume(-1) (upload info) or Close (PATCH). *)
Definition cwrap (c : carrier) (outer : bool) : wrap :=
  match c with
  | CResumeInfo => WW t_recover
  | CCommitResume | CCommitWrite | CCommitCommit => WW t_commit
  | CPushBlobResume | CPushBlobWrite | CPushBlobCommit => if outer then WNone else WW t_commit
  | _ => WNone
  end.

Fixpoint path_from (c : carrier) (first : bool) (lens : list Z) : list hopspec :=
  match lens with
  | [] => []
  | n :: r =>
      {| h_head := carrier_head c; h_swrap := swrap c first;
         h_cwrap := cwrap c (match r with [] => true | _ => false end); h_len := n |}
      :: path_from c false r
  end.

(* the hops of one call, level 1 first; one observed body length per level *)
Definition path (c : carrier) (lens : list Z) : list hopspec := path_from c true lens.

(* some handler or client method on the path adds a text prefix *)
Definition opwrap (c : carrier) : bool :=
  match c with
  | CPushBlobResume | CPushBlobWrite | CPushBlobCommit | CResumeInfo
  | CPatchResume | CPatchWrite | CPatchClose | CCommitResume | CCommitWrite | CCommitCommit => true
  | _ => false
  end.

(* ---------------------------------------------------------------- observations *)

(* what a caller can see of an error value *)
Record view := {
  v_is : list bool;            (* errors.Is against the 15 values, in all_std order *)
  v_status : option Z;         (* errors.As HTTPError: StatusCode *)
  v_resp : bool;               (* ... Response() != nil *)
  v_code : option bytes;       (* errors.As Error: Code *)
  v_detail : option bytes;     (* ... Detail, canonical JSON; None when empty *)
  v_msg : option bytes;        (* errors.As *WireError: Message *)
  v_text : bytes               (* Error() *)
}.

Record callrec := {
  o_lens : list Z;             (* body length of the error response at each level *)
  o_wstatus : Z;               (* the outermost server's response: status, code, message, detail *)
  o_wcode : bytes;
  o_wmsg : bytes;
  o_wdetail : option bytes;
  o_view : view                (* the error the outermost client returned *)
}.

Inductive callobs :=
  | OCall (o : callrec)
  | OBad (what : bytes).       (* no error, panic, unexpected response *)

Inductive field := FStatus | FIs | FDetail | FMessage | FHead.

Record case := {
  c_err : serr;
  c_carrier : carrier;
  c_field : field;             (* the clause of the property this case is judged on *)
  c_v0 : view;                 (* the original error, observed directly *)
  c_calls : list callobs       (* call k goes through k hops, k = 1, 2, ... *)
}.

(* ---------------------------------------------------------------- the model's prediction *)

Definition sp := go_sprefix.
Definition cp := go_cprefix.

Fixpoint as_http_resp (e : gerr) : bool :=
  match e with
  | Wrap _ e' => as_http_resp e'
  | Http _ _ r => r
  | _ => false
  end.

Definition norm_detail (d : option bytes) : option bytes :=
  match d with Some [] => None | _ => d end.

Definition mview (e : gerr) : view :=
  {| v_is := map (is e) all_std;
     v_status := as_http e;
     v_resp := as_http_resp e;
     v_code := option_map w_code (as_err e);
     v_detail := match as_err e with Some w => norm_detail (w_detail w) | None => None end;
     v_msg := cmsg e;
     v_text := text sp cp e |}.

Definition bool_list_eqb := list_eqb Bool.eqb.
Definition optb_eqb := option_eqb beqb.
Definition optz_eqb := option_eqb Z.eqb.

Definition view_eqb (a b : view) : bool :=
  bool_list_eqb (v_is a) (v_is b) && optz_eqb (v_status a) (v_status b) &&
  Bool.eqb (v_resp a) (v_resp b) && optb_eqb (v_code a) (v_code b) &&
  optb_eqb (v_detail a) (v_detail b) && optb_eqb (v_msg a) (v_msg b) && beqb (v_text a) (v_text b).

(* the response the outermost server of the path writes *)
Fixpoint last_wire (p : list hopspec) (e : gerr) : wire :=
  match p with
  | [] => marshal_error sp cp e
  | [hs] => marshal_error sp cp (apply_wrap sp cp (h_swrap hs) e)
  | hs :: p' => last_wire p' (hop sp cp hs e)
  end.

Definition call_agrees (c : carrier) (e : gerr) (k : nat) (o : callobs) : bool :=
  match o with
  | OBad _ => false
  | OCall o =>
      let p := path c (o_lens o) in
      let w := last_wire p e in
      Nat.eqb (length (o_lens o)) k && negb (Nat.eqb k 0) &&
      is_ok (hops_r sp cp p e) &&
      Z.eqb (o_wstatus o) (r_status w) && beqb (o_wcode o) (w_code (r_err w)) &&
      beqb (o_wmsg o) (w_msg (r_err w)) && optb_eqb (o_wdetail o) (w_detail (r_err w)) &&
      view_eqb (o_view o) (mview (hops sp cp p e))
  end.

Fixpoint all_calls (f : nat -> callobs -> bool) (k : nat) (l : list callobs) : bool :=
  match l with
  | [] => true
  | o :: r => f k o && all_calls f (S k) r
  end.

Definition model_agrees (c : case) : bool :=
  let e := to_gerr (c_err c) in
  view_eqb (c_v0 c) (mview e) &&
  match c_calls c with [] => false | _ => true end &&
  all_calls (call_agrees (c_carrier c) e) 1 (c_calls c).

(* ---------------------------------------------------------------- the specification *)

(* the status the distribution specification assigns to each code (written out again here,
   independently of the model's table) *)
Definition spec_table : list (bytes * Z) :=
  [ (s "BLOB_UNKNOWN", 404); (s "BLOB_UPLOAD_INVALID", 416); (s "BLOB_UPLOAD_UNKNOWN", 404);
    (s "DIGEST_INVALID", 400); (s "MANIFEST_BLOB_UNKNOWN", 404); (s "MANIFEST_INVALID", 400);
    (s "MANIFEST_UNKNOWN", 404); (s "NAME_INVALID", 400); (s "NAME_UNKNOWN", 404);
    (s "SIZE_INVALID", 400); (s "UNAUTHORIZED", 401); (s "DENIED", 403); (s "UNSUPPORTED", 400);
    (s "TOOMANYREQUESTS", 429); (s "RANGE_INVALID", 416) ]%Z.

(* the status an error must travel with: the specification's for its code, else its own, else 500 *)
Definition expected_status (v0 : view) : Z :=
  let own := match v_status v0 with Some st => st | None => 500%Z end in
  match v_code v0 with
  | Some c => match lookup c spec_table with Some st => st | None => own end
  | None => own
  end.

(* the client refuses error bodies above errorBodySizeLimit (8 KiB): identity, detail and
   message are only required of errors whose responses fit *)
Definition lens_ok (o : callrec) : bool := forallb (fun n => Z.leb n 8192) (o_lens o).

Definition status_ok_call (v0 : view) (o : callrec) : bool :=
  optz_eqb (v_status (o_view o)) (Some (o_wstatus o)) && Z.eqb (o_wstatus o) (expected_status v0).

Definition is_ok_call (v0 : view) (o : callrec) : bool :=
  negb (lens_ok o) ||
  (bool_list_eqb (v_is (o_view o)) (v_is v0) &&
   match v_code v0 with
   | Some (b :: r) => optb_eqb (v_code (o_view o)) (Some (b :: r)) && beqb (o_wcode o) (b :: r)
   | _ => true
   end).

Definition detail_ok_call (v0 : view) (o : callrec) : bool :=
  negb (lens_ok o) ||
  (optb_eqb (v_detail (o_view o)) (v_detail v0) && optb_eqb (o_wdetail o) (v_detail v0)).

(* the message on the wire is, from the first hop on, always the same, and it is what the
   caller finds in the error *)
Definition message_ok_call (m1 : bytes) (o : callrec) : bool :=
  negb (lens_ok o) ||
  (beqb (o_wmsg o) m1 && optb_eqb (v_msg (o_view o)) (Some (o_wmsg o))).

(* HEAD responses have no body: the documented fallback is the status class *)
Definition head_value (st : Z) : option bytes :=
  match st with
  | 404 => Some (s "NAME_UNKNOWN")
  | 401 => Some (s "UNAUTHORIZED")
  | 403 => Some (s "DENIED")
  | 429 => Some (s "TOOMANYREQUESTS")
  | 400 => Some (s "UNSUPPORTED")
  | _ => None
  end%Z.

Definition head_is (st : Z) (t : std) : bool :=
  optb_eqb (head_value st) (Some (std_code t)) || (Z.eqb st 416 && std_eqb t SRangeInvalid).

Definition head_ok_call (o : callrec) : bool :=
  bool_list_eqb (v_is (o_view o)) (map (head_is (o_wstatus o)) all_std) &&
  optb_eqb (v_code (o_view o)) (head_value (o_wstatus o)).

Definition first_wmsg (c : case) : option bytes :=
  match c_calls c with OCall o :: _ => Some (o_wmsg o) | _ => None end.

Definition field_ok_call (c : case) (o : callobs) : bool :=
  match o with
  | OBad _ => false
  | OCall o =>
      match c_field c with
      | FStatus => status_ok_call (c_v0 c) o
      | FIs => is_ok_call (c_v0 c) o
      | FDetail => detail_ok_call (c_v0 c) o
      | FMessage => match first_wmsg c with Some m1 => message_ok_call m1 o | None => false end
      | FHead => negb (carrier_head (c_carrier c)) || head_ok_call o
      end
  end.

Definition obs_ok (c : case) : bool :=
  match c_calls c with [] => false | _ => true end &&
  forallb (field_ok_call c) (c_calls c).

(* ---------------------------------------------------------------- known findings *)

(* status 416 answers errors.Is(ErrRangeInvalid) by itself (httpError.Is): the answer after a
   hop differs from the original's.  Computed from observations only, as the harness tag. *)
Definition ambig416 (c : case) : bool :=
  match c_calls c with
  | OCall o :: _ =>
      negb (Bool.eqb (Z.eqb (o_wstatus o) 416 || beqb (o_wcode o) (s "RANGE_INVALID"))
                     (nth 14 (v_is (c_v0 c)) false))
  | _ => false
  end.

Definition msg1_empty (c : case) : bool :=
  match first_wmsg c with Some [] => true | _ => false end.

Definition known_case (c : case) : bool :=
  match c_field c with
  | FStatus | FHead => false
  | FIs => carrier_head (c_carrier c) || ambig416 c
  | FDetail => carrier_head (c_carrier c)
  | FMessage => carrier_head (c_carrier c) || opwrap (c_carrier c) || msg1_empty c
  end.

(* a case exercises the property when an error really crosses at least two hops, or is
   wrapped, or carries a message that begins like a prefix the code adds *)
Definition nontrivial (c : case) : bool :=
  Nat.leb 2 (length (c_calls c)) ||
  match c_err c with EStd _ => false | _ => true end.

Definition mismatches (cs : list case) : list (N * bool) :=
  bad_from 0 (fun c => if model_agrees c then None else Some (obs_ok c)) cs.
Definition bad_obs (cs : list case) : list (N * bool) :=
  bad_from 0 (fun c => if obs_ok c then None else Some (model_agrees c)) cs.
