(* Correspondence for C03 (client + server transparency).

   One case = one history of Interface calls run twice by the harness: directly on a fresh
   ocimem ([c_direct]) and through a stack ociclient -> ociserver(opts) [-> ociclient ->
   ociserver(opts)] -> recording backend -> another fresh ocimem ([c_via]), with everything
   the recording backend received per operation ([c_trace]) and what both registries hold
   at the end ([c_snap]: the same reads made directly on both).

   [obs_ok]       the property itself (Model/Transparent.v): every answer through the stack
                  is [rel]ated to the direct answer, the backend received exactly the calls
                  of the table [expected_calls], both registries end in the same state.
   [model_agrees] (a) [old_agrees]: the direct answers are those of the ocimem model (Model/Mem.v),
                  the answers through the stack are [view] of them, the traces follow the table,
                  the backend's final state is the model's (the proof-side link to [rel]:
                  [corr_sound] is proved from this conjunct);
                  (b) [stack_agrees]: the answers through the stack, their HTTP statuses, the
                  backend's trace and its final state are those of the COMPOSED MODEL - the
                  ociclient model in front of the ociserver model (per hop the case's options
                  and page size) in front of the ocimem model (Model/Stack.v, Obs/StackRun.v,
                  run on the case by Obs/C03Run.v).
   [known_case]   the case deviates from the property only in the recorded shapes.

   A listing call (Repositories / Tags / Referrers) returns an iterator VALUE; the harness may
   iterate it several times on both sides.  A complete pass made again over the same value is a
   further entry of the history (the same operation once more: the iterator of the registry
   called directly yields the same listing again, so must the stack's, and the backend is asked
   from the caller's start point again).  A pass the caller stops at its k-th yield is recorded
   with the complete pass that follows it ([c_pre]): it must yield the first k yields of that
   complete pass on either side, and the backend must have been asked nothing (an iterator that
   remembers) or page requests that begin at the caller's start point and advance through the
   listing.

   Five forms of case ([CLong]: a long listing, names by family; [CErr]: a failing call probed at
   error-body sizes around the client's limit - both described where they are defined), among them:
   [CHist]  a history over ocimem (everything above).
   [CFree]  a history over another registry (the harness's algstore: ocimem's manifests and
            tags, blobs under sha256 / sha384 / sha512 digests): [obs_ok] is the same
            specification (it never looks at a model); the model side is the prediction of the
            theorems of Props/C03Stack.v (transparency over every conforming backend): no
            verdict is bad.
   [CBig]   one push of a content too large for a case file, and reads of it, directly and
            through the stack; contents are named by length and SHA-256.

   An operation that mentions an ill-formed name (repository, tag or digest, by the validity
   tables of the real ociref / go-digest code) is judged only on "fails through the stack, or
   same success / failure" and "the backend saw only calls with the caller's arguments". *)
From Coq Require Import String.
From OCI Require Export Model.Transparent.
From OCI Require Import Proofs.Transparent.
From OCI Require Export Obs.C03Run.

Record hist := {
  c_cfg : scfg;
  c_main : bool;                  (* informative: every name in the history is well-formed *)
  c_strict : bool;                (* report every failure of obs_ok (corpus cases of known findings) *)
  c_orc : oracles;
  c_ops : list op;
  c_direct : list oresult;
  c_via : list oresult;
  c_trace : list (list bcall);
  c_snap : list (op * oresult * oresult);
  (* for the composed model (Obs/C03Run.v) *)
  c_more : list (bytes * bytes * bytes);   (* (algorithm, content, hex) for sha384 / sha512 digests the history mentions *)
  c_bufsz : nat;                  (* the buffer the harness reads BlobReaders with *)
  c_vstat : list Z;               (* per operation: status of the HTTPError in the stack's error, 0 = none *)
  c_stack : bool;                 (* evaluate the composed model on this case *)
  c_pre : list (list prepass)     (* per operation: the passes over its iterator that the caller stopped, made before the complete one *)
}.

(* ---- one operation in its context ---- *)

Record sctx := {
  x_log : list event;             (* content of the repositories before the operation *)
  x_t : tstate;                   (* upload sessions before the operation *)
  x_op : op; x_d : oresult; x_v : oresult; x_tr : list bcall }.

(* an operation whose repository names, tags and digests are all well-formed, by the tables of
   ociref.IsValidRepository / IsValidTag / Digest.Validate the harness hands over *)
Definition names_wf (orc : oracles) (o : op) : bool :=
  forallb (orc_vr orc) (op_repos o)
  && match o with
     | GetBlob _ d | GetBlobRange _ d _ _ | GetManifest _ d | ResolveBlob _ d | ResolveManifest _ d
     | DeleteBlob _ d | DeleteManifest _ d | MountBlob _ _ d | Referrers _ d _ | WCommit _ d => orc_vd orc d
     | GetTag _ t | ResolveTag _ t | DeleteTag _ t => orc_vt orc t
     | PushManifest _ t _ _ => match t with [] => true | _ => orc_vt orc t end
     | PushBlob _ de _ => orc_vd orc (d_digest de)
     | _ => true
     end.

Fixpoint contexts (cfg : scfg) (st : list event * list (N * bytes)) (t : tstate)
         (ops : list op) (ds vs : list oresult) (trs : list (list bcall)) : option (list sctx) :=
  match ops, ds, vs, trs with
  | [], [], [], [] => Some []
  | o :: ops', d :: ds', v :: vs', tr :: trs' =>
      let x := {| x_log := fst st; x_t := t; x_op := o; x_d := d; x_v := v; x_tr := tr |} in
      match contexts cfg (log_step st o d) (snd (trace_step cfg t o v tr)) ops' ds' vs' trs' with
      | Some xs => Some (x :: xs)
      | None => None
      end
  | _, _, _, _ => None
  end.

Definition final_log (c : hist) : list event :=
  fst (fold_left (fun st od => log_step st (fst od) (snd od)) (combine (c_ops c) (c_direct c)) ([], [])).

Definition case_contexts (c : hist) : option (list sctx) :=
  contexts (c_cfg c) ([], []) tinit (c_ops c) (c_direct c) (c_via c) (c_trace c).

Inductive verdict := VOk | VKnown (f : finding) | VBad.

Definition is_vok (v : verdict) : bool := match v with VOk => true | _ => false end.
Definition not_vbad (v : verdict) : bool := match v with VBad => false | _ => true end.
Definition is_vknown (v : verdict) : bool := match v with VKnown _ => true | _ => false end.

Definition same_class (d v : oresult) : bool := Bool.eqb (is_success d) (is_success v).

Definition ill_ok (d v : oresult) : bool :=
  match v with OPanic => false | _ => same_class d v || negb (is_success v) end.

Definition wrepo_of (x : sctx) : bytes :=
  match sess_of (x_t x) (x_op x) (x_v x) with Some s => ts_repo s | None => [] end.

Definition opt_some {A} (o : option A) : bool := match o with Some _ => true | None => false end.

Definition judge (cfg : scfg) (main : bool) (x : sctx) : verdict :=
  if main then
    let r_ok := rel cfg (x_log x) (x_op x) (x_d x) (x_v x) in
    let t_ok := fst (trace_step cfg (x_t x) (x_op x) (x_v x) (x_tr x)) in
    let kr := match known_result (x_op x) (x_d x) (x_v x) with
              | Some f => Some f
              | None => known_extra cfg (x_t x) (x_op x) (x_d x) (x_v x)
              end in
    let kt := known_trace cfg (x_t x) (x_op x) (x_v x) (x_tr x) in
    if r_ok && t_ok then VOk
    else if (r_ok || opt_some kr) && (t_ok || opt_some kt) then
      match (if r_ok then None else kr), kt with
      | Some f, _ => VKnown f
      | None, Some f => VKnown f
      | None, None => VBad
      end
    else VBad
  else
    (* an ill-formed name may be refused anywhere on the way (and what the backend is asked
       then is outside the property: a mount from the empty name is an upload start, a
       "digest" that is a tag name is a tag) *)
    if ill_ok (x_d x) (x_v x) then VOk else VBad.

Definition judge_snap (l : list event) (e : op * oresult * oresult) : verdict :=
  let '(o, a, b) := e in
  if rel_direct l o a b then VOk
  else match known_shape o a b with Some f => VKnown f | None => VBad end.

(* ---- passes over an iterator that the caller stopped ---- *)

Definition is_iter (o : op) : bool :=
  match o with Repositories _ | Tags _ _ | Referrers _ _ _ => true | _ => false end.

(* what a consumer that returns false at its k-th yield sees of an iterator that yields [r] *)
Definition cut_obs (k : nat) (r : oresult) : oresult :=
  match r with
  | OList l e => if (k <=? length l)%nat then OList (firstn k l) None else r
  | ODescs l e => if (k <=? length l)%nat then ODescs (firstn k l) None else r
  | _ => r
  end.

(* the backend during a stopped pass: nothing at all (the iterator holds the listing), or calls
   of the operation's kind with the caller's repository whose start points are the caller's and
   then items of the listing, advancing *)
Definition pre_trace_ok (o : op) (v : oresult) (tr : list bcall) : bool :=
  match tr with
  | [] => true
  | _ => keys_ok (op_keys [] o) tr
         && match o with
            | Repositories _ | Tags _ _ => listing_collapsed o v tr
            | _ => true
            end
  end.

(* [d], [v]: what the complete pass that follows yielded directly and through the stack *)
Definition pre_ok (o : op) (d v : oresult) (p : prepass) : bool :=
  is_iter o && (1 <=? pp_k p)%nat
  && oresult_eqb (pp_direct p) (cut_obs (pp_k p) d)
  && oresult_eqb (pp_via p) (cut_obs (pp_k p) v)
  && pre_trace_ok o v (pp_trace p).

Fixpoint pre_checks (ops : list op) (ds vs : list oresult) (pres : list (list prepass)) : list bool :=
  match ops, ds, vs, pres with
  | [], [], [], [] => []
  | o :: ops', d :: ds', v :: vs', ps :: pres' => map (pre_ok o d v) ps ++ pre_checks ops' ds' vs' pres'
  | _, _, _, _ => [false]
  end.

Definition case_pre_checks (c : hist) : list bool := pre_checks (c_ops c) (c_direct c) (c_via c) (c_pre c).

Definition verdict_of_bool (b : bool) : verdict := if b then VOk else VBad.

Definition verdicts (c : hist) : list verdict :=
  match case_contexts c with
  | Some xs => map (fun x => judge (c_cfg c) (names_wf (c_orc c) (x_op x)) x) xs
               ++ map (judge_snap (final_log c)) (c_snap c)
               ++ map verdict_of_bool (case_pre_checks c)
  | None => [VBad]
  end.

Definition obs_ok_h (c : hist) : bool := forallb is_vok (verdicts c).
Definition known_case_h (c : hist) : bool := forallb not_vbad (verdicts c) && existsb is_vknown (verdicts c).

(* ---- the model side ---- *)

Definition snap_ops (c : hist) : list op := map (fun e => fst (fst e)) (c_snap c).
Definition snap_a (c : hist) : list oresult := map (fun e => snd (fst e)) (c_snap c).

Definition model_results (c : hist) : list result :=
  snd (run (mem_step (c_orc c) false) init (c_ops c ++ snap_ops c)).

Definition mjudge (cfg : scfg) (main : bool) (x : sctx) : bool :=
  if main then
    conforming (x_op x) (x_d x)
    && (via_eqb (x_op x) (x_v x) (view cfg (x_op x) (x_d x))
        || existsb (oresult_eqb (x_v x)) (view_alts (x_op x) (x_d x))
        || opt_some (known_extra cfg (x_t x) (x_op x) (x_d x) (x_v x))
        || (negb (refuses_lists cfg && is_listing (x_op x))
            && match x_op x with Repositories _ => false | _ => true end
            && slack (x_log x) (x_op x) (x_d x) (x_v x))
        || match x_op x, x_d x, x_v x with
           | Repositories _, OList ld None, OList lv None =>
               negb (refuses_lists cfg)
               && list_eqb beqb (filter (has_content (x_log x)) ld) (filter (has_content (x_log x)) lv)
           | _, _, _ => false
           end)
    && (fst (trace_step cfg (x_t x) (x_op x) (x_v x) (x_tr x))
        || match known_trace cfg (x_t x) (x_op x) (x_v x) (x_tr x) with Some _ => true | None => false end)
  else
    ill_ok (x_d x) (x_v x).

Definition mjudge_snap (l : list event) (e : op * oresult * oresult) : bool :=
  let '(o, a, b) := e in
  (well_shaped a && oresult_eqb b (snap_view o a)) || rel_direct l o a b.

Definition old_agrees (c : hist) : bool :=
  agrees_all (c_direct c ++ snap_a c) (model_results c)
  && match case_contexts c with
     | Some xs => forallb (fun x => mjudge (c_cfg c) (names_wf (c_orc c) (x_op x)) x) xs
     | None => false
     end
  && forallb (mjudge_snap (final_log c)) (c_snap c)
  && forallb (fun b => b) (case_pre_checks c).

(* ---- the composed model of the stack (Model/Stack.v through Obs/C03Run.v) ----

   [stack_agrees]: for every operation of the history the answer the real stack gave ([c_via],
   with the HTTP status in [c_vstat]) is the answer of ociclient's model in front of ociserver's
   model (per hop the case's option set and page size) in front of the ocimem model, the calls
   the recording backend received ([c_trace]) are the calls the registry behind the modelled
   servers receives, with all arguments, and the registry behind ends in the state instance B
   was read in ([c_snap]).  A stack with ocidebug is evaluated as the same stack without it. *)

(* operations whose answer / trace the composed model is not compared on: none.  (Until the
   repair of ociclient.PushBlob - content of known length is held to the descriptor's size before
   anything is sent - a PushBlob with a size different from the content length was left out:
   net/http noticed the wrong length while sending.)  harness/cmd/c03/cover.go mirrors this. *)
Definition stack_model_covers (c : hist) (o : op) : bool := true.

Definition stack_agrees (c : hist) : bool :=
  negb (c_stack c)
  || (let '(m, ms) := stack_run (c_cfg c) (c_orc c) (c_more c) (c_bufsz c) (c_ops c) (map (map pp_k) (c_pre c)) in
      steps_agree (map (stack_model_covers c) (c_ops c)) (c_via c) (c_vstat c) (c_trace c) (c_pre c) ms
      && final_agrees (c_orc c) m (c_snap c)).

Definition model_agrees_h (c : hist) : bool := old_agrees c && stack_agrees c.

(* ---- non-trivial cases ---- *)

Definition routing_words : list bytes :=
  [s "blobs"; s "manifests"; s "uploads"; s "tags"; s "referrers"; s "list"; s "v2"; s "_catalog"].

Fixpoint split_slash (a cur : bytes) : list bytes :=
  match a with
  | [] => [rev cur]
  | c :: a' => if N.eqb c 47 then rev cur :: split_slash a' [] else split_slash a' (c :: cur)
  end.

Definition has_routing_word (name : bytes) : bool :=
  existsb (fun seg => mem_bytes seg routing_words) (split_slash name []).

Definition op_names (o : op) : list bytes :=
  op_repos o ++ match o with
                | GetTag _ t | ResolveTag _ t | DeleteTag _ t | PushManifest _ t _ _ => [t]
                | _ => []
                end.

Definition opts_affect (so : sopts) (o : op) : bool :=
  match o with
  | Repositories _ | Tags _ _ => negb (so_max_page so =? 0)%Z || so_omit_link so
  | GetTag _ _ => so_omit_digest so
  | PushBlob _ _ _ => so_no_single_post so
  | _ => false
  end.

Definition big_manifest (o : op) : bool :=
  match o with PushManifest _ _ c _ => (in_mem_threshold <? blen c)%Z | _ => false end.

Fixpoint delete_after_mount (mounted : list bytes) (ops : list op) (ds : list oresult) : bool :=
  match ops, ds with
  | MountBlob _ _ dg :: ops', d :: ds' => delete_after_mount (if is_okr d then dg :: mounted else mounted) ops' ds'
  | DeleteBlob _ dg :: ops', d :: ds' => (is_okr d && mem_bytes dg mounted) || delete_after_mount mounted ops' ds'
  | _ :: ops', _ :: ds' => delete_after_mount mounted ops' ds'
  | _, _ => false
  end.

Definition nontrivial_h (c : hist) : bool :=
  existsb (fun o => existsb has_routing_word (op_names o)) (c_ops c)
  || existsb big_manifest (c_ops c)
  || existsb (fun o => opts_affect (k_opts1 (c_cfg c)) o
                       || (two_hops (c_cfg c) && opts_affect (k_opts2 (c_cfg c)) o)) (c_ops c)
  || delete_after_mount [] (c_ops c) (c_direct c).

(* ---- soundness of the correspondence ---- *)

Lemma via_eqb_rel cfg l o d v :
  conforming o d = true -> via_eqb o v (view cfg o d) = true ->
  rel cfg l o d v = true \/ known_result o d v <> None.
Proof.
  intros Hc Hv.
  destruct (view_rel cfg l o d Hc) as [H|H].
  - left. now apply (via_eqb_view_rel cfg l o d v _ Hv).
  - right. now apply (via_eqb_view_known o d v _ Hv).
Qed.

Lemma opt_some_ne {A} (o : option A) : o <> None -> opt_some o = true.
Proof. destruct o; [reflexivity|]. intros H. now elim H. Qed.

Lemma mjudge_not_bad cfg main x : mjudge cfg main x = true -> judge cfg main x <> VBad.
Proof.
  unfold mjudge, judge. destruct main.
  - intros H. apply andb_true_iff in H as [H Ht]. apply andb_true_iff in H as [Hc Hv].
    set (kr := match known_result (x_op x) (x_d x) (x_v x) with
               | Some f => Some f
               | None => known_extra cfg (x_t x) (x_op x) (x_d x) (x_v x)
               end) in *.
    assert (Hr : rel cfg (x_log x) (x_op x) (x_d x) (x_v x) = true \/ kr <> None).
    { assert (K : known_result (x_op x) (x_d x) (x_v x) <> None -> kr <> None).
      { subst kr. destruct (known_result (x_op x) (x_d x) (x_v x)); [discriminate | intros H; now elim H]. }
      apply orb_true_iff in Hv as [Hv|Hv]; [apply orb_true_iff in Hv as [Hv|Hv];
        [apply orb_true_iff in Hv as [Hv|Hv]; [apply orb_true_iff in Hv as [Hv|Hv]|]|]|].
      - destruct (via_eqb_rel cfg (x_log x) _ _ _ Hc Hv) as [?|?]; [now left | right; now apply K].
      - right. apply K. apply existsb_exists in Hv as [a [Hin He]]. apply oresult_eqb_eq in He. subst a.
        now apply view_alts_known.
      - right. subst kr. destruct (known_result (x_op x) (x_d x) (x_v x)); [discriminate|].
        destruct (known_extra cfg (x_t x) (x_op x) (x_d x) (x_v x)); [discriminate | discriminate Hv].
      - left. apply andb_true_iff in Hv as [Hv Hs]. apply andb_true_iff in Hv as [Hn Hrp].
        unfold rel, rel_gen. rewrite (proj1 (negb_true_iff _) Hn).
        destruct (x_op x); try discriminate; rewrite Hs; now rewrite orb_true_r.
      - left. destruct (x_op x); try discriminate. destruct (x_d x) as [|ld [|]| | |]; try discriminate.
        destruct (x_v x) as [|lv [|]| | |]; try discriminate.
        apply andb_true_iff in Hv as [Hn Hl]. unfold rel, rel_gen.
        rewrite (proj1 (negb_true_iff _) Hn). exact Hl. }
    set (t_ok := fst (trace_step cfg (x_t x) (x_op x) (x_v x) (x_tr x))) in *.
    set (kt := known_trace cfg (x_t x) (x_op x) (x_v x) (x_tr x)) in *.
    assert (Ht' : t_ok || opt_some kt = true).
    { apply orb_true_iff in Ht as [Ht|Ht]; [now rewrite Ht|]. destruct kt; [now rewrite orb_true_r | discriminate]. }
    destruct (rel cfg (x_log x) (x_op x) (x_d x) (x_v x)) eqn:Er; cbn [andb orb].
    + destruct t_ok; [discriminate|]. cbn [orb] in *. rewrite Ht'. destruct kt; [discriminate | discriminate Ht'].
    + destruct Hr as [Hr|Hr]; [discriminate|]. rewrite (opt_some_ne _ Hr), Ht'. cbn [andb].
      destruct kr; [discriminate | now elim Hr].
  - intros ->. discriminate.
Qed.

Lemma mjudge_snap_not_bad l e : mjudge_snap l e = true -> judge_snap l e <> VBad.
Proof.
  destruct e as [[o a] b]. unfold mjudge_snap, judge_snap. intros H.
  destruct (rel_direct l o a b) eqn:Er; [discriminate|]. rewrite orb_false_r in H.
  apply andb_true_iff in H as [Hw H].
  pose proof (snap_view_known l o a b Hw H Er) as K.
  destruct (known_shape o a b); [discriminate | now elim K].
Qed.

Lemma forallb_not_vbad_split l :
  forallb not_vbad l = true -> forallb is_vok l = true \/ (forallb not_vbad l && existsb is_vknown l = true).
Proof.
  intros H. destruct (forallb is_vok l) eqn:E; [now left|right]. rewrite H. cbn.
  induction l as [|v l IH]; [discriminate|]. cbn in *.
  apply andb_true_iff in H as [H1 H2]. destruct v; cbn in *; [|reflexivity|discriminate].
  rewrite (IH H2 E). reflexivity.
Qed.

Lemma old_sound c : old_agrees c = true -> obs_ok_h c = true \/ known_case_h c = true.
Proof.
  unfold old_agrees, obs_ok_h, known_case_h. intros H.
  apply andb_true_iff in H as [H Hp].
  apply andb_true_iff in H as [H Hs]. apply andb_true_iff in H as [_ Hx].
  apply forallb_not_vbad_split. unfold verdicts.
  destruct (case_contexts c) as [xs|]; [|discriminate].
  rewrite !forallb_app. apply andb_true_iff. split; [|apply andb_true_iff; split].
  3: { rewrite forallb_forall in Hp. apply forallb_forall. intros v Hin.
       apply in_map_iff in Hin as [b [<- Hin]]. now rewrite (Hp b Hin). }
  - rewrite forallb_forall in Hx. apply forallb_forall. intros v Hin.
    apply in_map_iff in Hin as [x [<- Hin]]. specialize (Hx x Hin).
    pose proof (mjudge_not_bad _ _ _ Hx). destruct (judge (c_cfg c) (names_wf (c_orc c) (x_op x)) x); try reflexivity. now elim H.
  - rewrite forallb_forall in Hs. apply forallb_forall. intros v Hin.
    apply in_map_iff in Hin as [e [<- Hin]]. specialize (Hs e Hin).
    pose proof (mjudge_snap_not_bad _ _ Hs). destruct (judge_snap (final_log c) e); try reflexivity. now elim H.
Qed.

(* the comparison with the composed model is an additional requirement on [model_agrees_h] *)
Lemma corr_sound_h c : model_agrees_h c = true -> obs_ok_h c = true \/ known_case_h c = true.
Proof.
  unfold model_agrees_h. intros H. apply andb_true_iff in H as [H _]. now apply old_sound.
Qed.

(* ---- contents too large for a case file ----

   One push of a content of up to tens of MiB (the sizes at which the client's in-memory
   threshold, a chunk size, a buffer or a body limit could cut something off) made twice -
   directly on a fresh ocimem and through a stack over another - followed by reads of it on
   both sides and by direct reads of both registries.  A content is named by its length and
   its SHA-256 as computed by the harness (harness/cmd/c03/big.go). *)

(* the answer of one call: success?, the OCI code of the error, the descriptor, SHA-256 and
   length of the bytes delivered (of nothing for a call that delivers none) *)
Record bigres := { bg_ok : bool; bg_code : ecode; bg_desc : desc; bg_sha : bytes; bg_len : Z }.

(* one call made on both sides; [bc_head]: a HEAD-based resolve *)
Record bigcall := { bc_head : bool; bc_direct : bigres; bc_via : bigres }.

(* a content handed over for storing: to PushManifest (kind 0: repository, tag, media type) or to
   an upload session (kind 1: repository, the digest committed; the content is everything
   written to the session) *)
Record bigpush := { bp_kind : N; bp_repo : bytes; bp_tag : bytes; bp_media : bytes; bp_digest : bytes;
                    bp_len : Z; bp_sha : bytes }.

Definition bigres_rel (head : bool) (d v : bigres) : bool :=
  Bool.eqb (bg_ok d) (bg_ok v)
  && (if bg_ok d
      then desc_eqb (bg_desc d) (bg_desc v) && beqb (bg_sha d) (bg_sha v) && (bg_len d =? bg_len v)%Z
      else code_rel head (bg_code d) (bg_code v)).

Definition bigres_eqb (a b : bigres) : bool :=
  Bool.eqb (bg_ok a) (bg_ok b)
  && (if bg_ok a
      then desc_eqb (bg_desc a) (bg_desc b) && beqb (bg_sha a) (bg_sha b) && (bg_len a =? bg_len b)%Z
      else ecode_eqb (bg_code a) (bg_code b)).

Definition bigcall_ok (c : bigcall) : bool := bigres_rel (bc_head c) (bc_direct c) (bc_via c).

Definition bigpush_eqb (a b : bigpush) : bool :=
  (bp_kind a =? bp_kind b)%N && beqb (bp_repo a) (bp_repo b) && beqb (bp_tag a) (bp_tag b)
  && beqb (bp_media a) (bp_media b) && beqb (bp_digest a) (bp_digest b)
  && (bp_len a =? bp_len b)%Z && beqb (bp_sha a) (bp_sha b).

(* the names a content arrived with are the caller's (whatever the content) *)
Definition bigpush_names (a b : bigpush) : bool :=
  (bp_kind a =? bp_kind b)%N && beqb (bp_repo a) (bp_repo b) && beqb (bp_tag a) (bp_tag b)
  && beqb (bp_media a) (bp_media b) && beqb (bp_digest a) (bp_digest b).

(* the specification: the push and every read answer alike on both sides (success / failure,
   code, descriptor, bytes); the backend was handed the caller's content, once, with the
   caller's names, when the push succeeded through the stack (only the caller's names when it
   failed); both registries read alike afterwards *)
Definition big_ok (want : bigpush) (push : bigcall) (got : list bigpush) (reads : list bigcall)
           (snap : list (bigres * bigres)) : bool :=
  bigcall_ok push
  && (if bg_ok (bc_via push) then list_eqb bigpush_eqb got [want] else forallb (bigpush_names want) got)
  && forallb bigcall_ok reads
  && forallb (fun ab => bigres_eqb (fst ab) (snd ab)) snap.

(* ---- long listings ----

   The server's built-in page cap (ociserver maxPageSize = 10000), the client's default page
   size (1000) and client page sizes above the cap only show on listings of more than ten
   thousand names.  Such a listing is not spelled out in the case file: it names FAMILIES

     fam pre w lo cnt  =  pre ++ the decimal numeral of i padded to w digits,  i = lo .. lo+cnt-1

   (the harness fills both registries with fmt.Sprintf("%s%0*d", pre, w, i); the same vocabulary
   as coq/Obs/C05.v) and what an iterator delivered as segments: runs of consecutive members of
   a family and literally written names.  These are plain functions producing plain lists; the
   specification sees nothing but the lists they compute. *)

Fixpoint dinc (d : list N) : list N :=
  match d with
  | [] => []
  | c :: d' => if (c =? 57)%N then 48%N :: dinc d' else N.succ c :: d'
  end.

Fixpoint digits_lsd (w : nat) (i : N) : list N :=
  match w with
  | O => []
  | S w' => (48 + i mod 10)%N :: digits_lsd w' (i / 10)%N
  end.

Fixpoint fam_from (pre : bytes) (d : list N) (cnt : nat) : list bytes :=
  match cnt with
  | O => []
  | S c => (pre ++ rev_append d []) :: fam_from pre (dinc d) c
  end.

Definition fam (pre : bytes) (w : nat) (lo cnt : N) : list bytes :=
  fam_from pre (digits_lsd w lo) (N.to_nat cnt).

Inductive seg := SFam (pre : bytes) (w : nat) (lo cnt : N) | SLit (x : bytes).

Definition expand (l : list seg) : list bytes :=
  flat_map (fun g => match g with SFam p w lo c => fam p w lo c | SLit x => [x] end) l.

(* what one complete pass over a listing iterator delivered: the names, the trailing error *)
Inductive lres := LList (l : list seg) (e : option ecode) | LPanic.

Definition lres_o (r : lres) : oresult :=
  match r with LList l e => OList (expand l) e | LPanic => OPanic end.

(* one complete pass over the iterator value, made on both sides: direct, through the stack,
   what the recording backend received meanwhile *)
Record lpass := { lp_direct : lres; lp_via : lres; lp_trace : list bcall }.

(* [lg_op]: Tags r start or Repositories start, called once per side; [lg_content]: the names
   the listing ranges over in both registries, in listing order (the tags of r; the
   repositories, every one of which holds a manifest - so that "unknown repository = empty
   repository" plays no part and the lists must be EQUAL) *)
Record longcase := { lg_cfg : scfg; lg_op : op; lg_content : list seg; lg_passes : list lpass }.

(* the specification of a history's listing operation ([rel] and [trace_step] of
   Model/Transparent.v) on a registry whose repositories all hold content: the same names in the
   same order and the same trailing error code - or the refusal the options document -, and the
   backend asked exactly the page requests of the table (one hop) / page requests from the
   caller's start point advancing through the listing (two hops) *)
Definition long_pass_ok (cfg : scfg) (o : op) (p : lpass) : bool :=
  let d := lres_o (lp_direct p) in
  let v := lres_o (lp_via p) in
  (if refuses_lists cfg then oresult_eqb v refused_answer else rel_plain false o d v)
  && fst (trace_step cfg tinit o v (lp_trace p)).

Definition long_ok (c : longcase) : bool :=
  is_listing (lg_op c)
  && match lg_passes c with [] => false | _ => true end
  && forallb (long_pass_ok (lg_cfg c) (lg_op c)) (lg_passes c).

Definition long_start (o : op) : bytes :=
  match o with Repositories st | Tags _ st => st | _ => [] end.

(* the model's side: ocimem lists the names after the start point in order (Model/Mem.v, the
   object of C02), and the stack hands them on (history-level transparency, Props/C03Stack.v) *)
Definition long_direct_ok (c : longcase) (p : lpass) : bool :=
  oresult_eqb (lres_o (lp_direct p)) (OList (filter (bltb (long_start (lg_op c))) (expand (lg_content c))) None).

Definition long_delivered (c : longcase) : nat :=
  fold_right (fun p n => Nat.max (length (via_list (lres_o (lp_via p)))) n) O (lg_passes c).

(* ---- error answers around the client's limit on error bodies ----

   ociclient reads at most errorBodySizeLimit = 8192 bytes of an error response (documented:
   the maximum allowed); a longer body is reported as an error without code (C07's recorded
   finding oversize-body).  One probe = one failing call made on both sides whose error answer,
   as it travelled over the wire of every hop, had the body sizes [ep_sizes] (measured by the
   harness at the servers, outermost first). *)

Inductive eans := EAok | EAerr (c : ecode) | EApanic.

Record eprobe := { ep_sizes : list Z; ep_direct : eans; ep_via : eans; ep_vstat : Z }.

Definition err_body_limit : Z := 8192.

Definition within_limit (p : eprobe) : bool := forallb (fun z => (z <=? err_body_limit)%Z) (ep_sizes p).

(* same failure, same code whenever every body fits the documented limit; beyond it the failure
   stays a failure that carries the direct code or none - none travels on as UNKNOWN through a
   further hop (MarshalError) - never another one *)
Definition code_lost (cv : ecode) : bool := ecode_eqb cv ENone || ecode_eqb cv UNKNOWN.

Definition eprobe_ok (p : eprobe) : bool :=
  match ep_direct p, ep_via p with
  | EAok, EAok => true
  | EAerr cd, EAerr cv =>
      if within_limit p then code_rel false cd cv
      else code_rel false cd cv || code_lost cv
  | _, _ => false
  end.

Definition eprobe_model (p : eprobe) : bool :=
  match ep_direct p, ep_via p with
  | EAerr cd, EAerr cv =>
      negb (ecode_eqb cd ENone)
      && match ep_sizes p with [] => false | _ => true end
      && (if within_limit p then ecode_eqb cd cv && (ep_vstat p =? status_class cd)%Z
          else code_lost cv || ecode_eqb cv cd)
  | _, _ => false
  end.

Inductive case :=
  | CHist (h : hist)
  | CFree (h : hist)
  (* The model's side of a big content is not an evaluation but the theorems of Props/C03Stack.v
     (per-method and history-level transparency of the composed model over ocimem's model, for
     contents of every length - C03_transparent_PushManifest_ok, C03_transparent_GetTag...,
     C03_mem_history_transparent, two hops): the push succeeds on ocimem and every answer through
     the stack is the direct one. *)
  | CBig (cfg : scfg) (want : bigpush) (push : bigcall) (got : list bigpush) (reads : list bigcall)
         (snap : list (bigres * bigres))
  (* a long listing (names by family); model side: ocimem's listing handed on unchanged *)
  | CLong (l : longcase)
  (* one carrier of an error answer ([carrier]: informative) probed at body sizes around the
     client's limit; model side: the code and the status of the code's table arrive whenever
     the body fits *)
  | CErr (cfg : scfg) (carrier : bytes) (probes : list eprobe).

Definition obs_ok (c : case) : bool :=
  match c with
  | CHist h | CFree h => obs_ok_h h
  | CBig _ want push got reads snap => big_ok want push got reads snap
  | CLong l => long_ok l
  | CErr _ _ probes => match probes with [] => false | _ => forallb eprobe_ok probes end
  end.

Definition known_case (c : case) : bool :=
  match c with
  | CHist h | CFree h => known_case_h h
  | CBig _ _ _ _ _ _ | CLong _ | CErr _ _ _ => false
  end.

Definition model_agrees (c : case) : bool :=
  match c with
  | CHist h => model_agrees_h h
  | CFree h => forallb not_vbad (verdicts h)
  | CBig _ want push got reads snap =>
      bg_ok (bc_direct push) && forallb (fun r => bg_ok (bc_direct r)) reads
      && big_ok want push got reads snap
  | CLong l => forallb (long_direct_ok l) (lg_passes l) && long_ok l
  | CErr _ _ probes => forallb eprobe_model probes && obs_ok c
  end.

(* a free-backend history says something when a content under a digest that is not a sha256
   one was read back through the stack; a big case when the push went through *)
Definition non_sha256 (d : bytes) : bool := negb (beqb (firstn 7 d) (s "sha256:")).
Definition nontrivial (c : case) : bool :=
  match c with
  | CHist h => nontrivial_h h
  | CFree h =>
      existsb (fun ov => match fst ov, snd ov with
                         | (GetBlob _ d | GetBlobRange _ d _ _), OOk (RRead _ _) => non_sha256 d
                         | _, _ => false
                         end) (combine (c_ops h) (c_via h))
  | CBig _ _ push _ _ _ => bg_ok (bc_via push)
  | CLong l => (1000 <=? long_delivered l)%nat
  | CErr _ _ probes => existsb (fun p => existsb (Z.eqb err_body_limit) (ep_sizes p)) probes
  end.

Lemma corr_sound c : model_agrees c = true -> obs_ok c = true \/ known_case c = true.
Proof.
  destruct c as [h|h|cfg want push got reads snap|l|cfg carrier probes]; cbn [model_agrees known_case].
  - apply corr_sound_h.
  - intros H. cbn [obs_ok]. unfold obs_ok_h, known_case_h. now apply forallb_not_vbad_split.
  - intros H. apply andb_true_iff in H as [_ H]. now left.
  - intros H. apply andb_true_iff in H as [_ H]. now left.
  - intros H. apply andb_true_iff in H as [_ H]. now left.
Qed.

(* ---- what the driver reads ---- *)

(* obs_ok c || (negb (c_strict c) && known_case c), computing the verdicts once *)
Definition eff_ok_h (c : hist) : bool :=
  let vs := verdicts c in
  forallb is_vok vs || (negb (c_strict c) && forallb not_vbad vs && existsb is_vknown vs).

Definition strict (c : case) : bool :=
  match c with CHist h | CFree h => c_strict h | _ => true end.

Definition eff_ok (c : case) : bool :=
  match c with
  | CHist h | CFree h => eff_ok_h h
  | _ => obs_ok c
  end.

Lemma eff_ok_spec c : eff_ok c = obs_ok c || (negb (strict c) && known_case c).
Proof.
  destruct c as [h|h| | |]; cbn [eff_ok known_case strict].
  1,2: cbn [obs_ok]; unfold eff_ok_h, obs_ok_h, known_case_h; now rewrite andb_assoc.
  all: now rewrite orb_false_r.
Qed.

Definition mismatches (cs : list case) : list (N * bool) :=
  bad_from 0 (fun c => if model_agrees c then None else Some (eff_ok c)) cs.

(* A history can hold a recorded deviation and a new one side by side, and the driver matches
   known findings per case (by the tags of the harness): so a case is reported when obs_ok
   fails AND (it is a strict case, i.e. the corpus case of a known finding run to re-confirm
   it, OR it deviates outside the recorded shapes). *)
Definition bad_obs (cs : list case) : list (N * bool) :=
  bad_from 0 (fun c => if eff_ok c then None else Some (model_agrees c)) cs.

(* diagnostics *)
Definition hist_of (c : case) : option hist := match c with CHist h | CFree h => Some h | _ => None end.
Definition where_bad (c : hist) : list (N * verdict) :=
  bad_from 0 (fun v => match v with VOk => None | _ => Some v end) (verdicts c).
Definition where_model (c : hist) : option N := first_bad 0 (c_direct c ++ snap_a c) (model_results c).
Definition where_mjudge (c : hist) : list (N * bool) :=
  match case_contexts c with
  | Some xs => bad_from 0 (fun x => if mjudge (c_cfg c) (names_wf (c_orc c) (x_op x)) x then None else Some true) xs
  | None => [(0%N, false)]
  end.
Definition where_stack (c : hist) :=
  let '(m, ms) := stack_run (c_cfg c) (c_orc c) (c_more c) (c_bufsz c) (c_ops c) (map (map pp_k) (c_pre c)) in
  (steps_bad 0 (map (stack_model_covers c) (c_ops c)) (c_via c) (c_vstat c) (c_trace c) (c_pre c) ms,
   final_agrees (c_orc c) m (c_snap c)).
Definition stack_says (c : hist) (i : nat) :=
  nth_error (snd (stack_run (c_cfg c) (c_orc c) (c_more c) (c_bufsz c) (c_ops c) (map (map pp_k) (c_pre c)))) i.
Definition slack_uses (c : hist) : N :=
  match case_contexts c with
  | Some xs => countb (fun x => used_slack (c_cfg c) (x_log x) (x_op x) (x_d x) (x_v x)) xs
  | None => 0%N
  end.

